#!/usr/bin/env python3
"""Writes MANIFEST.json from the table below (one entry per claimed property)."""
import json, os
HERE = os.path.dirname(os.path.abspath(__file__))

TECH = "deterministic simulation with fault injection: seeded search over schedules, fault scripts and workloads (blsim discrete-event simulator; libc clock/entropy seams; a thread scheduler for concurrent callers with preemption at allocations, lock waits, the library's atomic instructions (int3 breakpoints placed from a disassembly of the built binary) and instruction offsets; faults on the caller's side of a call: caller code unwinding through it, a failing sink, a faulty generator), oracle = reference model / ground truth / sequential result, failures minimised to a replay file"

# dimensions every claimed property shares (appended to its level text)
ROUTES = " In 4 of 10 runs of every class a seed-drawn share of the library calls goes through an alternative public route to the same operation (the scheme traits, BlsSignature constructors, sibling conversions, Clone / clone_from / conditional_select: 40 operations), under the same oracles."
AFTER = " Before one verifying call in eight the party first makes an aggregate verification in which its OWN code (the iterator feeding the trait-level verifier, or the message type's as_ref()) panics after k entries; it catches the unwind and goes on. After every refused request of a deterministic operation the party (half of the time each) presents the identical request once more and replays its last good request: both must get the answers they got before."
CONC = " Class conc-*: the calls of this property's own scenario, recorded in a sequential run, are replayed by 2-4 caller threads of one process under the simulator's thread scheduler (a baton; preemption at every heap allocation / deallocation, lock wait, yield, call boundary and atomic read-modify-write instruction inside a library function (uncontended lock acquisitions and releases, reference counts, counters: breakpoints placed from a disassembly of the built binary), and at a drawn instruction offset after one of these by single-stepping; also free-running from a barrier, and calls made from a thread-local destructor during thread teardown); every caller must get the sequential result."
EXTRA = {
 "C12": " A valid hand-made ciphertext with an unpadded payload goes through share creation and recombination: what the undivided key opens, the committee opens.",
 "C14": " Sums with operands an application assembles itself — the trivial encryption of a public constant (O, k*H), blinders that cancel in a partial sum — in every operator form, both operand orders and both associations. Plaintexts at machine-word boundaries (2^k-1, 2^k, 2^k+small for k = 8..64).",
 "C03": " Class interop-long-lists: Aggregate, multi-signature and multi-key sums over 2^17+1 (thorough: up to 2^20+1) entries of two signers against a*s1 + b*s2. Three ordinary list sizes (2048..40000, no power-of-two shape) per long-list run. One run in five derives the key from a seed that is text (hex of a digest, 0x-prefixed, base64, decimal digits, a pass phrase).",
 "C04": " Identity keys at positions up to 4095 (thorough 8192, 65536) of long lists; concurrent sessions also replay the list-position class and anchor one session in three on a verification that was refused alone.",
 "C01": " Messages whose content is related to the signer's key material (pk || m, pk, pk with a bit flipped, an earlier signature, the proof of possession) are signed and verified in every run. One time in three the verifier first tries the signature under the other two scheme labels (a label-damaged copy arrives first), then under its own.",
 "C02": " Half of the perturbed tuples reach the verifier in another codec (serde_bare, three serde_json front ends, the harness's own serde format, boxed bytes), forged there by substituting the point bytes, and are verified as decoded in that codec. Class verify-scale: one process verifies the signatures of 2^12+8 (thorough 2^15+8) distinct keys over one message and then offers early keys the signature of the key seen 2^k-1, 2^k, 2^k+1 verifications later. conc-tamper also parks one caller inside an honest verification while another makes 140 / 300 verifications under fresh keys.",
 "C05": " Real aggregates of 2-4 signers in three list shapes (distinct messages, one message, two and two) are relabelled and verified against their own list. Points signed under the sibling suite's tags (the other group assignment's identifiers hashed into this suite's signature group, for the run's message and a 32-byte digest, bare and pk-prefixed) must be refused under every label. Hand-made sign-crypt ciphertexts with an unpadded payload sealed under one scheme's tag are presented under the other labels. One-entry aggregates: a proof of possession as a PoP-labelled aggregate over [(pk, pk bytes)], a signature under the other labels.",
 "C06": " Class agg-block-sizes: honest aggregates at every list size n with n or n+1 a multiple of 32..256 up to 1025; class mixed-blocks: lists of up to 4500 signatures made of whole runs of two schemes at memory-block run lengths (2^k / size_of::<Signature>()). Every list size 2..400 of one scheme is accepted; class agg-very-long: honest aggregates of 4097 (thorough 2049, 8193, 16385) entries verify and fail with one message altered. Foreign-label entries carrying the neutral element or the honest entry's own point; non-fused iterators (None, then more entries) at trait level; agg-very-long also at the sizes that fill whole 16/32/64 MiB blocks of prepared pairing terms (855, 856, 1712, 1713, 3425, 3426) and at drawn ordinary sizes.",
 "C07": " Class mixed-blocks: lists of up to 4500 signatures made of whole runs of two schemes at memory-block run lengths. Every list size 2..400 of one scheme is accumulated without refusal. Foreign-label entries carrying the neutral element or the honest entry's own point; a caller's container whose as_ref() alternates between two lists gets the result of one of them.",
 "C08": " Key-share, public-key-share and partial-signature sets in which one identifier carries two different values (two dealings of one key mixed) must be refused. A transient fault of the dealer's generator (its k-th request answered with zero or 0xff bytes, every k): t shares still give the key, t-1 do not. A generator that panics mid-split (caught by the dealer), then another key dealt on the thread; generator outages of 20 / 64 consecutive zero answers.",
 "C09": " A registry that verifies proofs lazily from inside the iterator handed to aggregate_verify (library calls nested in a library call) must give every proof the verdict it gets on its own. Class registry-scale: 2^12+8 (thorough 2^15+8) registrations in one process, then early keys are offered the proof of the key registered 2^k-1, 2^k, 2^k+1 registrations later.",
 "C10": " Between the protocol steps the prover parks its commitment secret and commitment, and the verifier ships its challenge, in a drawn codec (all byte containers, serde_bare, serde_json front ends, big/little endian, the harness's own serde format). Proofs aged 2^32 / 2^33 / 2^34 ms plus less than the timeout are refused.",
 "C11": " Class sc-roundtrip-huge: payloads of 64 and 128 MiB (thorough: 256 MiB). A message value whose as_ref() shows other bytes on every read is sealed to exactly one of its views (struct and trait level); trait-level opening routes get payload slices that are not 8-byte aligned; thorough payloads also 384 and 512 MiB. The -big class also has framed sizes of 0.1, 1, 2, 3, 5, 10 million bytes.",
 "C13": " Class tl-beacon-huge: payloads of 64 and 128 MiB (thorough: 256 MiB). Thorough payloads also 384 and 512 MiB; trait-level unseal gets payload slices that are not 8-byte aligned. The -big class also has framed sizes of 0.1, 1, 2, 3, 5, 10 million bytes.",
 "C15": " Every type also travels through a third, self-describing serde format owned by the harness in four modes (binary/human-readable, lending or owned buffers, structs as sequences or maps). Two more modes: a lying size_hint and struct fields keyed by index / byte-string names. A third of the vault's writes are preceded by a write of the same value into a sink that fails after k bytes: the next encodings are unchanged.",
 "C16": " The Byzantine encoder also works in the harness's own serde format (point substitution, point-sized runs shortened) and adds the honest point plus a small-order point; the curve-tagged key wrapper is imported at every other length through all its byte importers. Cross-group derivatives: the other group's honest key or signature, decoded by its own type a moment ago, zero-extended / zero-prefixed / doubled / halved to this type's point length, must be refused. The source behind serde_json::from_reader fails or panics mid-document (caught) before the hostile decodes of the same thread.",
 "C17": " Structure-level corruption of documents in the harness's own serde format (one element more / fewer / 300 more, bytes <-> sequence, wrong scalar kind, variant tags, unknown / duplicate / missing keys) into every decoder of every type. Every decoder is also driven through a mode of that format whose SeqAccess announces usize::MAX elements.",
 "C18": " The golden corpus includes the harness's own serde format; ElGamal proofs over an application-chosen generator are exchanged with the reference both ways. The corpus also holds the format's packed mode (struct fields keyed by index and by byte-string names, as position-keyed codecs hand them to a derived Deserialize). Time-lock ciphertexts of another implementation whose alpha is big-endian or any 32 bytes: the tree answers what the pinned release answers.",
 "C19": " Class agg-block-sizes: aggregates at batch-boundary list sizes up to 1025 on both back ends. Class agg-very-long: 4097 entries (thorough 2049, 8193, 16385). Also at the sizes that fill whole blocks of prepared pairing terms (855, 856, 1712, 1713, 3425, 3426; thorough 6852, 6853, 5138, 5139).",
 "C20": " Thirteenth entry point: the trait-level seal with a caller-supplied blinder; fourteenth: ProofCommitment::generate over a message value whose as_ref() itself calls generate with the same inputs (outer and nested values compared). Class conc-fresh: all threads of a session make the same randomized call under the simulator's thread scheduler; every 32-byte run of every output must be distinct.",
}

CLAIMED = {
 "C04": dict(
   text="A Byzantine peer substitutes the identity point or the zero scalar for each point-/scalar-typed argument of every verify / decrypt / proof / encryption / signing entry point in turn, alone and together with the companion values that make the pairing equation hold trivially (pk=O with sig=O; key sets {pk,-pk}; PoK u=O with v=-y*sig, y=0 with u=x*H, v=-x*sig; signcryption u=O,w=O; a time-lock ciphertext assembled for pairing value 1 with sig=O; ElGamal c1/c2/pk=O and zero proof scalars / challenge), all schemes and groups: about 90 cases per (scheme, group), all enumerated in every run. A valid aggregate gets an identity-key pair inserted at first/middle/last/random positions with its own, a neighbour's or another signer's message for n up to 64. Oracle: never success.",
   note="Decryption shares are not in the statement (a zero key share yields an identity share without error): not asserted. PublicKey::sign_crypt returns no Result and is not asserted.",
   ref="DESIGN.md §4 C04"),
 "C18": dict(
   text="Mixed-version cluster: every honest-path scenario class (signing, registration, signcryption, threshold decryption, time-lock beacon, ElGamal tally, aggregation, multi-signatures, threshold signing, both PoK variants, the codec vault) runs with the vendored pinned release mirroring every request of the working tree and vice versa — deterministic outputs byte-equal, artefacts made by one version consumed by the other with the same result. Data at rest: a golden corpus (all 28 types x variants x codecs x groups x 4 payload sizes) written by the pinned flavour under a fixed entropy seed, pinned by a committed digest, is the disk a working-tree party restarts on: decodes to the same value, re-encodes identically. An independent implementation of the documented constructions (signcryption, time-lock, PoK challenge y=H(u||t_le), ElGamal merlin transcript) seals/opens/proves/verifies against the library in both directions.",
   note="Operation classes in which the pinned release is itself wrong are excluded from the old/new comparison by name (SecretKeyEnum byte forms, decryption-share verification for non-Basic ciphertexts, MessageAugmentation time-lock, timestamps ahead of the verifier's clock). Pinned parties sit on honest paths only. Trusted: the vendored copy of the pinned source, the reference implementation.",
   ref="DESIGN.md §4 C18"),
 "C19": dict(
   text="Mixed-backend cluster: every scenario class (honest, tamper, Byzantine, hostile-input) runs with twin parties, the blst build serving and the pure-Rust build mirroring every request, and the reverse. Deterministic operations must be byte-identical or refused by both; randomized artefacts made by the serving build are consumed by the mirroring build in the subsequent calls with identical plaintext / verdict; accept/reject decisions on all tampered inputs are compared. A tree whose pure-Rust configuration does not compile is a violation (replay = build log).",
   note="Share sets made by split_with_rng are randomized artefacts (how a back end turns RNG output into coefficients is not a wire format): cross-consumed, not byte-compared. Both flavours are built from /repo's working tree through generated shadow manifests.",
   ref="DESIGN.md §4 C19"),
 "C06": dict(
   text="Seeded search over simulated aggregation runs: n signers send (pk, msg, sig) to an aggregator through loss, duplication and reordering (with and without de-duplication at the aggregator); verifiers check the aggregate against the exact list, permutations, and one of 12 relay perturbations (message/key altered, pair dropped/added/duplicated/replaced, messages swapped between signers, keys swapped). The library's decision is compared on every list with a reference CoreAggregateVerify under the tree's own tags plus the Basic distinct-message rule; exact lists must verify in any order; single-position perturbations must fail; fewer than two or mixed schemes (every position, aligned runs) must be refused. n walks 2..=64.",
   note="Trusted: reference arithmetic. 'For all n in 2..=64' is covered by the every-n class (a few in quick, all in thorough).",
   ref="DESIGN.md §4 C06"),
 "C07": dict(
   text="As C06 for multi-signatures over one message under Basic and PoP: the accumulated signature must equal the plain group sum of the accumulated parts (a duplicated contribution counted twice), verify against the accumulated key of exactly those contributions in any order, and fail for every single-signer omission, re-addition, replacement, stranger addition and for another message; accumulation must refuse augmentation signatures, mixed schemes at every position and fewer than two inputs.",
   note="Trusted: reference arithmetic for the group sum.",
   ref="DESIGN.md §4 C07"),
 "C11": dict(
   text="Seeded search over simulated encryptor/recipient runs: ciphertexts for messages of length 0..40, 100..140, the LEB128 boundaries and up to 64 KiB, all schemes and groups, stored on the recipient's disk in 6 codecs across crash/restart and duplicated deliveries; a relay applies one of 23 perturbations (u, v bit / length prefix / truncation / extension, w, label, splices from another ciphertext, in-flight truncation / extension / bit flip). Untouched value => valid and exact plaintext through both decrypt paths; changed value => invalid and nothing; the validity flag gates decryption; another key never returns the original. Every single-bit flip of the byte encoding of short-message ciphertexts is enumerated.",
   note="'Value changed' is judged on the decoded value (e.g. a scheme byte >= 2 is the same label), using an independent field-level parser of the documented layout.",
   ref="DESIGN.md §4 C11"),
 "C12": dict(
   text="Seeded search over t-of-n decryption-share runs for all three ciphertext schemes: shares travel to a combiner under loss, duplication and reordering; every arrival prefix is decrypted directly and through a combined key. Each honest share must verify against its own key share and ciphertext and fail against another participant's key share and another ciphertext; >= t distinct shares give the exact message on both paths; < t never the original. 2<=t<=n<=5 x 3 schemes x 2 groups x every subset (in drawn orders) is enumerated completely.",
   note="'Fewer than t never return the original' is checked on the explored subsets (messages >= 4 bytes), not as a secrecy proof.",
   ref="DESIGN.md §4 C12"),
 "C13": dict(
   text="Seeded search over simulated rounds: encryptors seal to (key, round identifier, scheme); a beacon releases the round signature either with the whole key or recombined from t-of-n partial signatures that crossed a lossy/duplicating transport; holders decrypt on arrival. Correct signature => exact message; another round, key, scheme, relabelled or identity signature => nothing; a relay alters u, v, the authenticated prefix of w (length prefix + message), the padding, the length or the label: never a different message, and nothing at all when header, label or authenticated prefix changed. Every single-bit flip of short-message ciphertexts is enumerated.",
   note="Truncation below the authenticated prefix and framing damage are only required not to yield a different message. The checker knows the message length and so which bytes of w are authenticated.",
   ref="DESIGN.md §4 C13"),
 "C14": dict(
   text="Seeded search over simulated tallies: up to 16 voters encrypt scalars (incl. 1, r-1) with and without proof; ballots reach the tally in any order under loss, duplication and delay; the tally adds what arrived through all six addition operators. Conservation oracle: the sum decrypts (whole key, and a key recombined from a drawn t-of-n share subset in drawn order) to exactly the sum of the included plaintexts times H, H = hash-to-curve of the base point under the exposed tag. Honest proofs verify and verify-and-decrypt; each of 16 single-component perturbations of (c1, c2, message_proof, blinder_proof, challenge, pk) is rejected; a non-matching secret fails.",
   note="Trusted: reference arithmetic for m*H and the generator.",
   ref="DESIGN.md §4 C14"),
 "C15": dict(
   text="In every run a vault persists one value of each of the 28 exported types (x scheme variants x edge values: identity points, scalars 1 / r-1, timestamps 0 / 2^63 / u64::MAX, share identifiers incl. 1 and 255, payloads 0 B..64 KiB) in every codec the type offers (4 byte-container conversions, serde_bare, serde_json, big/little-endian for scalar types and the curve-tagged key wrapper), crashes, restarts, reloads and compares (canonical bytes and the type's PartialEq), and forwards to a second vault in another codec; encoding twice gives identical bytes; fixed-size types have one length per (type, group, codec). The type x group x scheme x codec table is enumerated in every run; values within a cell are seeded.",
   note="Nothing here depends on interleaving; the crash/restart/forward structure makes every type pass through every decoder. The curve-tagged wrapper's reference form is its JSON form (its byte form is under test).",
   ref="DESIGN.md §4 C15"),
 "C16": dict(
   text="A Byzantine encoder replaces, at every point position of every type in bytes / serde_bare / serde_json, the point by an on-curve point outside the subgroup, an x with no curve point, and four flag/range violations (manufactured with the reference crate's unchecked decompression); torn and short writes produce every strict prefix; exact-length types get other lengths; byte importers of secrets and challenges get zero, r and 2r; share containers with invalid payloads are sent to every use site (from_shares x4, both share verifiers). Oracle: error everywhere; plus corrupted/random byte strings whose accepted outputs are re-checked point by point (on curve, in subgroup).",
   note="Serde import of a zero secret key is not in the statement (it speaks of import from bytes) and is not asserted. Trusted: bls12_381_plus point classification.",
   ref="DESIGN.md §4 C16"),
 "C17": dict(
   text="Every library call of every party in every scenario runs under catch_unwind with a panic hook recording file:line, and a watchdog reports a worker without progress for 120 s. Dedicated hostile-input runs feed every decoder (28 types x all codecs) with every truncation length, bit flips, extensions, hex-digit corruption and degenerate JSON, then call every accessor / verify / decrypt / combination on whatever decoded; valid signcryption and time-lock envelopes around attacker-chosen framing bytes (all-0xFF varints, length > payload, empty payload); 14 timestamp x 9 timeout x 5 clock-skew classes; all 256 byte-OR values of the zero test; plus the tamper/Byzantine classes of all other scenarios. Everything runs in the release profile and in a profile with debug assertions and overflow checks.",
   note="Unwinds inside a dependency reached through a blsful decoder count. The HKDF zero-output retry loop is unreachable by input and not claimed.",
   ref="DESIGN.md §4 C17"),
 "C01": dict(
   text="Seeded search over simulated client/signer/verifier runs: request loss, duplication, late duplicates, client retries, signer crash and restart with the key reloaded from its durable encoding (8 key codecs), responses carried in 6 codecs. Invariants: signing succeeds, is byte-identical across retries/duplicates/restarts, every verifier accepts, also after one more encoding round trip of key, public key and signature. The grid key class x 38 message-length classes x scheme x group is enumerated completely in both tiers.",
   note="The universal 'for all sk, msg' is reached by the edge-biased grid and seeded content, i.e. by generation; the simulator contributes the retry/restart/duplicate histories and the durable-key reload. Trusted: harness transport/disk.",
   ref="DESIGN.md §4 C01"),
 "C02": dict(
   text="Seeded search with a Byzantine relay between signer and verifier applying one perturbation from the property's list per run (and random in-flight bit flips); the library's accept/reject decision is compared on every tuple with an independent CoreVerify (reference implementation, draft tags), and single-component changes must be rejected. Every single-bit flip of the (pk, signature, message) encodings is enumerated for sampled honest tuples.",
   note="Trusted: bls12_381_plus curve/pairing arithmetic and hash-to-curve used by the reference (anchored to RFC 9380 known answers and to agreement with blst), my transcription of the draft tags.",
   ref="DESIGN.md §4 C02"),
 "C03": dict(
   text="The reference implementation (scheme logic re-written from the draft, HKDF from a hand-written HMAC, draft tags typed by hand) runs as a peer: byte equality of KeyGen for seeds of many lengths, SkToPk, CoreSign under NUL/AUG/POP, PopProve and Aggregate for both ciphersuite families, mutual acceptance of signatures and proofs in both directions, AggregateVerify decisions equal. Seeded search over keys (incl. 1, 2, r-2, r-1), seeds, messages, aggregate shapes.",
   note="No schedule, clock or fault influences this property; the simulator contributes the heterogeneous-peer arrangement, workload, replay and minimisation (said so in DESIGN.md §4 C03). Trusted: bls12_381_plus arithmetic/hash-to-curve (RFC 9380 vectors), RFC 5869 vector for the HKDF.",
   ref="DESIGN.md §4 C03"),
 "C05": dict(
   text="Seeded search in which a relay relabels every scheme-tagged artefact (signature, share, aggregate, multi-signature, proofs of knowledge, commitment, signcryption and time-lock ciphertexts) to each other scheme (all 6 ordered pairs, both groups) and a confused signer presents signatures over pk bytes as proofs of possession and vice versa; every such case must be rejected. The finite set of tag constants the library exposes is enumerated: pairwise distinct, signature and PoP tags equal to the draft strings.",
   note="Trusted: harness relay; the draft strings typed by hand in the reference crate.",
   ref="DESIGN.md §4 C05"),
 "C09": dict(
   text="Seeded search over simulated registrations of (pk, PoP) by up to 8 parties (edge keys included) with retries, duplication and in-flight corruption; a Byzantine registrant presents every other party's proof with its own key (all ordered pairs) and perturbed proofs (-pi, pi+G, k*pi, identity, off-subgroup point, bit flips). Oracle: accepted iff pi == sk*H(pk) under the tree's own PoP tag, computed by the reference arithmetic; determinism of proofs.",
   note="Trusted: reference arithmetic (bls12_381_plus). Schedule contributes retry determinism only; the rest is generation plus corruption faults.",
   ref="DESIGN.md §4 C09"),
 "C10": dict(
   text="Seeded search over simulated prover/verifier runs with per-node wall clocks (skew up to 1 h, forward/backward jumps, freezes), network delay vs timeout, late duplicate deliveries (replay after expiry) and a Byzantine relay altering one component (u, v, challenge, message, key, label, timestamp incl. 0, +-1, 2^63, u64::MAX). Clock reference model at nanosecond granularity with a stated one-millisecond don't-care band at the timeout boundary; a timestamp ahead of the verifier's clock may be accepted or rejected but verification must never abort.",
   note="Assumes party clocks within [1970-01-02, 2200-01-01]. Interactive-proof tamper verdicts are decided by the verification equation evaluated by the reference arithmetic under the tree's own tags (algebraically valid related tuples, e.g. u/v swapped under the key 1, are not required to fail). Known finding: MessageAugmentation with the plain message (see known_findings.json).",
   ref="DESIGN.md §4 C10"),
 "C20": dict(
   text="The OS entropy device is simulated (libc getrandom seam). Each of the 12 randomized entry points is called N times (quick 256, thorough 4096; 8N in the single-sequence mode) with identical arguments at a frozen simulated clock: in one call sequence, on 8 caller threads with their own device streams, across 4 process incarnations, under two device seeds, with all entry points interleaved and every value compared with every other of its length, against the values of earlier runs on the same worker thread, and in pairs of child processes with the seam on and with real OS entropy; every exposed ephemeral (points, masks, the ElGamal proof's recomputed commitment, commitment secret, keys, challenges, share values) must be pairwise distinct over the whole recorded history.",
   note="Caller threads are real OS threads: the verdict is a property of the set of outputs and identical under every interleaving (blsful has no shared state to interleave); not asserted: how many bytes a call consumes. Entropy sources that are themselves broken (VM snapshot replay) are outside the premise.",
   ref="DESIGN.md §4 C20"),
 "C08": dict(
   text="Seeded search (exploration) over simulated dealer/signer/combiner runs: loss, duplication, reordering, partitions, signer crash/restart with torn and lost writes, Byzantine signers; recombination compared byte-for-byte with the whole-key result, bounded liveness after faults stop. The sub-space 2<=t<=n<=7 x {Basic,PoP} x both groups x every subset of every size is enumerated completely in both tiers; (t,n) up to 255 is sampled.",
   note="Trusted: harness party logic/transport/disk; vsss-rs and the curve back end are code under test, not trusted. 'Fewer than t shares never yield the key' is checked as 'the library's functions do not return it on the explored subsets', not as a secrecy proof.",
   ref="DESIGN.md §4 C08"),
}

PENDING = {}  # id -> reason (properties not claimed)

def main():
    ids = ["C%02d" % i for i in range(1, 21)]
    checks = []
    for i in ids:
        if i in CLAIMED:
            c = CLAIMED[i]
            checks.append({
                "property_id": i,
                "quick_cmd": f"./check {i} quick",
                "thorough_cmd": f"./check {i} thorough",
                "evidence_file": f"/verif/evidence/{i}.json",
                "replay_cmd_template": "./check replay {path}",
                "engine": "blsim",
                "level_claimed": {"category": "exploration", "text": c["text"] + EXTRA.get(i, "") + (ROUTES if i != "C20" else "") + (AFTER if i != "C20" else "") + (CONC if i not in ("C18", "C19", "C20") else ""), "design_ref": c["ref"]},
                "level_note": c["note"],
                "technique": TECH,
            })
    na = [{"property_id": i, "reason": PENDING.get(i, "check not yet built in this session (under construction; will be claimed once its simulated check exists)")} for i in ids if i not in CLAIMED]
    m = {
        "version": 1,
        "setup_cmd": "./setup.sh",
        "hooks": {
            "guard": "none",
            "enable": "no source hooks: the wall clock and OS entropy are intercepted at the libc boundary inside the simulator binary (clock_gettime / syscall(SYS_getrandom) / getrandom defined by sim/crates/kernel/src/seams.rs); /repo is compiled unmodified through generated shadow manifests",
            "baseline_off_cmd": "cd /repo && cargo test --workspace --no-fail-fast --offline",
            "source_commits": [],
            "add_only": True,
        },
        "engines": [{"name": "blsim", "path": "/verif/sim", "serves_properties": [c["property_id"] for c in checks],
                     "kind_free_text": "single-process discrete-event simulator (seeded scheduler, per-node clocks/entropy/disks, fault-injecting transport; thread scheduler for concurrent caller threads) driving the real blsful code of /repo's working tree through a byte-level facade; reference implementation as oracle; plan/replay/minimisation"}],
        "checks": checks,
        "not_applicable": na,
        "notes": "Exit codes of ./check: 0 held (known findings allowed), 1 violation (VIOLATION line + replay file), 2 harness error. VERIF_SEED seeds every run; VERIF_SCALE multiplies run counts; see DESIGN.md.",
    }
    json.dump(m, open(os.path.join(HERE, "MANIFEST.json"), "w"), indent=1)

if __name__ == "__main__":
    main()
