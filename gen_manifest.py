#!/usr/bin/env python3
"""Writes MANIFEST.json from the table below (one entry per claimed property)."""
import json, os
HERE = os.path.dirname(os.path.abspath(__file__))

TECH = "deterministic simulation with fault injection: seeded search over schedules, fault scripts and workloads (blsim discrete-event simulator, libc clock/entropy seams), oracle = reference model / ground truth, failures minimised to a replay file"

CLAIMED = {
 "C08": dict(
   text="Seeded search (exploration) over simulated dealer/signer/combiner runs: loss, duplication, reordering, partitions, signer crash/restart with torn and lost writes, Byzantine signers; recombination compared byte-for-byte with the whole-key result, bounded liveness after faults stop. The sub-space 2<=t<=n<=7 x {Basic,PoP} x both groups x every subset of every size is enumerated completely in both tiers; (t,n) up to 255 is sampled.",
   note="Trusted: harness party logic/transport/disk; vsss-rs and the curve back end are code under test, not trusted. 'Fewer than t shares never yield the key' is checked as 'the library's functions do not return it on the explored subsets', not as a secrecy proof.",
   ref="DESIGN.md §4 C08"),
}

PENDING = {}  # id -> reason (properties not claimed)

def main():
    ids = ["C%02d" % i for i in range(1, 21)]
    checks = []
    for i in ids:
        if i in CLAIMED:
            c = CLAIMED[i]
            checks.append({
                "property_id": i,
                "quick_cmd": f"./check {i} quick",
                "thorough_cmd": f"./check {i} thorough",
                "evidence_file": f"/verif/evidence/{i}.json",
                "replay_cmd_template": "./check replay {path}",
                "engine": "blsim",
                "level_claimed": {"category": "exploration", "text": c["text"], "design_ref": c["ref"]},
                "level_note": c["note"],
                "technique": TECH,
            })
    na = [{"property_id": i, "reason": PENDING.get(i, "check not yet built in this session (under construction; will be claimed once its simulated check exists)")} for i in ids if i not in CLAIMED]
    m = {
        "version": 1,
        "setup_cmd": "./setup.sh",
        "hooks": {
            "guard": "none",
            "enable": "no source hooks: the wall clock and OS entropy are intercepted at the libc boundary inside the simulator binary (clock_gettime / syscall(SYS_getrandom) / getrandom defined by sim/crates/kernel/src/seams.rs); /repo is compiled unmodified through generated shadow manifests",
            "baseline_off_cmd": "cd /repo && cargo test --workspace --no-fail-fast --offline",
            "source_commits": [],
            "add_only": True,
        },
        "engines": [{"name": "blsim", "path": "/verif/sim", "serves_properties": [c["property_id"] for c in checks],
                     "kind_free_text": "single-process discrete-event simulator (seeded scheduler, per-node clocks/entropy/disks, fault-injecting transport) driving the real blsful code of /repo's working tree through a byte-level facade; reference implementation as oracle; plan/replay/minimisation"}],
        "checks": checks,
        "not_applicable": na,
        "notes": "Exit codes of ./check: 0 held (known findings allowed), 1 violation (VIOLATION line + replay file), 2 harness error. VERIF_SEED seeds every run; VERIF_SCALE multiplies run counts; see DESIGN.md.",
    }
    json.dump(m, open(os.path.join(HERE, "MANIFEST.json"), "w"), indent=1)

if __name__ == "__main__":
    main()
