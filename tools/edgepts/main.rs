//! Search k = start, start+1, ... for points k*G (G1 and G2 generators) whose compressed encoding has a
//! coordinate whose leading 32-bit word (flag bits masked) is the modulus' leading word 0x1a0111ea ("max")
//! or zero ("min"). Usage: edgepts <g1|g2> <start> <count_per_thread> <threads>
use bls12_381_plus::{G1Affine, G1Projective, G2Affine, G2Projective, Scalar};
use bls12_381_plus::group::Curve;
use std::time::Instant;

const CH: usize = 2048;

fn word(b: &[u8]) -> u32 {
    u32::from_be_bytes([b[0] & 0x1f, b[1], b[2], b[3]])
}
fn class(w: u32) -> Option<&'static str> {
    if w == 0x1a0111ea {
        Some("max")
    } else if w == 0 {
        Some("min")
    } else {
        None
    }
}

fn main() {
    let a: Vec<String> = std::env::args().collect();
    let grp = a[1].clone();
    let start: u64 = a[2].parse().unwrap();
    let per: u64 = a[3].parse().unwrap();
    let threads: u64 = a[4].parse().unwrap();
    let t0 = Instant::now();
    std::thread::scope(|s| {
        for t in 0..threads {
            let grp = grp.clone();
            s.spawn(move || {
                let base = start + t * per;
                if grp == "g1" {
                    let g = G1Affine::generator();
                    let mut p = G1Projective::GENERATOR * Scalar::from(base);
                    let mut buf = vec![G1Projective::IDENTITY; CH];
                    let mut aff = vec![G1Affine::identity(); CH];
                    let mut k = base;
                    while k < base + per {
                        for b in buf.iter_mut() {
                            *b = p;
                            p = p.add_mixed(&g);
                        }
                        G1Projective::batch_normalize(&buf, &mut aff);
                        for (i, q) in aff.iter().enumerate() {
                            let c = q.to_compressed();
                            if let Some(cl) = class(word(&c[0..4])) {
                                println!("g1 {} k={} enc={}", cl, k + i as u64, c.iter().map(|b| format!("{:02x}", b)).collect::<String>());
                            }
                        }
                        k += CH as u64;
                    }
                } else {
                    let g = G2Affine::generator();
                    let mut p = G2Projective::GENERATOR * Scalar::from(base);
                    let mut buf = vec![G2Projective::IDENTITY; CH];
                    let mut aff = vec![G2Affine::identity(); CH];
                    let mut k = base;
                    while k < base + per {
                        for b in buf.iter_mut() {
                            *b = p;
                            p = p.add_mixed(&g);
                        }
                        G2Projective::batch_normalize(&buf, &mut aff);
                        for (i, q) in aff.iter().enumerate() {
                            let c = q.to_compressed();
                            for (h, off) in [("c1", 0usize), ("c0", 48)] {
                                if let Some(cl) = class(word(&c[off..off + 4])) {
                                    println!("g2 {}-{} k={} enc={}", cl, h, k + i as u64, c.iter().map(|b| format!("{:02x}", b)).collect::<String>());
                                }
                            }
                        }
                        k += CH as u64;
                    }
                }
            });
        }
    });
    eprintln!("done {} {} x {} in {:.1}s", grp, per, threads, t0.elapsed().as_secs_f64());
}
