//! Find two different 8-byte messages with the same 64-bit value under a cheap, unkeyed fingerprint:
//!   sip-write : std DefaultHasher::new() fed with hasher.write(msg)
//!   sip-hash  : std DefaultHasher::new() fed with <[u8] as Hash>::hash(msg) (length prefix, then bytes)
//!   fnv1a     : 64-bit FNV-1a over the bytes
//! Messages are the 8 little-endian bytes of (prefix << 40 | counter), counter < 2^33. Passes over buckets of the top
//! hash bits keep memory small. Usage: sipcollide <sip-write|sip-hash|fnv1a> <threads>
use std::collections::hash_map::DefaultHasher;
use std::hash::{Hash, Hasher};

fn fp(kind: u8, m: &[u8; 8]) -> u64 {
    match kind {
        0 => {
            let mut h = DefaultHasher::new();
            h.write(m);
            h.finish()
        }
        1 => {
            let mut h = DefaultHasher::new();
            m[..].hash(&mut h);
            h.finish()
        }
        _ => {
            let mut x: u64 = 0xcbf29ce484222325;
            for b in m {
                x ^= *b as u64;
                x = x.wrapping_mul(0x100000001b3);
            }
            x
        }
    }
}
fn msg(i: u64) -> [u8; 8] {
    (0xA5u64 << 56 | i).to_le_bytes()
}

fn main() {
    let a: Vec<String> = std::env::args().collect();
    let kind = match a[1].as_str() {
        "sip-write" => 0u8,
        "sip-hash" => 1,
        _ => 2,
    };
    let threads: u64 = a[2].parse().unwrap();
    let total: u64 = 1 << 33;
    let buckets = 32u64; // top 5 bits
    let mut found = 0;
    for b in 0..buckets {
        let per = total / threads;
        let mut parts: Vec<Vec<(u64, u64)>> = vec![];
        std::thread::scope(|s| {
            let hs: Vec<_> = (0..threads)
                .map(|t| {
                    s.spawn(move || {
                        let mut v = Vec::with_capacity((per / buckets + per / buckets / 8) as usize);
                        for i in t * per..(t + 1) * per {
                            let h = fp(kind, &msg(i));
                            if h >> 59 == b {
                                v.push((h, i));
                            }
                        }
                        v
                    })
                })
                .collect();
            for h in hs {
                parts.push(h.join().unwrap());
            }
        });
        let mut all: Vec<(u64, u64)> = parts.into_iter().flatten().collect();
        all.sort_unstable();
        for w in all.windows(2) {
            if w[0].0 == w[1].0 && w[0].1 != w[1].1 {
                let (m1, m2) = (msg(w[0].1), msg(w[1].1));
                println!("{} {} {} h={:016x}", a[1], m1.iter().map(|b| format!("{:02x}", b)).collect::<String>(), m2.iter().map(|b| format!("{:02x}", b)).collect::<String>(), w[0].0);
                found += 1;
            }
        }
        eprintln!("bucket {} done, {} entries, found so far {}", b, all.len(), found);
        if found >= 3 {
            break;
        }
    }
}
