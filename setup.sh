#!/bin/bash
# Build the framework from files on disk only (offline), both profiles, and run the seam self-test.
set -u
HERE="$(cd "$(dirname "$0")" && pwd)"
cd "$HERE/sim" || exit 2
export CARGO_NET_OFFLINE=true
export VERIF_REPO="${VERIF_REPO:-/repo}"
export CARGO_TARGET_DIR="${VERIF_TARGET_DIR:-$HERE/sim/target}"
python3 gen_shadow.py || exit 2
[ -f Cargo.lock ] || cp "$VERIF_REPO/Cargo.lock" Cargo.lock
cargo build --offline --release -p blsim 2>&1 | tail -n 3
cargo build --offline --profile checked -p blsim 2>&1 | tail -n 3
"$CARGO_TARGET_DIR/release/blsim" selftest || exit 2
"$CARGO_TARGET_DIR/checked/blsim" selftest || exit 2
# determinism proof on a sample: same seeds, 1 and 16 worker threads, four separate processes
"$CARGO_TARGET_DIR/release/blsim" determinism C08 C10 C13 || exit 2
