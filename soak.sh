#!/bin/bash
# soak.sh <tier> <seed>... — run every check at the given tier under each seed; one summary line per check.
# Used to hunt false alarms on the unchanged tree with seeds other than the default.
TIER="$1"; shift
HERE="$(cd "$(dirname "$0")" && pwd)"
cd "$HERE"
for seed in "$@"; do
  for id in C01 C02 C03 C04 C05 C06 C07 C08 C09 C10 C11 C12 C13 C14 C15 C16 C17 C18 C19 C20; do
    out=$(VERIF_SEED=$seed VERIF_EVIDENCE_DIR=/tmp/soak/ev-$seed VERIF_REPLAY_DIR=/tmp/soak/replays-$seed ./check $id $TIER 2>&1)
    rc=$?
    echo "seed=$seed $id rc=$rc $(echo "$out" | grep -E "$TIER:" | tail -1)"
    if [ $rc -ne 0 ]; then echo "$out" | grep -E "VIOLATION|invariant|error" | head -8; fi
  done
done
