//! Per-run recorder: oracle decisions, violations, reach measurements, logs for the
//! determinism proof. Logging never draws from a PRNG or reads a clock.

use crate::plan::Violation;
use crate::sim::{digest_bytes, Sim, Stats};
use simtypes::{Grp, Lib, Op, Out};
use std::sync::atomic::{AtomicU64, Ordering};

/// heartbeat slots for the loop watchdog (one per worker thread)
pub static HEARTBEAT: [AtomicU64; 64] = [const { AtomicU64::new(0) }; 64];
thread_local! {
    pub static WORKER_SLOT: std::cell::Cell<usize> = const { std::cell::Cell::new(0) };
}
/// The run each worker is executing right now, as a ready-made replay file (JSON): if the PROCESS dies under a run — a
/// double panic, an explicit abort, a fatal signal inside the library — the fatal-signal handler writes this file, prints the
/// VIOLATION line and exits with status 1. Threads the simulator starts on behalf of a run (party processes, caller
/// threads) inherit their worker's slot.
pub static INFLIGHT: [std::sync::Mutex<Option<(String, String, String)>>; 64] = [const { std::sync::Mutex::new(None) }; 64];
pub fn set_inflight(v: Option<(String, String, String)>) {
    let s = WORKER_SLOT.with(|c| c.get()) % 64;
    if let Ok(mut g) = INFLIGHT[s].lock() {
        *g = v;
    }
}
pub fn worker_slot() -> usize {
    WORKER_SLOT.try_with(|c| c.get()).unwrap_or(0)
}
pub fn set_worker_slot(s: usize) {
    let _ = WORKER_SLOT.try_with(|c| c.set(s));
}
extern "C" {
    fn _exit(code: i32) -> !;
    fn sigaction(sig: i32, act: *const FatalSigAction, old: *mut FatalSigAction) -> i32;
}
#[repr(C)]
struct FatalSigAction {
    handler: usize,
    mask: [u64; 16],
    flags: i32,
    restorer: usize,
}
extern "C" fn on_fatal(sig: i32) {
    // the process is lost; say which run killed it, in the format of any other violation
    let slot = worker_slot() % 64;
    let mine = INFLIGHT[slot].try_lock().ok().and_then(|g| g.clone());
    let pick = mine.or_else(|| INFLIGHT.iter().find_map(|m| m.try_lock().ok().and_then(|g| g.clone())));
    if let Some((property, path, json)) = pick {
        let _ = std::fs::write(&path, json);
        println!("VIOLATION property={} replay={}", property, path);
        println!("  invariant=process-abort detail=the process was killed by signal {} while this run was executing (abort, double panic, or a fatal fault inside a library call)", sig);
        use std::io::Write;
        let _ = std::io::stdout().flush();
        unsafe { _exit(1) }
    }
    unsafe { _exit(2) }
}
pub fn install_fatal_handler() {
    for sig in [6, 11, 7, 4, 8] {
        let act = FatalSigAction { handler: on_fatal as *const () as usize, mask: [0; 16], flags: 0, restorer: 0 };
        unsafe {
            sigaction(sig, &act, std::ptr::null_mut());
        }
    }
}

pub fn beat() {
    let s = WORKER_SLOT.with(|c| c.get());
    HEARTBEAT[s % 64].fetch_add(1, Ordering::Relaxed);
}

/// A second flavour that receives every request the primary receives (mixed-backend / mixed-version cluster).
#[derive(Clone)]
pub struct Twin {
    pub lib: &'static dyn Lib,
    /// name of the primary flavour whose calls are mirrored
    pub primary: &'static str,
    /// property charged with a disagreement (C18 / C19)
    pub property: &'static str,
    pub invariant: &'static str,
    /// returns true when the comparison of this call must be skipped (named exclusions)
    pub exclude: fn(Op, &[&[u8]], &Out, &Out) -> bool,
}

/// Operations whose output depends on fresh randomness (or that return nothing comparable):
/// only the outcome kind is compared; their artefacts are then cross-consumed by later calls.
/// (`Split` with a caller-supplied RNG: share sets are randomized artefacts — how a back end turns RNG
/// output into polynomial coefficients is not part of any wire format.)
pub fn is_randomized(op: Op) -> bool {
    matches!(
        op,
        Op::KeyNew | Op::KeyNewViaBls | Op::SplitEntropy | Op::Split | Op::SplitFaultyRng | Op::FickleMessage | Op::PokCommitNestedAsRef | Op::PokCommit | Op::ChallengeNew | Op::ChallengeNewViaBls | Op::PokTsGenerate | Op::SignCrypt | Op::TimeLock | Op::EgEncrypt | Op::EgEncryptProof | Op::EgSealRaw | Op::EgEncryptProofBlinder | Op::ScShareOverBase | Op::EnumNew | Op::Exercise
    )
}

/// One library call as the tree under test answered it in a sequential run (kept when a scenario asks for a trace).
#[derive(Clone)]
pub struct Traced {
    pub lib: &'static str,
    pub g: Grp,
    pub op: Op,
    pub args: Vec<Vec<u8>>,
    pub out: Out,
    pub clock: Option<i128>,
    pub tick: u64,
    pub route: u8,
}

pub struct Rec {
    /// Some = record the calls made on the tree under test (bounded) — the sequential model for concurrent replays
    pub trace: Option<Vec<Traced>>,
    pub twin: Option<Twin>,
    pub twin_compared: u64,
    /// the property this run decides; oracles of other properties are inert
    pub property: String,
    pub violations: Vec<Violation>,
    pub evals: u64,
    /// (hash of the abstract case, non-trivial?)
    pub cases: Vec<(u64, bool)>,
    pub samples: Vec<String>,
    pub stats: Stats,
    pub verdict_log: u64,
    pub artefact_log: u64,
    pub schedule: u64,
    pub sim_time_ns: u64,
    pub notes: Vec<String>,
    pub panics_seen: u64,
    pub step: u64,
    /// when true every unwinding facade call on the tree under test is a violation ("no-abort")
    pub panic_is_violation: bool,
    pub max_samples: usize,
    /// != 0: parties of this run are (partly) built on the library's alternative public routes (scheme traits,
    /// `BlsSignature::<C>` constructors, sibling conversions): the value seeds which calls take one
    pub alt_routes: u64,
    /// 1 = a seed-drawn half of the calls, 2 = every call that has an alternative route
    pub alt_mode: u8,
    /// the last deterministic call each party got a good answer to (per flavour and node): replayed after a refused call
    pub last_good: std::collections::BTreeMap<(String, usize), Traced>,
    /// the last small aggregate verification of this run (group, arguments): material for `before_call`
    pub last_agg: Option<(Grp, Vec<Vec<u8>>)>,
    /// guard: the follow-up calls below are not themselves followed up
    pub in_aftercare: bool,
    /// seed of the follow-up draws (0 = no follow-ups)
    pub aftercare: u64,
}

impl Rec {
    pub fn new(property: &str) -> Rec {
        Rec {
            trace: None,
            twin: None,
            twin_compared: 0,
            property: property.to_string(),
            violations: vec![],
            evals: 0,
            cases: vec![],
            samples: vec![],
            stats: Stats::default(),
            verdict_log: 0xC0FFEE,
            artefact_log: 0xBEEF,
            schedule: 0,
            sim_time_ns: 0,
            notes: vec![],
            panics_seen: 0,
            step: 0,
            panic_is_violation: property == "C17",
            max_samples: 3,
            alt_routes: 0,
            alt_mode: 0,
            last_good: std::collections::BTreeMap::new(),
            last_agg: None,
            in_aftercare: false,
            aftercare: 0,
        }
    }
    pub fn active(&self, prop: &str) -> bool {
        self.property == prop
    }
    /// One oracle decision. `cond` true = as expected.
    pub fn expect(&mut self, prop: &str, invariant: &str, cond: bool, detail: impl FnOnce() -> String) -> bool {
        if self.property != prop {
            return cond;
        }
        self.evals += 1;
        self.verdict_log = digest_bytes(self.verdict_log, invariant.as_bytes());
        self.verdict_log = digest_bytes(self.verdict_log, &[cond as u8]);
        if !cond {
            let d = detail();
            self.push_violation(prop, invariant, d);
        }
        cond
    }
    /// keep one violation per (invariant, key) class per run, at most 64 classes
    fn push_violation(&mut self, prop: &str, invariant: &str, detail: String) {
        let key = detail.split(" | ").next().unwrap_or("").to_string();
        let dup = self.violations.iter().any(|v| v.invariant == invariant && v.detail.split(" | ").next().unwrap_or("") == key);
        if !dup && self.violations.len() < 64 {
            self.violations.push(Violation { property: prop.to_string(), invariant: invariant.to_string(), detail, at: self.step });
        }
    }
    /// record an abstract case for the distinct/non-trivial count
    pub fn case(&mut self, parts: &[u64], nontrivial: bool) {
        let mut h = 0x1234_5678_9ABC_DEF0u64;
        for p in parts {
            h = digest_bytes(h, &p.to_le_bytes());
        }
        self.cases.push((h, nontrivial));
    }
    pub fn sample(&mut self, f: impl FnOnce() -> String) {
        if self.samples.len() < self.max_samples {
            self.samples.push(f());
        }
    }
    pub fn probe(&mut self, k: &'static str) {
        self.stats.probe(k);
    }
    pub fn fault(&mut self, k: &'static str) {
        self.stats.fault(k);
    }
    pub fn note(&mut self, s: String) {
        if self.notes.len() < 8 {
            self.notes.push(s);
        }
    }
    pub fn absorb_sim(&mut self, sim: &Sim) {
        self.stats.merge(&sim.stats);
        self.schedule = digest_bytes(self.schedule, &sim.schedule_digest.to_le_bytes());
        self.artefact_log = digest_bytes(self.artefact_log, &sim.artefact_digest.to_le_bytes());
        self.sim_time_ns += sim.now;
    }

    /// Every library call goes through here.
    pub fn call(&mut self, lib: &dyn Lib, g: Grp, op: Op, args: &[&[u8]]) -> Out {
        beat();
        self.stats.lib_calls += 1;
        let route = if self.alt_routes != 0 {
            let mut z = self.alt_routes ^ self.stats.lib_calls.wrapping_mul(0x9E37_79B9_7F4A_7C15);
            let h = crate::seams::splitmix(&mut z);
            if self.alt_mode == 2 || h & 1 == 1 { 1 + ((h >> 8) % 6) as u8 } else { 0 }
        } else {
            0
        };
        self.before_call(lib, g, op, args);
        let (clock_at_call, tick_at_call) = (crate::seams::clock_ns(), crate::seams::work_tick_ns());
        let out = crate::exec::call(lib, g, op, args, 0, route);
        if let Some(t) = self.trace.as_mut() {
            if t.len() < 6000 && lib.name() != "pinned" && args.iter().map(|a| a.len()).sum::<usize>() <= (1 << 16) {
                t.push(Traced { lib: lib.name(), g, op, args: args.iter().map(|a| a.to_vec()).collect(), out: out.clone(), clock: clock_at_call, tick: tick_at_call, route });
            }
        }
        match &out {
            Out::Ok(v) => {
                for p in v {
                    self.artefact_log = digest_bytes(self.artefact_log, p);
                }
            }
            Out::Rej(_) => {}
            Out::Panic(m) => {
                self.panics_seen += 1;
                let under_test = lib.name() != "pinned";
                if self.panic_is_violation && under_test {
                    self.evals += 1;
                    let site = panic_site(m);
                    let p = self.property.clone();
                    self.push_violation(&p, "no-abort", format!("abort at {} | op={:?} g={} lib={} msg={}", site, op, g.name(), lib.name(), m));
                } else {
                    self.note(format!("unwind in {:?} ({}) lib={}: {}", op, g.name(), lib.name(), m));
                }
            }
        }
        self.verdict_log = digest_bytes(self.verdict_log, &[op as u8, out.kind().as_bytes()[0]]);
        if let Some(tw) = self.twin.clone() {
            if lib.name() == tw.primary {
                beat();
                self.stats.lib_calls += 1;
                let other = crate::exec::call(tw.lib, g, op, args, 1, route);
                if !(tw.exclude)(op, args, &out, &other) {
                    self.twin_compared += 1;
                    self.evals += 1;
                    let same = if is_randomized(op) { out.kind() == other.kind() } else {
                        match (&out, &other) {
                            (Out::Ok(a), Out::Ok(b)) => a == b,
                            (Out::Rej(_), Out::Rej(_)) => true,
                            (Out::Panic(_), Out::Panic(_)) => true,
                            _ => false,
                        }
                    };
                    self.verdict_log = digest_bytes(self.verdict_log, &[same as u8]);
                    if !same {
                        let brief = |o: &Out| match o {
                            Out::Ok(v) => format!("Ok({})", v.iter().map(|b| { let h = crate::plan::hex(&b[..b.len().min(10)]); if b.len() > 10 { format!("{}..{}B", h, b.len()) } else { h } }).collect::<Vec<_>>().join(",")),
                            Out::Rej(s) => format!("Err({})", s),
                            Out::Panic(s) => format!("ABORT({})", s),
                        };
                        let detail = format!("{:?} g={} | {} says {} but {} says {}; first arg {}", op, g.name(), lib.name(), brief(&out), tw.lib.name(), brief(&other), args.first().map(|a| crate::plan::hex(&a[..a.len().min(16)])).unwrap_or_default());
                        self.push_violation(tw.property, tw.invariant, detail);
                    }
                } else {
                    self.stats.probe("twin-comparison-excluded-by-name");
                }
            }
        }
        if self.panic_is_violation {
            // in no-abort mode every consuming call that returned normally is one evaluation
            self.evals += 1;
        }
        self.after_call(lib, g, op, args, &out, route);
        out
    }

    /// A fault on the CALLER's side of an earlier call: before one verifying call in eight, this party makes an aggregate
    /// verification in which its own code (the iterator that feeds the trait-level verifier, or the message type's `as_ref()`
    /// at struct level) panics after k entries were consumed; it catches the unwind and carries on with the call it was
    /// about to make, whose answer the scenario's oracle then judges as always. The entries are those of the aggregate about
    /// to be verified, or of the last aggregate this run verified.
    fn before_call(&mut self, lib: &dyn Lib, g: Grp, op: Op, args: &[&[u8]]) {
        if self.aftercare == 0 || self.in_aftercare || lib.name() == "pinned" {
            return;
        }
        let verifying = matches!(op, Op::AggVerify | Op::AggVerifyTrait | Op::Verify | Op::VerifyIn | Op::PopVerify | Op::MultiVerify | Op::MultiSigVerifyKeys | Op::SigShareVerify | Op::PkShareVerify | Op::PokVerify | Op::CoreVerify);
        if !verifying {
            return;
        }
        let small = args.iter().map(|a| a.len()).sum::<usize>() <= (1 << 14);
        if op == Op::AggVerify && args.len() >= 5 && small {
            self.last_agg = Some((g, args.iter().map(|a| a.to_vec()).collect()));
        }
        let mut z = self.aftercare ^ self.stats.lib_calls.wrapping_mul(0xA24B_AED4_963E_E407);
        let h = crate::seams::splitmix(&mut z);
        if h % 8 != 0 {
            return;
        }
        if self.last_agg.is_none() {
            // no aggregate verified in this run so far: the party makes a small one of its own (three signers, a scheme drawn
            // from the hash)
            self.in_aftercare = true;
            let scheme = [((h >> 20) % 3) as u8];
            let mut mat: Vec<Vec<u8>> = vec![];
            let mut sigs: Vec<Vec<u8>> = vec![];
            for i in 0..3u8 {
                let sk = crate::exec::call(lib, g, Op::KeyFromHash, &[&[b'u', b'n', b'w', i]], 0, 0).first().map(|b| b.to_vec());
                let Some(sk) = sk else { break };
                let pk = crate::exec::call(lib, g, Op::PublicKey, &[&sk], 0, 0).first().map(|b| b.to_vec());
                let m = vec![b'm', i];
                let sg = crate::exec::call(lib, g, Op::Sign, &[&sk, &scheme, &m], 0, 0).first().map(|b| b.to_vec());
                let (Some(pk), Some(sg)) = (pk, sg) else { break };
                mat.push(pk);
                mat.push(m);
                sigs.push(sg);
            }
            if sigs.len() == 3 {
                let refs: Vec<&[u8]> = sigs.iter().map(|b| b.as_slice()).collect();
                if let Some(agg) = crate::exec::call(lib, g, Op::Aggregate, &refs, 0, 0).first() {
                    let mut all = vec![agg.to_vec()];
                    all.extend(mat);
                    self.last_agg = Some((g, all));
                }
            }
            self.stats.lib_calls += 10;
            self.in_aftercare = false;
        }
        let Some((pg, pa)) = self.last_agg.clone() else { return };
        let n = (pa.len() - 1) / 2;
        let k = if (h >> 8) % 4 == 0 { 0 } else { 1 + (h >> 16) % (n as u64 - 1) };
        let how = ((h >> 12) & 1) as u8;
        let kb = k.to_le_bytes();
        let hb = [how];
        let mut a2: Vec<&[u8]> = vec![&pa[0], &kb, &hb];
        a2.extend(pa[1..].iter().map(|b| b.as_slice()));
        self.in_aftercare = true;
        let o = crate::exec::call(lib, pg, Op::AggVerifyCallerPanics, &a2, 0, 0);
        self.in_aftercare = false;
        self.stats.lib_calls += 1;
        if matches!(&o, Out::Rej(m) if m.contains("caller panicked")) {
            self.stats.fault("caller-code-unwinds-through-a-library-call");
        }
    }

    /// What a party does after a call, half of the time each, because a REFUSED request must leave nothing behind:
    /// (A) the identical request once more — it gets the identical answer (a refused request is not accepted on retry, a
    ///     negative cache does not start refusing what it accepted);
    /// (B) the last request this party got a good answer to, once more — it still gets that answer.
    /// Deterministic operations only; the follow-ups run in the same party process as the call they follow.
    fn after_call(&mut self, lib: &dyn Lib, g: Grp, op: Op, args: &[&[u8]], out: &Out, route: u8) {
        if self.aftercare == 0 || self.in_aftercare || is_randomized(op) || lib.name() == "pinned" || out.is_panic() {
            return;
        }
        if op == Op::PokTsVerify && crate::seams::work_tick_ns() != 0 {
            return; // its answer depends on the time that flows during the call
        }
        let refused = out.is_rej() || matches!(out, Out::Ok(v) if v.len() == 1 && v[0] == [0u8]);
        let node = crate::exec::current_node();
        let key = (lib.name().to_string(), node);
        if !refused {
            if args.iter().map(|a| a.len()).sum::<usize>() <= (1 << 14) {
                self.last_good.insert(key, Traced { lib: lib.name(), g, op, args: args.iter().map(|a| a.to_vec()).collect(), out: out.clone(), clock: crate::seams::clock_ns(), tick: 0, route });
            }
            return;
        }
        let mut z = self.aftercare ^ self.stats.lib_calls.wrapping_mul(0xD1B5_4A32_D192_ED03);
        let h = crate::seams::splitmix(&mut z);
        self.in_aftercare = true;
        let same = |a: &Out, b: &Out| match (a, b) {
            (Out::Ok(x), Out::Ok(y)) => x == y,
            (Out::Rej(_), Out::Rej(_)) => true,
            _ => false,
        };
        let prop = self.property.clone();
        if h & 1 == 0 {
            self.stats.probe("refused-request-presented-again");
            // by the same route as the first time (the struct-level and the trait-level share verifiers legitimately differ on
            // a share whose identifier label alone was changed)
            let again = crate::exec::call(lib, g, op, args, 0, route);
            self.stats.lib_calls += 1;
            self.expect(&prop, "refused-request-stays-refused", same(&again, out), || format!("{:?} g={} lib={} | the identical request was answered {} the first time and {} when presented again", op, g.name(), lib.name(), out.kind(), again.kind()));
        }
        if h & 2 == 0 {
            if let Some(c) = self.last_good.get(&key).cloned() {
                if c.clock == crate::seams::clock_ns() || c.op != Op::PokTsVerify {
                    self.stats.probe("good-request-replayed-after-a-refused-one");
                    let refs: Vec<&[u8]> = c.args.iter().map(|a| a.as_slice()).collect();
                    // same route as the first time: the answer is a function of the request
                    let saved = (self.alt_routes, self.alt_mode);
                    self.alt_routes = 0;
                    let o = crate::exec::call(lib, c.g, c.op, &refs, 0, c.route);
                    self.stats.lib_calls += 1;
                    self.alt_routes = saved.0;
                    self.alt_mode = saved.1;
                    self.expect(&prop, "good-request-unaffected-by-a-refused-one", same(&o, &c.out), || format!("{:?} g={} lib={} | a request that was answered {} is answered {} right after this party's {:?} request was refused", c.op, c.g.name(), lib.name(), c.out.kind(), o.kind(), op));
                }
            }
        }
        self.in_aftercare = false;
    }
}

/// "file:line" part of a recorded panic message (`<msg> @ <file>:<line>`), with the crate
/// registry prefix removed so a site reads e.g. `src/traits/sig_proof.rs:157`.
pub fn panic_site(m: &str) -> String {
    let loc = m.rsplit(" @ ").next().unwrap_or("?");
    let loc = loc.trim();
    // keep the last three path components at most
    let parts: Vec<&str> = loc.split('/').collect();
    let keep = if parts.len() > 3 { &parts[parts.len() - 3..] } else { &parts[..] };
    keep.join("/")
}
