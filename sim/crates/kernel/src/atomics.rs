//! Scheduling events at the ATOMIC INSTRUCTIONS of the library under test.
//!
//! An uncontended `Mutex::lock`, an unlock, a reference-count update, a `fetch_add`, a `compare_exchange`: none of them
//! allocates or makes a system call, so the allocator and futex seams do not see them — and "check under the lock, release,
//! act under the lock again" has its whole window between two such instructions. The seam is put at the machine level,
//! without touching /repo:
//!
//! * the binary is disassembled once per build (`objdump -d`, cached next to the executable) and every `lock`-prefixed
//!   instruction and every `xchg` with a memory operand inside a function whose symbol belongs to the library under test
//!   (`blsful`, not the vendored `blsful_pinned`) is listed — code of std's primitives that was inlined into library
//!   functions (the fast paths) is therefore included, the slow paths park through futex and are events already;
//! * at the first controlled session the first byte of each listed instruction is replaced by `int3`. The SIGTRAP handler
//!   counts an event of the calling thread (and gives the baton away if the plan says so, BEFORE the instruction
//!   executes), puts the original byte back, single-steps the instruction with the trap flag and re-arms the breakpoint.
//!
//! On the unchanged tree the list is empty or nearly so (blsful has no shared state); on a tree that adds a lock or an
//! atomic behind the API every acquisition and release becomes a point where the simulator can switch callers.
//! If `objdump` is missing the list is empty and a probe says so.

use std::sync::atomic::{AtomicBool, AtomicPtr, AtomicU32, AtomicU64, Ordering};

pub struct Bp {
    pub addr: usize,
    pub orig: u8,
    pub hits: AtomicU32,
}

static TABLE: AtomicPtr<Vec<Bp>> = AtomicPtr::new(std::ptr::null_mut());
static TRIED: AtomicBool = AtomicBool::new(false);
static ARMED_COUNT: AtomicU64 = AtomicU64::new(0);
static SCAN_STATE: AtomicU32 = AtomicU32::new(0); // 0 not tried, 1 ok, 2 objdump unavailable, 3 address check failed
/// a breakpoint that fires more often than this in one process stays disarmed (a counter in a hot loop)
const HIT_BUDGET: u32 = 50_000;

extern "C" {
    fn mprotect(addr: *mut core::ffi::c_void, len: usize, prot: i32) -> i32;
}

pub fn armed() -> u64 {
    ARMED_COUNT.load(Ordering::Relaxed)
}
pub fn state() -> &'static str {
    match SCAN_STATE.load(Ordering::Relaxed) {
        0 => "not-armed",
        1 => "armed",
        2 => "disassembler-unavailable",
        _ => "address-check-failed",
    }
}

/// (virtual address in the file, first byte) of every atomic instruction in library functions
fn scan(exe: &std::path::Path) -> Option<Vec<(usize, u8)>> {
    let meta = std::fs::metadata(exe).ok()?;
    let stamp = format!("v2 {} {}", meta.len(), meta.modified().ok().and_then(|m| m.duration_since(std::time::UNIX_EPOCH).ok()).map(|d| d.as_nanos()).unwrap_or(0));
    let cache = exe.with_extension("atomics");
    if let Ok(text) = std::fs::read_to_string(&cache) {
        let mut lines = text.lines();
        if lines.next() == Some(stamp.as_str()) {
            return Some(lines.filter_map(|l| { let mut p = l.split(' '); Some((usize::from_str_radix(p.next()?, 16).ok()?, u8::from_str_radix(p.next()?, 16).ok()?)) }).collect());
        }
    }
    let out = std::process::Command::new("objdump").args(["-d", "-j", ".text"]).arg(exe).stderr(std::process::Stdio::null()).output().ok()?;
    if !out.status.success() {
        return None;
    }
    let text = String::from_utf8_lossy(&out.stdout);
    let mut v = vec![];
    let mut in_lib = false;
    for line in text.lines() {
        if line.ends_with(">:") {
            // "0000000000123450 <symbol>:"
            let sym = line.split('<').nth(1).unwrap_or("");
            in_lib = sym.contains("blsful") && !sym.contains("blsful_pinned") && !sym.contains("13blsful_pinned");
            continue;
        }
        if !in_lib {
            continue;
        }
        // "  38e04e:\tf0 48 0f b1 0f       \tlock cmpxchg %rcx,(%rdi)"
        let mut parts = line.split('\t');
        let (Some(a), Some(bytes), Some(ins)) = (parts.next(), parts.next(), parts.next()) else { continue };
        let ins = ins.trim();
        let atomic = ins.starts_with("lock ") || (ins.starts_with("xchg") && ins.contains('('));
        if !atomic {
            continue;
        }
        let (Ok(addr), Some(Ok(first))) = (usize::from_str_radix(a.trim().trim_end_matches(':'), 16), bytes.split_whitespace().next().map(|b| u8::from_str_radix(b, 16))) else { continue };
        v.push((addr, first));
    }
    let mut body = stamp.clone();
    for (a, b) in &v {
        body.push_str(&format!("\n{:x} {:x}", a, b));
    }
    let tmp = cache.with_extension(format!("atomics.{}", std::process::id()));
    if std::fs::write(&tmp, body).is_ok() {
        let _ = std::fs::rename(&tmp, &cache);
    }
    Some(v)
}

fn load_base(exe: &std::path::Path) -> Option<usize> {
    let maps = std::fs::read_to_string("/proc/self/maps").ok()?;
    let want = exe.to_string_lossy();
    for l in maps.lines() {
        let mut p = l.split_whitespace();
        let (Some(range), Some(_perm), Some(off), Some(_dev), Some(_ino), Some(path)) = (p.next(), p.next(), p.next(), p.next(), p.next(), p.next()) else { continue };
        if path == want && u64::from_str_radix(off, 16) == Ok(0) {
            return usize::from_str_radix(range.split('-').next()?, 16).ok();
        }
    }
    None
}

/// Arm the breakpoints (once per process). Returns how many are armed.
pub fn arm() -> u64 {
    if TRIED.swap(true, Ordering::SeqCst) {
        // somebody else is arming or has armed; wait until the table is published (or given up)
        while SCAN_STATE.load(Ordering::Acquire) == 0 {
            std::thread::yield_now();
        }
        return armed();
    }
    let fin = |st: u32| {
        SCAN_STATE.store(st, Ordering::Release);
        armed()
    };
    let Ok(exe) = std::fs::read_link("/proc/self/exe") else { return fin(2) };
    let Some(list) = scan(&exe) else { return fin(2) };
    let Some(base) = load_base(&exe) else { return fin(3) };
    let mut table: Vec<Bp> = vec![];
    for (va, first) in &list {
        let addr = base + va;
        let cur = unsafe { *(addr as *const u8) };
        if cur != *first {
            return fin(3);
        }
        table.push(Bp { addr, orig: cur, hits: AtomicU32::new(0) });
    }
    table.sort_by_key(|b| b.addr);
    table.dedup_by_key(|b| b.addr);
    // text pages become writable (private copy-on-write pages of this process only)
    let mut pages: Vec<usize> = table.iter().flat_map(|b| [b.addr & !4095, (b.addr + 1) & !4095]).collect();
    pages.sort();
    pages.dedup();
    for p in &pages {
        if unsafe { mprotect(*p as *mut _, 4096, 7) } != 0 {
            return fin(3);
        }
    }
    let n = table.len() as u64;
    let ptr = Box::into_raw(Box::new(table));
    TABLE.store(ptr, Ordering::Release);
    for b in unsafe { &*ptr }.iter() {
        unsafe { std::ptr::write_volatile(b.addr as *mut u8, 0xCC) };
    }
    ARMED_COUNT.store(n, Ordering::Relaxed);
    fin(1)
}

/// the breakpoint at `addr`, if any (async-signal-safe: a binary search in an immutable table)
#[inline]
pub fn lookup(addr: usize) -> Option<&'static Bp> {
    let p = TABLE.load(Ordering::Acquire);
    if p.is_null() {
        return None;
    }
    let t: &'static Vec<Bp> = unsafe { &*p };
    t.binary_search_by_key(&addr, |b| b.addr).ok().map(|i| &t[i])
}
#[inline]
pub fn restore(b: &Bp) {
    unsafe { std::ptr::write_volatile(b.addr as *mut u8, b.orig) };
}
/// put the breakpoint back unless it has used up its budget
#[inline]
pub fn rearm(addr: usize) {
    if let Some(b) = lookup(addr) {
        if b.hits.fetch_add(1, Ordering::Relaxed) < HIT_BUDGET {
            unsafe { std::ptr::write_volatile(b.addr as *mut u8, 0xCC) };
        }
    }
}
