//! One OS thread per simulated party ("process"). blsful has no state of its own today, but a realistic
//! change can add some (a thread-local memo, a lazily initialised table): in a deployment each party is
//! its own process with its own copy of that state, long-lived parties have a history, restarted ones
//! start fresh. Running every party's library calls on the simulator thread would give all parties ONE
//! shared copy and hide any failure that needs two parties with different histories.
//!
//! So each worker thread owns a small pool of executor threads: `long-lived` ones (one per node slot,
//! surviving from run to run — they have served earlier runs of every group, scheme and key) and `fresh`
//! ones (created for a run or at a simulated restart, dropped afterwards). A library call made while node
//! `n` is current is shipped to n's executor and the caller blocks until the reply: still exactly one
//! thing runs at a time, decided by the simulator. The simulated wall clock, monotonic clock and the
//! node's entropy stream travel with the call. Calls made outside any node step (setup, oracle
//! computations) run inline: the checker is its own process.

use crate::seams::{self, Xo};
use simtypes::{Grp, Lib, Op, Out};
use std::cell::{Cell, RefCell};
use std::collections::HashMap;
use std::sync::mpsc::{channel, Receiver, Sender};

pub const NO_NODE: usize = usize::MAX;
const SLOTS: usize = 8;

struct Job {
    lib: &'static dyn Lib,
    g: Grp,
    op: Op,
    args: Vec<Vec<u8>>,
    clock: Option<i128>,
    mono: u64,
    tick: u64,
    entropy: Option<Xo>,
    route: u8,
}
struct Reply {
    out: Out,
    entropy: Option<Xo>,
}
struct Executor {
    tx: Sender<Job>,
    rx: Receiver<Reply>,
}

fn spawn_executor() -> Executor {
    let (tx, jrx) = channel::<Job>();
    let (rtx, rx) = channel::<Reply>();
    let slot = crate::rec::worker_slot();
    std::thread::Builder::new()
        .name("party".into())
        .stack_size(8 << 20)
        .spawn(move || {
            // std seeds this thread's hash-map keys from OS entropy on first use: do it now, with the seam off
            let _ = std::collections::hash_map::RandomState::new();
            crate::rec::set_worker_slot(slot);
            while let Ok(job) = jrx.recv() {
                seams::set_clock_ns(job.clock);
                seams::set_work_tick_ns(job.tick);
                seams::set_mono_raw(job.mono);
                seams::set_entropy(job.entropy);
                let refs: Vec<&[u8]> = job.args.iter().map(|a| a.as_slice()).collect();
                let out = job.lib.call_routed(job.g, job.op, &refs, job.route);
                let entropy = seams::set_entropy(None);
                seams::set_work_tick_ns(0);
                seams::set_clock_ns(None);
                if rtx.send(Reply { out, entropy }).is_err() {
                    break;
                }
            }
        })
        .expect("spawn party thread");
    Executor { tx, rx }
}

thread_local! {
    static CUR_NODE: Cell<usize> = const { Cell::new(NO_NODE) };
    /// long-lived party processes of this worker, by node slot
    static LONG_LIVED: RefCell<HashMap<usize, Executor>> = RefCell::new(HashMap::new());
    /// party processes started during the current run (fresh at run start, or restarted)
    static FRESH: RefCell<HashMap<usize, Executor>> = RefCell::new(HashMap::new());
    /// bit n set: node n runs in a fresh process in this run
    static FRESH_MASK: Cell<u64> = const { Cell::new(0) };
    static ENABLED: Cell<bool> = const { Cell::new(true) };
    pub static REMOTE_CALLS: Cell<u64> = const { Cell::new(0) };
    pub static FRESH_STARTS: Cell<u64> = const { Cell::new(0) };
}

pub fn set_current_node(n: usize) -> usize {
    CUR_NODE.with(|c| c.replace(n))
}
pub fn current_node() -> usize {
    CUR_NODE.with(|c| c.get())
}
pub fn set_enabled(v: bool) {
    ENABLED.with(|c| c.set(v));
}

/// Start of a run: decide from the seed which parties are freshly started processes; drop last run's fresh ones.
pub fn begin_run(seed: u64) {
    FRESH.with(|f| f.borrow_mut().clear());
    let mut x = Xo::derive(seed, &[0xF2E5]);
    // about half of the runs have every party long-lived; otherwise a random subset is fresh
    let mask = if x.chance(1, 2) { 0 } else { x.next() };
    FRESH_MASK.with(|m| m.set(mask));
    CUR_NODE.with(|c| c.set(NO_NODE));
}
pub fn end_run() {
    FRESH.with(|f| f.borrow_mut().clear());
    CUR_NODE.with(|c| c.set(NO_NODE));
}
/// A simulated restart of `node`: its process is new, in-memory library state is gone.
pub fn restart_node(node: usize) {
    let slot = node % 64;
    FRESH_MASK.with(|m| m.set(m.get() | (1u64 << slot)));
    FRESH.with(|f| {
        f.borrow_mut().remove(&node);
    });
}

/// Execute one library call in the process of the current node (inline when no node is current).
pub fn call(lib: &dyn Lib, g: Grp, op: Op, args: &[&[u8]], lane: usize, route: u8) -> Out {
    let node = current_node();
    if node == NO_NODE || !ENABLED.with(|c| c.get()) {
        return lib.call_routed(g, op, args, route);
    }
    // SAFETY: the call is synchronous — this function does not return before the executor has replied, so the
    // borrow of `lib` outlives its use on the other thread. (All `Lib`s are statics in this program anyway.)
    let lib_static: &'static dyn Lib = unsafe { std::mem::transmute::<&dyn Lib, &'static dyn Lib>(lib) };
    let key = node + lane * 1000;
    let fresh = FRESH_MASK.with(|m| (m.get() >> (node % 64)) & 1 == 1);
    let job = Job {
        lib: lib_static,
        g,
        op,
        args: args.iter().map(|a| a.to_vec()).collect(),
        clock: seams::clock_ns(),
        mono: seams::mono_raw(),
        tick: seams::work_tick_ns(),
        entropy: seams::set_entropy(None),
        route,
    };
    REMOTE_CALLS.with(|c| c.set(c.get() + 1));
    let run = |e: &Executor, job: Job| -> Option<Reply> {
        e.tx.send(job).ok()?;
        e.rx.recv().ok()
    };
    let reply = if fresh {
        FRESH.with(|f| {
            let mut f = f.borrow_mut();
            let e = f.entry(key).or_insert_with(|| {
                FRESH_STARTS.with(|c| c.set(c.get() + 1));
                spawn_executor()
            });
            run(e, job)
        })
    } else {
        LONG_LIVED.with(|l| {
            let mut l = l.borrow_mut();
            let e = l.entry((node % SLOTS) + lane * 1000).or_insert_with(spawn_executor);
            run(e, job)
        })
    };
    match reply {
        Some(r) => {
            seams::set_entropy(r.entropy);
            r.out
        }
        None => Out::Panic("party executor thread died @ ?".into()),
    }
}
