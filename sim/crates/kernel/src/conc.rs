//! Caller threads of ONE party process under a scheduler the simulator owns.
//!
//! blsful has no threads of its own, but it is a library: a signing service calls it from a pool of worker threads,
//! and a realistic change can put state behind those calls (a process-wide cache behind a lock, a lazily built
//! table, a shared generator). Whether such state is handled correctly depends on the interleaving of the callers,
//! so the interleaving goes behind a seam — again without touching /repo:
//!
//! * all caller threads of a session are real OS threads, but only the holder of a **baton** runs; everybody else is
//!   parked on a futex word (raw `syscall` instruction, not the interposed libc entry);
//! * the holder can lose the baton only at **events** the simulator sees: every heap allocation and deallocation
//!   (the binary's global allocator), every blocking lock operation (std's locks park through `syscall(SYS_futex,
//!   FUTEX_WAIT..)`, which the binary interposes: a wait becomes "give the baton away, then report a spurious
//!   wake-up", so a lock held by a parked thread never blocks the process), `sched_yield`, and call boundaries;
//! * between two events the simulator can still preempt at **instruction** granularity: it sets the CPU's trap flag
//!   at an event and counts single steps (SIGTRAP) until the drawn offset is reached — a window of at most a few
//!   hundred instructions after an event, which is where a lock has just been released or is about to be taken;
//! * which thread gets the baton next is drawn from the session's PRNG; the preemption points `(thread, event
//!   index, instruction offset)` are part of the plan. One seed = one interleaving.
//!
//! A second mode, `free`, starts the same caller threads from a barrier and lets the operating system interleave
//! them (many repetitions). It is not replayable and says so; its verdicts are sound all the same, because every
//! oracle applied to a session is independent of the interleaving (each call must return what it returns alone).

use crate::seams::{self, Xo};
use core::arch::asm;
use simtypes::{Grp, Lib, Op, Out};
use std::cell::{Cell, RefCell, UnsafeCell};
use std::sync::atomic::{AtomicBool, AtomicU32, AtomicU64, Ordering};

pub struct Call {
    pub lib: &'static dyn Lib,
    pub g: Grp,
    pub op: Op,
    pub args: Vec<Vec<u8>>,
    /// simulated wall clock (ns) the caller sees during this call
    pub clock: Option<i128>,
    pub route: u8,
}

/// One preemption: thread `thread` gives the baton away `steps` instructions after its `event`-th event
/// (`steps` = 0: at the event itself).
#[derive(Clone, Copy, Debug, PartialEq, Eq)]
pub struct Preempt {
    pub thread: usize,
    pub event: u64,
    pub steps: u32,
}

pub struct SessionOut {
    pub outs: Vec<Vec<Out>>,
    /// events (allocations, deallocations, lock waits, yields, call boundaries) seen per thread
    pub events: Vec<u64>,
    pub switches: u64,
    pub lock_waits: u64,
    pub single_steps: u64,
    /// order in which threads received the baton
    pub order_digest: u64,
    pub preempts_fired: u64,
    /// events at atomic instructions of the library (a subset of `events`)
    pub atomic_events: u64,
    /// per thread: which of its events (1-based indices) were atomic instructions (at most 96 per thread are recorded)
    pub atomic_at: Vec<Vec<u64>>,
}

const NOBODY: u32 = u32::MAX;
const MAX_THREADS: usize = 8;
const SYS_FUTEX: i64 = 202;
const FUTEX_WAIT_PRIVATE: i64 = 128;
const FUTEX_WAKE_PRIVATE: i64 = 129;

struct Inner {
    rng: Xo,
    order_digest: u64,
    switches: u64,
    lock_waits: u64,
    single_steps: u64,
    preempts_fired: u64,
    atomic_events: u64,
    /// per thread: the event indices that were atomic instructions (the first 96 of them)
    atomic_idx: [[u32; 96]; MAX_THREADS],
    atomic_n: [usize; MAX_THREADS],
}
struct Session {
    turn: AtomicU32,
    n: usize,
    done: [AtomicBool; MAX_THREADS],
    inner: UnsafeCell<Inner>, // touched by the baton holder only
}
unsafe impl Sync for Session {}

thread_local! {
    static PART: Cell<*const Session> = const { Cell::new(std::ptr::null()) };
    static MY_ID: Cell<u32> = const { Cell::new(0) };
    static EVENTS: Cell<u64> = const { Cell::new(0) };
    static IN_HOOK: Cell<bool> = const { Cell::new(false) };
    static IN_ALLOC: Cell<bool> = const { Cell::new(false) };
    static NO_PREEMPT: Cell<bool> = const { Cell::new(false) };
    static STEPPING: Cell<bool> = const { Cell::new(false) };
    static STEP_LEFT: Cell<i64> = const { Cell::new(0) };
    /// preemptions of this thread still to come, in reverse order (the next one is last)
    static PREEMPTS: RefCell<Vec<(u64, u32)>> = const { RefCell::new(Vec::new()) };
    static NEXT_EVENT: Cell<u64> = const { Cell::new(u64::MAX) };
    static NEXT_STEPS: Cell<u32> = const { Cell::new(0) };
    /// address of the breakpoint this thread has lifted for one instruction (atomics.rs), 0 = none
    static REARM: Cell<usize> = const { Cell::new(0) };
}

#[inline(always)]
unsafe fn raw_futex(addr: *const AtomicU32, op: i64, val: u32) -> i64 {
    let ret: i64;
    asm!(
        "syscall",
        inlateout("rax") SYS_FUTEX => ret,
        in("rdi") addr, in("rsi") op, in("rdx") val as i64,
        in("r10") 0i64, in("r8") 0i64, in("r9") 0i64,
        lateout("rcx") _, lateout("r11") _,
        options(nostack)
    );
    ret
}
#[inline(never)]
fn set_trap_flag() {
    unsafe { asm!("pushfq", "or qword ptr [rsp], 0x100", "popfq") }
}
#[inline(never)]
fn clear_trap_flag() {
    unsafe { asm!("pushfq", "and qword ptr [rsp], -257", "popfq") }
}

fn wait_turn(s: &Session, me: u32) {
    loop {
        let t = s.turn.load(Ordering::Acquire);
        if t == me {
            return;
        }
        unsafe {
            raw_futex(&s.turn, FUTEX_WAIT_PRIVATE, t);
        }
    }
}
fn hand_over(s: &Session, next: u32) {
    s.turn.store(next, Ordering::Release);
    unsafe {
        raw_futex(&s.turn, FUTEX_WAKE_PRIVATE, i32::MAX as u32);
    }
}

/// The holder gives the baton to another runnable thread (if there is one) and waits until it comes back.
fn yield_point(s: &Session, me: u32, lock_wait: bool) {
    let inner = unsafe { &mut *s.inner.get() };
    let mut cand = [0u32; MAX_THREADS];
    let mut k = 0;
    for i in 0..s.n {
        if i as u32 != me && !s.done[i].load(Ordering::Acquire) {
            cand[k] = i as u32;
            k += 1;
        }
    }
    if lock_wait {
        inner.lock_waits += 1;
    }
    if k == 0 {
        return;
    }
    let next = cand[inner.rng.below(k as u64) as usize];
    inner.switches += 1;
    inner.order_digest = (inner.order_digest ^ (next as u64 + 1)).wrapping_mul(0x100000001b3);
    hand_over(s, next);
    wait_turn(s, me);
}

fn load_next_preempt() {
    let _ = PREEMPTS.try_with(|p| {
        if let Ok(mut v) = p.try_borrow_mut() {
            match v.pop() {
                Some((e, st)) => {
                    let _ = NEXT_EVENT.try_with(|c| c.set(e));
                    let _ = NEXT_STEPS.try_with(|c| c.set(st));
                }
                None => {
                    let _ = NEXT_EVENT.try_with(|c| c.set(u64::MAX));
                }
            }
        }
    });
}

/// An event of the calling thread. `forced`: the thread cannot go on (it waits for a lock): it yields whatever the plan says.
#[inline]
pub fn on_event(forced: bool) {
    let Ok(p) = PART.try_with(|c| c.get()) else { return };
    if p.is_null() {
        return;
    }
    if IN_HOOK.try_with(|c| c.replace(true)).unwrap_or(true) {
        return;
    }
    let s = unsafe { &*p };
    let me = MY_ID.try_with(|c| c.get()).unwrap_or(0);
    let ev = EVENTS.try_with(|c| {
        let v = c.get() + 1;
        c.set(v);
        v
    })
    .unwrap_or(0);
    let no_preempt = NO_PREEMPT.try_with(|c| c.get()).unwrap_or(true);
    let stepping = STEPPING.try_with(|c| c.get()).unwrap_or(false);
    if forced {
        if stepping {
            clear_trap_flag();
            let _ = STEPPING.try_with(|c| c.set(false));
        }
        yield_point(s, me, true);
    } else if !no_preempt && !stepping && NEXT_EVENT.try_with(|c| c.get()).unwrap_or(u64::MAX) <= ev {
        let steps = NEXT_STEPS.try_with(|c| c.get()).unwrap_or(0);
        load_next_preempt();
        unsafe { (*s.inner.get()).preempts_fired += 1 };
        if steps == 0 {
            yield_point(s, me, false);
        } else {
            let _ = STEP_LEFT.try_with(|c| c.set(steps as i64));
            let _ = STEPPING.try_with(|c| c.set(true));
            let _ = IN_HOOK.try_with(|c| c.set(false));
            set_trap_flag();
            return;
        }
    }
    let _ = IN_HOOK.try_with(|c| c.set(false));
}

/// allocator bracket: no preemption while the thread is inside the system allocator (it may hold an arena lock that
/// glibc takes with an inline syscall the simulator does not see)
#[inline]
pub fn alloc_enter() {
    let _ = IN_ALLOC.try_with(|c| c.set(true));
}
#[inline]
pub fn alloc_exit() {
    let _ = IN_ALLOC.try_with(|c| c.set(false));
    on_event(false);
}
/// called by the process panic hook: unwinding takes loader locks the simulator does not see
pub fn panic_started() {
    let _ = NO_PREEMPT.try_with(|c| c.set(true));
    if STEPPING.try_with(|c| c.replace(false)).unwrap_or(false) {
        clear_trap_flag();
    }
}
pub fn is_participant() -> bool {
    PART.try_with(|c| !c.get().is_null()).unwrap_or(false)
}

const SIGTRAP: i32 = 5;
const SA_SIGINFO: u64 = 4;
const SA_RESTART: u64 = 0x1000_0000;
const REG_EFL: usize = 17;
const REG_RIP: usize = 16;
const TRAP_TRACE: i32 = 2;
extern "C" {
    fn sigaction(sig: i32, act: *const LibcSigAction, old: *mut LibcSigAction) -> i32;
}
/// glibc's `struct sigaction` on x86-64: handler, 128-byte mask, flags, restorer
#[repr(C)]
struct LibcSigAction {
    handler: usize,
    mask: [u64; 16],
    flags: i32,
    restorer: usize,
}

/// SIGTRAP: one instruction of a stepping window has executed.
extern "C" fn on_trap(_sig: i32, info: *mut core::ffi::c_void, ctx: *mut core::ffi::c_void) {
    // ucontext_t: uc_flags(8) uc_link(8) uc_stack(24) then mcontext gregs[23]
    let gregs = unsafe { (ctx as *mut u8).add(40) as *mut i64 };
    let clear = |g: *mut i64| unsafe { *g.add(REG_EFL) &= !0x100 };
    // siginfo_t: si_signo, si_errno, si_code
    let code = unsafe { *(info as *const i32).add(2) };
    if code != TRAP_TRACE {
        let rip = unsafe { *gregs.add(REG_RIP) } as usize;
        if let Some(bp) = crate::atomics::lookup(rip.wrapping_sub(1)) {
            return on_breakpoint(bp, gregs);
        }
    }
    // the instruction under a lifted breakpoint has executed: put the breakpoint back
    let lifted = REARM.try_with(|c| c.replace(0)).unwrap_or(0);
    if lifted != 0 {
        crate::atomics::rearm(lifted);
    }
    if !STEPPING.try_with(|c| c.get()).unwrap_or(false) {
        clear(gregs);
        return;
    }
    let left = STEP_LEFT
        .try_with(|c| {
            let v = c.get() - 1;
            c.set(v);
            v
        })
        .unwrap_or(0);
    let p = PART.try_with(|c| c.get()).unwrap_or(std::ptr::null());
    if p.is_null() {
        let _ = STEPPING.try_with(|c| c.set(false));
        clear(gregs);
        return;
    }
    let s = unsafe { &*p };
    unsafe { (*s.inner.get()).single_steps += 1 };
    if left > 0 {
        return;
    }
    let busy = IN_ALLOC.try_with(|c| c.get()).unwrap_or(true) || IN_HOOK.try_with(|c| c.get()).unwrap_or(true) || NO_PREEMPT.try_with(|c| c.get()).unwrap_or(true);
    if busy && left > -4000 {
        return; // not here: keep stepping until the thread is out of the allocator / hook
    }
    let _ = STEPPING.try_with(|c| c.set(false));
    clear(gregs);
    if !busy {
        let me = MY_ID.try_with(|c| c.get()).unwrap_or(0);
        let _ = IN_HOOK.try_with(|c| c.set(true));
        yield_point(s, me, false);
        let _ = IN_HOOK.try_with(|c| c.set(false));
    }
}

/// `int3` at an atomic instruction of the library (atomics.rs): an event of this thread BEFORE the instruction executes.
fn on_breakpoint(bp: &'static crate::atomics::Bp, gregs: *mut i64) {
    let resume = |tf: bool| unsafe {
        crate::atomics::restore(bp);
        *gregs.add(REG_RIP) = bp.addr as i64;
        if tf {
            *gregs.add(REG_EFL) |= 0x100;
        }
    };
    // a second trap at a breakpoint this thread has already lifted (another thread re-armed it in between): no new event
    if REARM.try_with(|c| c.get()).unwrap_or(0) == bp.addr {
        return resume(true);
    }
    let p = PART.try_with(|c| c.get()).unwrap_or(std::ptr::null());
    if !p.is_null() && !IN_HOOK.try_with(|c| c.replace(true)).unwrap_or(true) {
        let s = unsafe { &*p };
        let me = MY_ID.try_with(|c| c.get()).unwrap_or(0);
        let ev = EVENTS
            .try_with(|c| {
                let v = c.get() + 1;
                c.set(v);
                v
            })
            .unwrap_or(0);
        unsafe {
            let inner = &mut *s.inner.get();
            inner.atomic_events += 1;
            let (t, k) = (me as usize % MAX_THREADS, inner.atomic_n[me as usize % MAX_THREADS]);
            if k < 96 {
                inner.atomic_idx[t][k] = ev as u32;
                inner.atomic_n[t] = k + 1;
            }
        }
        let no_preempt = NO_PREEMPT.try_with(|c| c.get()).unwrap_or(true) || IN_ALLOC.try_with(|c| c.get()).unwrap_or(true);
        let stepping = STEPPING.try_with(|c| c.get()).unwrap_or(false);
        if !no_preempt && !stepping && NEXT_EVENT.try_with(|c| c.get()).unwrap_or(u64::MAX) <= ev {
            let steps = NEXT_STEPS.try_with(|c| c.get()).unwrap_or(0);
            load_next_preempt();
            unsafe { (*s.inner.get()).preempts_fired += 1 };
            if steps == 0 {
                yield_point(s, me, false);
            } else {
                let _ = STEP_LEFT.try_with(|c| c.set(steps as i64));
                let _ = STEPPING.try_with(|c| c.set(true));
            }
        }
        let _ = IN_HOOK.try_with(|c| c.set(false));
    }
    // lift the breakpoint for one instruction; without thread-locals (thread teardown) it stays lifted
    let can_rearm = REARM.try_with(|c| c.set(bp.addr)).is_ok();
    resume(can_rearm);
}

pub fn install_trap_handler() {
    static DONE: AtomicBool = AtomicBool::new(false);
    if DONE.swap(true, Ordering::SeqCst) {
        return;
    }
    let act = LibcSigAction { handler: on_trap as usize, mask: [0; 16], flags: (SA_SIGINFO | SA_RESTART) as i32, restorer: 0 };
    unsafe {
        sigaction(SIGTRAP, &act, std::ptr::null_mut());
    }
}

/// `syscall(SYS_futex, ..)` made by a session thread. Some(ret) = handled here.
pub fn futex_hook(a1: i64, op: i64, val: i64) -> Option<i64> {
    if !is_participant() {
        return None;
    }
    let cmd = op & 127;
    if cmd == 0 || cmd == 9 {
        // FUTEX_WAIT / FUTEX_WAIT_BITSET: the kernel would sleep only while *addr == val
        let cur = unsafe { (*(a1 as *const AtomicU32)).load(Ordering::SeqCst) };
        if cur != val as u32 {
            return Some(-11); // EAGAIN
        }
        on_event(true);
        return Some(0); // "woken" — callers re-check their state, as after any spurious wake-up
    }
    None
}

static STAT_SESSIONS: AtomicU64 = AtomicU64::new(0);
pub fn sessions_run() -> u64 {
    STAT_SESSIONS.load(Ordering::Relaxed)
}

fn run_calls(calls: &[Call], outs: &mut Vec<Out>, entropy: Xo) {
    seams::set_entropy(Some(entropy));
    for c in calls {
        seams::set_clock_ns(c.clock);
        let _ = NO_PREEMPT.try_with(|f| f.set(false));
        on_event(false); // call boundary
        let refs: Vec<&[u8]> = c.args.iter().map(|a| a.as_slice()).collect();
        outs.push(c.lib.call_routed(c.g, c.op, &refs, c.route));
    }
    seams::set_clock_ns(None);
    seams::set_entropy(None);
}

/// Run one session under the simulator's scheduler.
pub fn run_controlled(threads: &[Vec<Call>], seed: u64, preempts: &[Preempt]) -> SessionOut {
    run_controlled_from(threads, seed, preempts, None)
}
/// ... with the thread that gets the baton first given by the caller (None: drawn from the seed)
pub fn run_controlled_from(threads: &[Vec<Call>], seed: u64, preempts: &[Preempt], starts: Option<usize>) -> SessionOut {
    install_trap_handler();
    crate::atomics::arm();
    let n = threads.len().min(MAX_THREADS);
    STAT_SESSIONS.fetch_add(1, Ordering::Relaxed);
    let session = Session {
        turn: AtomicU32::new(NOBODY),
        n,
        done: [const { AtomicBool::new(false) }; MAX_THREADS],
        inner: UnsafeCell::new(Inner { rng: Xo::derive(seed, &[0x5C4ED]), order_digest: 0xcbf29ce484222325, switches: 0, lock_waits: 0, single_steps: 0, preempts_fired: 0, atomic_events: 0, atomic_idx: [[0; 96]; MAX_THREADS], atomic_n: [0; MAX_THREADS] }),
    };
    let first = match starts {
        Some(t) if t < n => t as u32,
        _ => Xo::derive(seed, &[0xF125]).below(n as u64) as u32,
    };
    let mut outs: Vec<Vec<Out>> = (0..n).map(|i| Vec::with_capacity(threads[i].len())).collect();
    let mut events = vec![0u64; n];
    let slot = crate::rec::worker_slot();
    std::thread::scope(|sc| {
        let mut hs = vec![];
        for (i, (calls, out)) in threads.iter().take(n).zip(outs.iter_mut()).enumerate() {
            let s = &session;
            let mut mine: Vec<(u64, u32)> = preempts.iter().filter(|p| p.thread == i).map(|p| (p.event, p.steps)).collect();
            mine.sort();
            mine.reverse();
            hs.push(
                std::thread::Builder::new()
                    .name("caller".into())
                    .stack_size(8 << 20)
                    .spawn_scoped(sc, move || {
                        let _ = std::collections::hash_map::RandomState::new();
                        crate::rec::set_worker_slot(slot);
                        MY_ID.with(|c| c.set(i as u32));
                        EVENTS.with(|c| c.set(0));
                        PREEMPTS.with(|p| *p.borrow_mut() = mine);
                        load_next_preempt();
                        wait_turn(s, i as u32);
                        PART.with(|c| c.set(s as *const Session));
                        run_calls(calls, out, Xo::derive(seed, &[0xE27, i as u64]));
                        // leave the session: no more events, hand the baton to somebody who is not done
                        PART.with(|c| c.set(std::ptr::null()));
                        if STEPPING.with(|c| c.replace(false)) {
                            clear_trap_flag();
                        }
                        s.done[i].store(true, Ordering::Release);
                        let next = (0..s.n).find(|j| !s.done[*j].load(Ordering::Acquire)).map(|j| j as u32).unwrap_or(NOBODY);
                        let ev = EVENTS.with(|c| c.get());
                        hand_over(s, next);
                        ev
                    })
                    .expect("spawn caller thread"),
            );
        }
        hand_over(&session, first);
        for (i, h) in hs.into_iter().enumerate() {
            events[i] = h.join().unwrap_or(0);
        }
    });
    let inner = session.inner.into_inner();
    SessionOut { outs, events, switches: inner.switches, lock_waits: inner.lock_waits, single_steps: inner.single_steps, order_digest: inner.order_digest, preempts_fired: inner.preempts_fired, atomic_events: inner.atomic_events, atomic_at: (0..n).map(|t| inner.atomic_idx[t][..inner.atomic_n[t]].iter().map(|e| *e as u64).collect()).collect() }
}

/// The same caller threads released from a barrier and interleaved by the operating system; every thread runs its
/// call list `reps` times. Not replayable (said so in the evidence); the oracles applied do not depend on the interleaving.
pub fn run_free(threads: &[Vec<Call>], seed: u64, reps: usize) -> Vec<Vec<Out>> {
    let n = threads.len();
    let barrier = std::sync::Barrier::new(n);
    let slot = crate::rec::worker_slot();
    let mut outs: Vec<Vec<Out>> = (0..n).map(|i| Vec::with_capacity(threads[i].len() * reps)).collect();
    std::thread::scope(|sc| {
        for (i, (calls, out)) in threads.iter().zip(outs.iter_mut()).enumerate() {
            let b = &barrier;
            sc.spawn(move || {
                let _ = std::collections::hash_map::RandomState::new();
                crate::rec::set_worker_slot(slot);
                b.wait();
                for r in 0..reps {
                    run_calls(calls, out, Xo::derive(seed, &[0xF4EE, i as u64, r as u64]));
                }
            });
        }
    });
    outs
}

// ------------------------------------------------------------------------------------------------------------------
// Calls made while the calling thread is being torn down: a worker that flushes its pending work from the destructor of
// one of ITS thread-locals. Whatever per-thread state the library keeps may already be gone by then (or not yet, depending
// on which thread-local was registered first), and the library must still give the sequential answer.
// ------------------------------------------------------------------------------------------------------------------
struct AtExit(Option<Box<dyn FnOnce() + Send>>);
impl Drop for AtExit {
    fn drop(&mut self) {
        if let Some(f) = self.0.take() {
            f();
        }
    }
}
thread_local! {
    static AT_EXIT_EARLY: RefCell<AtExit> = const { RefCell::new(AtExit(None)) };
    static AT_EXIT_LATE: RefCell<AtExit> = const { RefCell::new(AtExit(None)) };
}

/// One caller thread runs `calls[..k]` normally and `calls[k..]` from the destructor of a thread-local of its own that
/// was registered before (`early`) or after the thread's first library call. Returns the results in call order
/// (None for a call whose result never arrived within the time allowed: the destructor did not run or hung).
pub fn run_at_thread_exit(calls: Vec<Call>, k: usize, early: bool, seed: u64) -> Vec<Option<Out>> {
    let n = calls.len();
    let k = k.min(n);
    let (tx, rx) = std::sync::mpsc::channel::<(usize, Out)>();
    let slot = crate::rec::worker_slot();
    let h = std::thread::Builder::new().name("caller-exit".into()).stack_size(8 << 20).spawn(move || {
        let _ = std::collections::hash_map::RandomState::new();
        crate::rec::set_worker_slot(slot);
        if early {
            AT_EXIT_EARLY.with(|c| c.borrow_mut().0 = None); // registers the destructor now, before any library call
        }
        seams::set_entropy(Some(Xo::derive(seed, &[0xE817])));
        let mut calls = calls;
        let tail = calls.split_off(k);
        for (i, c) in calls.iter().enumerate() {
            seams::set_clock_ns(c.clock);
            let refs: Vec<&[u8]> = c.args.iter().map(|a| a.as_slice()).collect();
            let _ = tx.send((i, c.lib.call_routed(c.g, c.op, &refs, c.route)));
        }
        let tx2 = tx.clone();
        let at_exit: Box<dyn FnOnce() + Send> = Box::new(move || {
            for (j, c) in tail.iter().enumerate() {
                seams::set_clock_ns(c.clock);
                let refs: Vec<&[u8]> = c.args.iter().map(|a| a.as_slice()).collect();
                let _ = tx2.send((k + j, c.lib.call_routed(c.g, c.op, &refs, c.route)));
            }
            seams::set_clock_ns(None);
            seams::set_entropy(None);
        });
        if early {
            AT_EXIT_EARLY.with(|c| c.borrow_mut().0 = Some(at_exit));
        } else {
            AT_EXIT_LATE.with(|c| c.borrow_mut().0 = Some(at_exit));
        }
    });
    drop(h); // thread-local destructors may still be running when a join returns: the channel is the completion signal
    let mut outs: Vec<Option<Out>> = (0..n).map(|_| None).collect();
    let deadline = std::time::Duration::from_secs(60);
    for _ in 0..n {
        match rx.recv_timeout(deadline) {
            Ok((i, o)) => outs[i] = Some(o),
            Err(_) => break,
        }
    }
    outs
}
