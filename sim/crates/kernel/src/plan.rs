//! One seed → one plan → one execution. A plan is explicit data (scenario, configuration,
//! workload steps, fault script); execution is a pure function of (plan, code under test).
//! Replay files are plans plus the violation they are expected to reproduce.

use serde::{Deserialize, Serialize};
use std::collections::BTreeMap;

#[derive(Clone, Debug, Default, PartialEq, Eq, Serialize, Deserialize)]
pub struct Step {
    /// step kind (interpreted by the scenario)
    pub k: String,
    #[serde(default, skip_serializing_if = "Vec::is_empty")]
    pub a: Vec<i64>,
    /// hex byte strings
    #[serde(default, skip_serializing_if = "Vec::is_empty")]
    pub d: Vec<String>,
}
impl Step {
    pub fn new(k: &str, a: &[i64]) -> Step {
        Step { k: k.to_string(), a: a.to_vec(), d: vec![] }
    }
    pub fn with_data(k: &str, a: &[i64], d: &[&[u8]]) -> Step {
        Step { k: k.to_string(), a: a.to_vec(), d: d.iter().map(|x| hex(x)).collect() }
    }
    pub fn arg(&self, i: usize) -> i64 {
        self.a.get(i).copied().unwrap_or(0)
    }
    pub fn data(&self, i: usize) -> Vec<u8> {
        self.d.get(i).map(|s| unhex(s)).unwrap_or_default()
    }
}

#[derive(Clone, Debug, Default, PartialEq, Eq, Serialize, Deserialize)]
pub struct Plan {
    pub scenario: String,
    pub property: String,
    pub seed: u64,
    /// run class, e.g. "clean" / "faulty" / "byzantine"
    pub class: String,
    pub cfg: BTreeMap<String, i64>,
    pub steps: Vec<Step>,
    /// explicit fault script (same shape as steps; interpreted by the scenario)
    pub faults: Vec<Step>,
}
impl Plan {
    pub fn get(&self, k: &str) -> i64 {
        self.cfg.get(k).copied().unwrap_or(0)
    }
    pub fn set(&mut self, k: &str, v: i64) {
        self.cfg.insert(k.to_string(), v);
    }
}

#[derive(Clone, Debug, PartialEq, Eq, Serialize, Deserialize)]
pub struct Violation {
    pub property: String,
    pub invariant: String,
    pub detail: String,
    /// index of the step (or event) at which the oracle fired
    pub at: u64,
}
impl Violation {
    pub fn class(&self) -> (String, String) {
        (self.property.clone(), self.invariant.clone())
    }
}

#[derive(Clone, Debug, Serialize, Deserialize)]
pub struct ReplayFile {
    pub plan: Plan,
    pub expect: Violation,
    pub profile: String,
    pub note: String,
    /// Plans executed before `plan` on the same thread of the same process. Empty unless the violation
    /// depends on state the library keeps between calls (a cache, a lazily initialised table, a counter):
    /// then these earlier runs are what puts that state in place, and replay executes them first.
    #[serde(default, skip_serializing_if = "Vec::is_empty")]
    pub prelude: Vec<Plan>,
    /// "fresh-process" (reproduced by a child process before it was reported) or "batch-context" (could not
    /// be reproduced outside the batch it was found in; see note)
    #[serde(default)]
    pub reproducibility: String,
}

pub fn hex(b: &[u8]) -> String {
    let mut s = String::with_capacity(b.len() * 2);
    for x in b {
        s.push_str(&format!("{:02x}", x));
    }
    s
}
pub fn unhex(s: &str) -> Vec<u8> {
    let b = s.as_bytes();
    let mut out = Vec::with_capacity(b.len() / 2);
    let v = |c: u8| -> u8 {
        match c {
            b'0'..=b'9' => c - b'0',
            b'a'..=b'f' => c - b'a' + 10,
            b'A'..=b'F' => c - b'A' + 10,
            _ => 0,
        }
    };
    let mut i = 0;
    while i + 1 < b.len() {
        out.push(v(b[i]) << 4 | v(b[i + 1]));
        i += 2;
    }
    out
}

/// Delta-debugging minimisation of a failing plan. `fails(plan)` must return true iff the
/// SAME (property, invariant) still fails. `cfg_floor` gives the smallest legal value of each
/// configuration key that may be shrunk (keys absent from it are left alone).
pub fn minimise(
    plan: &Plan,
    fails: &mut dyn FnMut(&Plan) -> bool,
    cfg_floor: &BTreeMap<String, i64>,
    budget: usize,
) -> (Plan, usize) {
    let mut best = plan.clone();
    let mut tries = 0usize;
    let mut attempt = |cand: &Plan, best: &mut Plan, tries: &mut usize| -> bool {
        if *tries >= budget {
            return false;
        }
        *tries += 1;
        if fails(cand) {
            *best = cand.clone();
            true
        } else {
            false
        }
    };
    // 1. fault script: ddmin
    for which in 0..2 {
        let mut chunk = {
            let l = if which == 0 { best.faults.len() } else { best.steps.len() };
            (l + 1) / 2
        };
        while chunk >= 1 {
            let mut i = 0;
            loop {
                let l = if which == 0 { best.faults.len() } else { best.steps.len() };
                if i >= l {
                    break;
                }
                let mut cand = best.clone();
                let v = if which == 0 { &mut cand.faults } else { &mut cand.steps };
                let end = (i + chunk).min(v.len());
                v.drain(i..end);
                if !attempt(&cand, &mut best, &mut tries) {
                    i += chunk;
                }
                if tries >= budget {
                    break;
                }
            }
            if chunk == 1 || tries >= budget {
                break;
            }
            chunk /= 2;
        }
    }
    // 2. configuration towards the floor (binary descent)
    let keys: Vec<String> = best.cfg.keys().cloned().collect();
    for k in keys {
        let Some(&floor) = cfg_floor.get(&k) else { continue };
        loop {
            let cur = best.get(&k);
            if cur <= floor || tries >= budget {
                break;
            }
            let mut cand = best.clone();
            cand.set(&k, floor);
            if attempt(&cand, &mut best, &mut tries) {
                break;
            }
            let mid = floor + (cur - floor) / 2;
            if mid == cur {
                break;
            }
            let mut cand = best.clone();
            cand.set(&k, mid);
            if !attempt(&cand, &mut best, &mut tries) {
                let mut cand = best.clone();
                cand.set(&k, cur - 1);
                if !attempt(&cand, &mut best, &mut tries) {
                    break;
                }
            }
        }
    }
    // 3. step / fault integer arguments towards zero
    for which in 0..2 {
        let n = if which == 0 { best.faults.len() } else { best.steps.len() };
        for i in 0..n {
            let na = if which == 0 { best.faults[i].a.len() } else { best.steps[i].a.len() };
            for j in 0..na {
                let cur = if which == 0 { best.faults[i].a[j] } else { best.steps[i].a[j] };
                if cur == 0 || tries >= budget {
                    continue;
                }
                for target in [0, cur / 2] {
                    if target == cur {
                        continue;
                    }
                    let mut cand = best.clone();
                    if which == 0 {
                        cand.faults[i].a[j] = target;
                    } else {
                        cand.steps[i].a[j] = target;
                    }
                    if attempt(&cand, &mut best, &mut tries) {
                        break;
                    }
                }
            }
        }
    }
    (best, tries)
}
