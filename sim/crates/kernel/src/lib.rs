pub mod exec;
pub mod plan;
pub mod rec;
pub mod seams;
pub mod sim;
pub mod conc;
pub mod atomics;
