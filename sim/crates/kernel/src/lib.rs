pub mod seams;
