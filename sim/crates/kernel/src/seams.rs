//! The two seams through which blsful touches the outside world, taken at the
//! libc boundary inside the simulator binary (no change to /repo):
//!
//! * wall clock  — `clock_gettime(CLOCK_REALTIME)` answered from a thread-local
//!   simulated clock when one is installed;
//! * entropy     — `syscall(SYS_getrandom, ..)` (what the `getrandom` crate uses)
//!   and the libc `getrandom` symbol (what std uses for hash-map seeds) answered
//!   from a thread-local seeded stream when one is installed.
//!
//! Everything else passes through unchanged (raw `syscall` instruction), so
//! futexes, mmap etc. are unaffected. With no clock / stream installed the real
//! sources are used ("seam off").

use core::arch::asm;
use std::cell::{Cell, RefCell};

const SYS_CLOCK_GETTIME: i64 = 228;
const SYS_GETRANDOM: i64 = 318;
const SYS_FUTEX: i64 = 202;
const SYS_SCHED_YIELD: i64 = 24;
const SYS_NANOSLEEP: i64 = 35;
const SYS_CLOCK_NANOSLEEP: i64 = 230;
const CLOCK_REALTIME: i32 = 0;
const CLOCK_MONOTONIC: i32 = 1;
const CLOCK_MONOTONIC_RAW: i32 = 4;
const CLOCK_REALTIME_COARSE: i32 = 5;
const CLOCK_MONOTONIC_COARSE: i32 = 6;
const CLOCK_BOOTTIME: i32 = 7;

#[repr(C)]
pub struct Timespec {
    pub tv_sec: i64,
    pub tv_nsec: i64,
}

extern "C" {
    fn __errno_location() -> *mut i32;
}

/// splitmix64 / xoshiro256** — the only PRNG in the simulator.
#[derive(Clone, Debug)]
pub struct Xo {
    s: [u64; 4],
}

pub fn splitmix(x: &mut u64) -> u64 {
    *x = x.wrapping_add(0x9E3779B97F4A7C15);
    let mut z = *x;
    z = (z ^ (z >> 30)).wrapping_mul(0xBF58476D1CE4E5B9);
    z = (z ^ (z >> 27)).wrapping_mul(0x94D049BB133111EB);
    z ^ (z >> 31)
}

impl Xo {
    pub fn new(seed: u64) -> Self {
        let mut x = seed;
        let s = [
            splitmix(&mut x),
            splitmix(&mut x),
            splitmix(&mut x),
            splitmix(&mut x),
        ];
        Xo { s }
    }
    /// derive an independent stream from a seed and a list of stable labels
    pub fn derive(seed: u64, labels: &[u64]) -> Self {
        let mut x = seed ^ 0xA5A5_5A5A_1234_5678;
        let mut acc = splitmix(&mut x);
        for l in labels {
            let mut y = acc ^ l.wrapping_mul(0xD6E8FEB86659FD93);
            acc = splitmix(&mut y);
        }
        Xo::new(acc)
    }
    pub fn next(&mut self) -> u64 {
        let r = self.s[1].wrapping_mul(5).rotate_left(7).wrapping_mul(9);
        let t = self.s[1] << 17;
        self.s[2] ^= self.s[0];
        self.s[3] ^= self.s[1];
        self.s[1] ^= self.s[2];
        self.s[0] ^= self.s[3];
        self.s[2] ^= t;
        self.s[3] = self.s[3].rotate_left(45);
        r
    }
    pub fn below(&mut self, n: u64) -> u64 {
        if n == 0 {
            0
        } else {
            self.next() % n
        }
    }
    pub fn range(&mut self, lo: u64, hi_incl: u64) -> u64 {
        lo + self.below(hi_incl - lo + 1)
    }
    pub fn chance(&mut self, num: u64, den: u64) -> bool {
        self.below(den) < num
    }
    pub fn pick<'a, T>(&mut self, v: &'a [T]) -> &'a T {
        &v[self.below(v.len() as u64) as usize]
    }
    pub fn fill(&mut self, out: &mut [u8]) {
        for ch in out.chunks_mut(8) {
            let b = self.next().to_le_bytes();
            ch.copy_from_slice(&b[..ch.len()]);
        }
    }
    pub fn bytes(&mut self, n: usize) -> Vec<u8> {
        let mut v = vec![0u8; n];
        self.fill(&mut v);
        v
    }
    pub fn shuffle<T>(&mut self, v: &mut [T]) {
        for i in (1..v.len()).rev() {
            let j = self.below(i as u64 + 1) as usize;
            v.swap(i, j);
        }
    }
}

thread_local! {
    static FAKE_CLOCK_NS: Cell<Option<i128>> = const { Cell::new(None) };
    /// simulated monotonic clock (ns); only consulted while a simulated wall clock is installed
    static FAKE_MONO_NS: Cell<u64> = const { Cell::new(0) };
    /// per-thread base so that monotonic time keeps increasing from one run to the next on a worker thread
    static MONO_BASE_NS: Cell<u64> = const { Cell::new(1_000_000_000) };
    static ENTROPY: RefCell<Option<Xo>> = const { RefCell::new(None) };
    static ENTROPY_BYTES: Cell<u64> = const { Cell::new(0) };
    static ENTROPY_CALLS: Cell<u64> = const { Cell::new(0) };
    static CLOCK_READS: Cell<u64> = const { Cell::new(0) };
}

/// Install (Some) or remove (None) the simulated wall clock of this thread, in ns since the epoch.
pub fn set_clock_ns(ns: Option<i128>) {
    FAKE_CLOCK_NS.with(|c| c.set(ns));
    WORK_TICKS_NS.with(|c| c.set(0));
}

thread_local! {
    /// "time flows with work": ns added to the simulated wall clock per heap allocation made inside a library call
    /// proper (0 = the clock stands still during a call). Allocation counts are a deterministic measure of progress
    /// through a computation, so a clock read at the START of a call and one AFTER the work see different times.
    static WORK_TICK_NS: Cell<u64> = const { Cell::new(0) };
    static WORK_TICKS_NS: Cell<u64> = const { Cell::new(0) };
}
pub fn set_work_tick_ns(ns: u64) {
    WORK_TICK_NS.with(|c| c.set(ns));
    WORK_TICKS_NS.with(|c| c.set(0));
}
pub fn work_tick_ns() -> u64 {
    WORK_TICK_NS.with(|c| c.get())
}
/// called by the binary's global allocator on every allocation
#[inline]
pub fn on_alloc() {
    if let Ok(t) = WORK_TICK_NS.try_with(|c| c.get()) {
        if t != 0 && simtypes::working() {
            let _ = WORK_TICKS_NS.try_with(|c| c.set(c.get().saturating_add(t)));
        }
    }
}
/// Monotonic time seen by code under simulation = per-thread base + simulated time of the current run.
pub fn set_mono_ns(sim_now_ns: u64) {
    let base = MONO_BASE_NS.with(|c| c.get());
    FAKE_MONO_NS.with(|c| c.set(base.saturating_add(sim_now_ns)));
}
pub fn mono_raw() -> u64 {
    FAKE_MONO_NS.with(|c| c.get())
}
pub fn set_mono_raw(v: u64) {
    FAKE_MONO_NS.with(|c| c.set(v));
}
/// called between runs: later runs on this thread see a later monotonic clock
pub fn advance_mono_base(by_ns: u64) {
    MONO_BASE_NS.with(|c| c.set(c.get().saturating_add(by_ns)));
    set_mono_ns(0);
}
pub fn clock_ns() -> Option<i128> {
    FAKE_CLOCK_NS.with(|c| c.get())
}
/// Install (Some) or remove (None) the simulated entropy device of this thread.
pub fn set_entropy(x: Option<Xo>) -> Option<Xo> {
    ENTROPY.with(|e| std::mem::replace(&mut *e.borrow_mut(), x))
}
pub fn entropy_bytes_served() -> u64 {
    ENTROPY_BYTES.with(|c| c.get())
}
pub fn entropy_calls() -> u64 {
    ENTROPY_CALLS.with(|c| c.get())
}
pub fn clock_reads() -> u64 {
    CLOCK_READS.with(|c| c.get())
}

#[inline(always)]
unsafe fn raw_syscall6(n: i64, a1: i64, a2: i64, a3: i64, a4: i64, a5: i64, a6: i64) -> i64 {
    let ret: i64;
    asm!(
        "syscall",
        inlateout("rax") n => ret,
        in("rdi") a1, in("rsi") a2, in("rdx") a3,
        in("r10") a4, in("r8") a5, in("r9") a6,
        lateout("rcx") _, lateout("r11") _,
        options(nostack)
    );
    ret
}

unsafe fn fix_errno(ret: i64) -> i64 {
    if ret < 0 && ret > -4096 {
        *__errno_location() = (-ret) as i32;
        -1
    } else {
        ret
    }
}

fn serve_entropy(buf: *mut u8, len: usize) -> bool {
    // try_with: never panic inside a libc replacement (TLS may be gone at thread exit)
    ENTROPY
        .try_with(|e| {
            if let Ok(mut g) = e.try_borrow_mut() {
                if let Some(x) = g.as_mut() {
                    let s = unsafe { std::slice::from_raw_parts_mut(buf, len) };
                    x.fill(s);
                    let _ = ENTROPY_BYTES.try_with(|c| c.set(c.get() + len as u64));
                    let _ = ENTROPY_CALLS.try_with(|c| c.set(c.get() + 1));
                    return true;
                }
            }
            false
        })
        .unwrap_or(false)
}

/// libc `syscall(2)` replacement. C-variadic in libc; on x86-64 SysV the variadic
/// integer arguments travel in the same registers as fixed ones, so reading six
/// register arguments is correct for every caller.
#[no_mangle]
pub unsafe extern "C" fn syscall(n: i64, a1: i64, a2: i64, a3: i64, a4: i64, a5: i64, a6: i64) -> i64 {
    if n == SYS_GETRANDOM && a1 != 0 && serve_entropy(a1 as *mut u8, a2 as usize) {
        return a2;
    }
    if n == SYS_FUTEX {
        // a caller thread of a scheduled session about to sleep on a lock: that is a scheduling decision (kernel::conc)
        if let Some(r) = crate::conc::futex_hook(a1, a2, a3) {
            return fix_errno(r);
        }
    }
    fix_errno(raw_syscall6(n, a1, a2, a3, a4, a5, a6))
}

/// libc `sched_yield(2)` replacement: for a caller thread of a scheduled session a yield is a scheduling decision
#[no_mangle]
pub unsafe extern "C" fn sched_yield() -> i32 {
    if crate::conc::is_participant() {
        crate::conc::on_event(true);
        return 0;
    }
    fix_errno(raw_syscall6(SYS_SCHED_YIELD, 0, 0, 0, 0, 0, 0)) as i32
}
/// libc `nanosleep(2)` / `clock_nanosleep(2)` replacements: a sleeping caller thread of a scheduled session gives the
/// baton away instead of stalling the one thread that runs
#[no_mangle]
pub unsafe extern "C" fn nanosleep(req: *const Timespec, rem: *mut Timespec) -> i32 {
    if crate::conc::is_participant() {
        crate::conc::on_event(true);
        return 0;
    }
    fix_errno(raw_syscall6(SYS_NANOSLEEP, req as i64, rem as i64, 0, 0, 0, 0)) as i32
}
#[no_mangle]
pub unsafe extern "C" fn clock_nanosleep(clk: i32, flags: i32, req: *const Timespec, rem: *mut Timespec) -> i32 {
    if crate::conc::is_participant() {
        crate::conc::on_event(true);
        return 0;
    }
    // returns the error number itself, not -1/errno
    let r = raw_syscall6(SYS_CLOCK_NANOSLEEP, clk as i64, flags as i64, req as i64, rem as i64, 0, 0);
    if r < 0 { (-r) as i32 } else { 0 }
}

/// libc `getrandom(3)` replacement (std's HashMap seeds come through here).
#[no_mangle]
pub unsafe extern "C" fn getrandom(buf: *mut u8, len: usize, flags: u32) -> isize {
    if !buf.is_null() && serve_entropy(buf, len) {
        return len as isize;
    }
    fix_errno(raw_syscall6(SYS_GETRANDOM, buf as i64, len as i64, flags as i64, 0, 0, 0)) as isize
}

/// libc `clock_gettime(3)` replacement.
#[no_mangle]
pub unsafe extern "C" fn clock_gettime(clk: i32, ts: *mut Timespec) -> i32 {
    if !ts.is_null() {
        if let Ok(Some(ns)) = FAKE_CLOCK_NS.try_with(|c| c.get()) {
            if clk == CLOCK_REALTIME || clk == CLOCK_REALTIME_COARSE {
                let _ = CLOCK_READS.try_with(|c| c.set(c.get() + 1));
                let ns = ns + WORK_TICKS_NS.try_with(|c| c.get()).unwrap_or(0) as i128;
                let sec = ns.div_euclid(1_000_000_000);
                let nsec = ns.rem_euclid(1_000_000_000);
                (*ts).tv_sec = sec as i64;
                (*ts).tv_nsec = nsec as i64;
                return 0;
            }
            if clk == CLOCK_MONOTONIC || clk == CLOCK_MONOTONIC_RAW || clk == CLOCK_MONOTONIC_COARSE || clk == CLOCK_BOOTTIME {
                // a library that starts measuring elapsed time with `Instant` reads simulated time too
                if let Ok(m) = FAKE_MONO_NS.try_with(|c| c.get()) {
                    (*ts).tv_sec = (m / 1_000_000_000) as i64;
                    (*ts).tv_nsec = (m % 1_000_000_000) as i64;
                    return 0;
                }
            }
        }
    }
    fix_errno(raw_syscall6(SYS_CLOCK_GETTIME, clk as i64, ts as i64, 0, 0, 0, 0)) as i32
}

#[repr(C)]
pub struct Timeval {
    pub tv_sec: i64,
    pub tv_usec: i64,
}
/// libc `gettimeofday(2)` replacement (same simulated wall clock)
#[no_mangle]
pub unsafe extern "C" fn gettimeofday(tv: *mut Timeval, _tz: *mut core::ffi::c_void) -> i32 {
    if !tv.is_null() {
        let mut ts = Timespec { tv_sec: 0, tv_nsec: 0 };
        let r = clock_gettime(CLOCK_REALTIME, &mut ts);
        if r != 0 {
            return r;
        }
        (*tv).tv_sec = ts.tv_sec;
        (*tv).tv_usec = ts.tv_nsec / 1000;
    }
    0
}
/// libc `time(2)` replacement
#[no_mangle]
pub unsafe extern "C" fn time(out: *mut i64) -> i64 {
    let mut ts = Timespec { tv_sec: 0, tv_nsec: 0 };
    if clock_gettime(CLOCK_REALTIME, &mut ts) != 0 {
        return -1;
    }
    if !out.is_null() {
        *out = ts.tv_sec;
    }
    ts.tv_sec
}

/// Forces this object file into the final link and checks the seams work.
/// Returns (clock_ok, entropy_ok).
pub fn self_test() -> (bool, bool) {
    use std::time::{SystemTime, UNIX_EPOCH};
    let saved_clock = clock_ns();
    let saved_ent = set_entropy(None);
    // clock
    let probe: i128 = 1_234_567_890_123_456_789;
    set_clock_ns(Some(probe));
    let seen = SystemTime::now().duration_since(UNIX_EPOCH).map(|d| d.as_nanos() as i128).unwrap_or(-1);
    set_clock_ns(None);
    let real = SystemTime::now().duration_since(UNIX_EPOCH).map(|d| d.as_nanos() as i128).unwrap_or(-1);
    // monotonic clock follows simulated time while a simulated wall clock is installed, real time otherwise
    set_clock_ns(Some(probe));
    set_mono_ns(5_000_000_000);
    let m1 = std::time::Instant::now();
    set_mono_ns(8_500_000_000);
    let m2 = std::time::Instant::now();
    set_clock_ns(None);
    let mono_ok = m2.duration_since(m1) == std::time::Duration::from_millis(3500);
    let clock_ok = seen == probe && real != probe && mono_ok;
    // entropy (through libc::syscall path as getrandom crate does)
    let draw = |seed: Option<u64>| -> [u8; 32] {
        set_entropy(seed.map(Xo::new));
        let mut b = [0u8; 32];
        let r = unsafe { syscall(SYS_GETRANDOM, b.as_mut_ptr() as i64, 32, 0, 0, 0, 0) };
        assert_eq!(r, 32);
        set_entropy(None);
        b
    };
    let a = draw(Some(7));
    let b = draw(Some(7));
    let c = draw(Some(8));
    let d = draw(None);
    let e = draw(None);
    let entropy_ok = a == b && a != c && d != e && d != a;
    set_clock_ns(saved_clock);
    set_entropy(saved_ent);
    (clock_ok, entropy_ok)
}
