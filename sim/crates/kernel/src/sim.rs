//! Discrete-event simulator: one run = one OS thread, a priority queue ordered by
//! (simulated time, sequence number), per-node wall clocks / entropy devices / disks, and a
//! transport in which every delivery, delay, loss, duplicate, corruption, partition, crash and
//! clock step is decided by the plan (explicit fault script) and by hash-derived delays.
//! Nothing here sleeps, opens a socket or a file, or reads a real clock.

use crate::seams::{self, Xo};
use std::cmp::Reverse;
use std::collections::{BTreeMap, BinaryHeap};

pub type NodeId = usize;

/// simulated epoch of t = 0: 2024-01-01T00:00:00Z in ns
pub const EPOCH_NS: i128 = 1_704_067_200_000_000_000;
pub const MS: u64 = 1_000_000;
pub const SEC: u64 = 1_000_000_000;

#[derive(Clone, Debug, PartialEq, Eq)]
pub struct Msg {
    pub kind: u32,
    /// request / correlation id chosen by the sender
    pub corr: u64,
    pub parts: Vec<Vec<u8>>,
}

#[derive(Clone, Debug)]
pub enum Input {
    Start,
    Restarted,
    Msg { src: NodeId, msg: Msg },
    Timer { tag: u64 },
}

#[derive(Clone, Debug, PartialEq, Eq)]
enum Ev {
    Deliver { src: NodeId, dst: NodeId, msg: Msg, flags: u8 },
    Timer { node: NodeId, tag: u64, inc: u32 },
    Crash { node: NodeId, torn: u8 },
    Restart { node: NodeId },
    ClockStep { node: NodeId, delta_ns: i128 },
    ClockFreeze { node: NodeId, on: bool },
    Partition { mask: u64 },
    Heal,
    Stall { node: NodeId, for_ns: u64 },
    Start { node: NodeId },
}

#[derive(Clone, Debug, PartialEq, Eq)]
struct QItem {
    at: u64,
    seq: u64,
    ev: Ev,
}
impl PartialOrd for QItem {
    fn partial_cmp(&self, o: &Self) -> Option<std::cmp::Ordering> {
        Some(self.cmp(o))
    }
}
impl Ord for QItem {
    fn cmp(&self, o: &Self) -> std::cmp::Ordering {
        (self.at, self.seq).cmp(&(o.at, o.seq))
    }
}

/// A node's disk: writes are volatile until `sync`; a crash keeps only durable bytes
/// (plus, under the `torn` fault, a prefix of the newest un-synced write).
#[derive(Clone, Debug, Default)]
pub struct Disk {
    durable: BTreeMap<String, Vec<u8>>,
    pending: Vec<(String, Vec<u8>)>,
}
impl Disk {
    pub fn write(&mut self, key: &str, data: &[u8]) {
        self.pending.push((key.to_string(), data.to_vec()));
    }
    pub fn sync(&mut self) {
        for (k, v) in self.pending.drain(..) {
            self.durable.insert(k, v);
        }
    }
    /// read-your-writes while the node is up
    pub fn read(&self, key: &str) -> Option<Vec<u8>> {
        for (k, v) in self.pending.iter().rev() {
            if k == key {
                return Some(v.clone());
            }
        }
        self.durable.get(key).cloned()
    }
    pub fn durable_put(&mut self, key: &str, data: &[u8]) {
        self.durable.insert(key.to_string(), data.to_vec());
    }
    pub fn durable_get(&self, key: &str) -> Option<&Vec<u8>> {
        self.durable.get(key)
    }
    pub fn durable_keys(&self) -> Vec<String> {
        self.durable.keys().cloned().collect()
    }
    pub fn has_pending(&self) -> bool {
        !self.pending.is_empty()
    }
}

#[derive(Clone, Debug)]
pub struct Node {
    pub up: bool,
    pub skew_ns: i128,
    pub frozen_at: Option<i128>,
    pub incarnation: u32,
    pub disk: Disk,
    pub entropy: Xo,
    pub stalled_until: u64,
}

/// One explicit transport fault, matched against the n-th message of a (kind, src, dst) flow.
#[derive(Clone, Debug, PartialEq, Eq)]
pub struct NetFault {
    pub kind: u32,
    pub src: i64, // -1 = any
    pub dst: i64, // -1 = any
    pub nth: u64,
    pub action: NetAction,
}
#[derive(Clone, Debug, PartialEq, Eq)]
pub enum NetAction {
    Drop,
    Dup,
    /// extra delay in ns
    Delay(u64),
    /// duplicate delivered after this long
    LateDup(u64),
    /// flip bit `bit` of part `part` (both modulo the actual sizes)
    BitFlip { part: usize, bit: usize },
    /// truncate part to `len` (modulo len+1)
    Truncate { part: usize, len: usize },
    /// append bytes
    Extend { part: usize, extra: Vec<u8> },
    /// replace part wholesale (Byzantine relay)
    Replace { part: usize, with: Vec<u8> },
}
impl NetAction {
    pub fn name(&self) -> &'static str {
        match self {
            NetAction::Drop => "drop",
            NetAction::Dup => "dup",
            NetAction::Delay(_) => "delay",
            NetAction::LateDup(_) => "late-dup",
            NetAction::BitFlip { .. } => "bitflip",
            NetAction::Truncate { .. } => "truncate",
            NetAction::Extend { .. } => "extend",
            NetAction::Replace { .. } => "replace",
        }
    }
}

#[derive(Clone, Debug, Default)]
pub struct Stats {
    pub faults: BTreeMap<&'static str, u64>,
    pub probes: BTreeMap<&'static str, u64>,
    pub events: u64,
    pub delivered: u64,
    pub lib_calls: u64,
}
impl Stats {
    pub fn fault(&mut self, k: &'static str) {
        *self.faults.entry(k).or_insert(0) += 1;
    }
    pub fn probe(&mut self, k: &'static str) {
        *self.probes.entry(k).or_insert(0) += 1;
    }
    pub fn merge(&mut self, o: &Stats) {
        for (k, v) in &o.faults {
            *self.faults.entry(k).or_insert(0) += v;
        }
        for (k, v) in &o.probes {
            *self.probes.entry(k).or_insert(0) += v;
        }
        self.events += o.events;
        self.delivered += o.delivered;
        self.lib_calls += o.lib_calls;
    }
}

pub struct Sim {
    pub seed: u64,
    pub now: u64,
    seq: u64,
    queue: BinaryHeap<Reverse<QItem>>,
    pub nodes: Vec<Node>,
    pub net_faults: Vec<NetFault>,
    flow_count: BTreeMap<(u32, NodeId, NodeId), u64>,
    partition_mask: Option<u64>,
    pub min_delay: u64,
    pub max_delay: u64,
    pub stats: Stats,
    /// digest of the ordered event sequence (kind, src, dst, fault flags): the "schedule"
    pub schedule_digest: u64,
    /// digest of everything incl. payload bytes: the "artefact log"
    pub artefact_digest: u64,
    pub last_fault_at: u64,
    pub trace: Vec<String>,
    pub trace_on: bool,
}

fn mix(h: u64, v: u64) -> u64 {
    let mut x = h ^ v.wrapping_mul(0x9E3779B97F4A7C15);
    x = (x ^ (x >> 32)).wrapping_mul(0xD6E8FEB86659FD93);
    x ^ (x >> 29)
}
pub fn digest_bytes(mut h: u64, b: &[u8]) -> u64 {
    for ch in b.chunks(8) {
        let mut a = [0u8; 8];
        a[..ch.len()].copy_from_slice(ch);
        h = mix(h, u64::from_le_bytes(a));
    }
    mix(h, b.len() as u64)
}

pub trait App {
    fn on_input(&mut self, sim: &mut Sim, node: NodeId, input: Input);
}

impl Sim {
    pub fn new(seed: u64, n_nodes: usize) -> Sim {
        let nodes = (0..n_nodes)
            .map(|i| Node {
                up: true,
                skew_ns: 0,
                frozen_at: None,
                incarnation: 0,
                disk: Disk::default(),
                entropy: Xo::derive(seed, &[0xE17, i as u64]),
                stalled_until: 0,
            })
            .collect();
        Sim {
            seed,
            now: 0,
            seq: 0,
            queue: BinaryHeap::new(),
            nodes,
            net_faults: vec![],
            flow_count: BTreeMap::new(),
            partition_mask: None,
            min_delay: MS,
            max_delay: 20 * MS,
            stats: Stats::default(),
            schedule_digest: 0x5EED,
            artefact_digest: 0xA27E,
            last_fault_at: 0,
            trace: vec![],
            trace_on: false,
        }
    }
    fn push(&mut self, at: u64, ev: Ev) {
        self.seq += 1;
        self.queue.push(Reverse(QItem { at, seq: self.seq, ev }));
    }
    /// local wall clock of a node, ns since the Unix epoch
    pub fn local_clock_ns(&self, node: NodeId) -> i128 {
        let n = &self.nodes[node];
        n.frozen_at.unwrap_or(EPOCH_NS + self.now as i128 + n.skew_ns)
    }
    pub fn start_all(&mut self) {
        for i in 0..self.nodes.len() {
            self.push(0, Ev::Start { node: i });
        }
    }
    pub fn timer(&mut self, node: NodeId, after_ns: u64, tag: u64) {
        let inc = self.nodes[node].incarnation;
        self.push(self.now + after_ns, Ev::Timer { node, tag, inc });
    }
    pub fn schedule_crash(&mut self, at: u64, node: NodeId, torn: u8) {
        self.push(at, Ev::Crash { node, torn });
    }
    pub fn schedule_restart(&mut self, at: u64, node: NodeId) {
        self.push(at, Ev::Restart { node });
    }
    pub fn schedule_clock_step(&mut self, at: u64, node: NodeId, delta_ns: i128) {
        self.push(at, Ev::ClockStep { node, delta_ns });
    }
    pub fn schedule_clock_freeze(&mut self, at: u64, node: NodeId, on: bool) {
        self.push(at, Ev::ClockFreeze { node, on });
    }
    pub fn schedule_partition(&mut self, at: u64, mask: u64) {
        self.push(at, Ev::Partition { mask });
    }
    pub fn schedule_heal(&mut self, at: u64) {
        self.push(at, Ev::Heal);
    }
    pub fn schedule_stall(&mut self, at: u64, node: NodeId, for_ns: u64) {
        self.push(at, Ev::Stall { node, for_ns });
    }
    fn note_fault(&mut self, k: &'static str) {
        self.stats.fault(k);
        self.last_fault_at = self.now;
    }

    /// The only way bytes move between nodes.
    pub fn send(&mut self, src: NodeId, dst: NodeId, msg: Msg) {
        let c = self.flow_count.entry((msg.kind, src, dst)).or_insert(0);
        let nth = *c;
        *c += 1;
        let mut r = Xo::derive(self.seed, &[0xDE1A, msg.kind as u64, src as u64, dst as u64, nth]);
        let span = self.max_delay - self.min_delay;
        let mut delay = self.min_delay + r.below(span + 1);
        let mut copies: Vec<(u64, Msg, u8)> = vec![];
        let mut dropped = false;
        let mut m = msg;
        let mut flags = 0u8;
        let applicable: Vec<NetAction> = self
            .net_faults
            .iter()
            .filter(|f| {
                f.kind == m.kind
                    && (f.src < 0 || f.src as usize == src)
                    && (f.dst < 0 || f.dst as usize == dst)
                    && f.nth == nth
            })
            .map(|f| f.action.clone())
            .collect();
        for a in applicable {
            self.note_fault(a.name());
            match a {
                NetAction::Drop => dropped = true,
                NetAction::Dup => {
                    let d2 = self.min_delay + r.below(span + 1);
                    copies.push((d2, m.clone(), 1));
                }
                NetAction::Delay(x) => delay += x,
                NetAction::LateDup(x) => copies.push((delay + x, m.clone(), 2)),
                NetAction::BitFlip { part, bit } => {
                    if !m.parts.is_empty() {
                        let p = part % m.parts.len();
                        if !m.parts[p].is_empty() {
                            let b = bit % (m.parts[p].len() * 8);
                            m.parts[p][b / 8] ^= 1 << (b % 8);
                            flags |= 4;
                        }
                    }
                }
                NetAction::Truncate { part, len } => {
                    if !m.parts.is_empty() {
                        let p = part % m.parts.len();
                        let l = len % (m.parts[p].len() + 1);
                        m.parts[p].truncate(l);
                        flags |= 8;
                    }
                }
                NetAction::Extend { part, extra } => {
                    if !m.parts.is_empty() {
                        let p = part % m.parts.len();
                        m.parts[p].extend_from_slice(&extra);
                        flags |= 16;
                    }
                }
                NetAction::Replace { part, with } => {
                    if !m.parts.is_empty() {
                        let p = part % m.parts.len();
                        m.parts[p] = with;
                        flags |= 32;
                    }
                }
            }
        }
        if !dropped {
            self.push(self.now + delay, Ev::Deliver { src, dst, msg: m, flags });
        }
        for (d, mm, fl) in copies {
            self.push(self.now + d, Ev::Deliver { src, dst, msg: mm, flags: fl });
        }
    }

    fn blocked(&self, a: NodeId, b: NodeId) -> bool {
        match self.partition_mask {
            None => false,
            Some(m) => ((m >> a) & 1) != ((m >> b) & 1),
        }
    }

    /// Install the seams of `node` and run `f` (a party step). The node's entropy stream is
    /// moved into the thread-local device for the duration of the step and moved back after.
    pub fn as_node<T>(&mut self, node: NodeId, f: impl FnOnce(&mut Sim) -> T) -> T {
        let clk = self.local_clock_ns(node);
        let ent = std::mem::replace(&mut self.nodes[node].entropy, Xo::new(0));
        let prev_clock = seams::clock_ns();
        let prev_ent = seams::set_entropy(Some(ent));
        seams::set_clock_ns(Some(clk));
        seams::set_mono_ns(self.now);
        let prev_node = crate::exec::set_current_node(node);
        let r = f(self);
        crate::exec::set_current_node(prev_node);
        seams::set_clock_ns(prev_clock);
        let ent = seams::set_entropy(prev_ent).expect("entropy stream vanished");
        self.nodes[node].entropy = ent;
        r
    }

    /// Run until the queue is empty, `until_ns` is reached or `max_events` were processed.
    /// Returns false if the event cap was hit.
    pub fn run(&mut self, app: &mut dyn App, until_ns: u64, max_events: u64) -> bool {
        let mut n = 0u64;
        while let Some(Reverse(item)) = self.queue.pop() {
            if item.at > until_ns {
                self.queue.push(Reverse(item));
                break;
            }
            n += 1;
            if n > max_events {
                return false;
            }
            self.now = self.now.max(item.at);
            self.stats.events += 1;
            match item.ev {
                Ev::Start { node } => {
                    self.schedule_digest = mix(self.schedule_digest, 1 + node as u64 * 16);
                    self.as_node(node, |s| app.on_input(s, node, Input::Start));
                }
                Ev::Deliver { src, dst, msg, flags } => {
                    let up = self.nodes[dst].up;
                    let cut = self.blocked(src, dst);
                    self.schedule_digest = mix(
                        self.schedule_digest,
                        2 + ((msg.kind as u64) << 8) + ((src as u64) << 24) + ((dst as u64) << 32) + ((flags as u64) << 40)
                            + ((up as u64) << 48) + ((cut as u64) << 49),
                    );
                    if !up {
                        self.stats.fault("lost-to-down-node");
                        continue;
                    }
                    if cut {
                        self.stats.fault("lost-to-partition");
                        continue;
                    }
                    if self.nodes[dst].stalled_until > self.now {
                        // a stalled node processes the message when it wakes up
                        let at = self.nodes[dst].stalled_until;
                        self.push(at, Ev::Deliver { src, dst, msg, flags });
                        self.stats.fault("stalled-delivery");
                        continue;
                    }
                    for p in &msg.parts {
                        self.artefact_digest = digest_bytes(self.artefact_digest, p);
                    }
                    self.stats.delivered += 1;
                    if self.trace_on {
                        self.trace.push(format!("t={} deliver kind={} {}->{} flags={} corr={}", self.now, msg.kind, src, dst, flags, msg.corr));
                    }
                    self.as_node(dst, |s| app.on_input(s, dst, Input::Msg { src, msg }));
                }
                Ev::Timer { node, tag, inc } => {
                    if !self.nodes[node].up || self.nodes[node].incarnation != inc {
                        continue;
                    }
                    self.schedule_digest = mix(self.schedule_digest, 3 + ((node as u64) << 8) + (tag << 16));
                    self.as_node(node, |s| app.on_input(s, node, Input::Timer { tag }));
                }
                Ev::Crash { node, torn } => {
                    if !self.nodes[node].up {
                        continue;
                    }
                    self.schedule_digest = mix(self.schedule_digest, 4 + ((node as u64) << 8));
                    self.note_fault("crash");
                    let nd = &mut self.nodes[node];
                    nd.up = false;
                    let pend = std::mem::take(&mut nd.disk.pending);
                    if !pend.is_empty() {
                        self.stats.probe("crash-with-unsynced-writes");
                        match torn {
                            1 => {
                                // torn: a strict prefix of the newest un-synced write becomes durable
                                if let Some((k, v)) = pend.last() {
                                    let cut = if v.is_empty() { 0 } else { (self.seed as usize ^ v.len() * 31) % v.len() };
                                    self.nodes[node].disk.durable.insert(k.clone(), v[..cut].to_vec());
                                    self.stats.fault("torn-write");
                                }
                            }
                            2 => {
                                // the writes did reach the platter although never acknowledged
                                for (k, v) in pend {
                                    self.nodes[node].disk.durable.insert(k, v);
                                }
                                self.stats.fault("unsynced-write-survived");
                            }
                            _ => {
                                self.stats.fault("lost-write");
                            }
                        }
                    }
                    if self.trace_on {
                        self.trace.push(format!("t={} crash node={} torn={}", self.now, node, torn));
                    }
                }
                Ev::Restart { node } => {
                    if self.nodes[node].up {
                        continue;
                    }
                    self.schedule_digest = mix(self.schedule_digest, 5 + ((node as u64) << 8));
                    self.note_fault("restart");
                    let nd = &mut self.nodes[node];
                    nd.up = true;
                    nd.incarnation += 1;
                    // a restarted party is a new process: whatever the library kept in memory is gone
                    crate::exec::restart_node(node);
                    if self.trace_on {
                        self.trace.push(format!("t={} restart node={}", self.now, node));
                    }
                    self.as_node(node, |s| app.on_input(s, node, Input::Restarted));
                }
                Ev::ClockStep { node, delta_ns } => {
                    self.schedule_digest = mix(self.schedule_digest, 6 + ((node as u64) << 8));
                    self.nodes[node].skew_ns += delta_ns;
                    self.note_fault(if delta_ns >= 0 { "clock-jump-fwd" } else { "clock-jump-back" });
                }
                Ev::ClockFreeze { node, on } => {
                    self.schedule_digest = mix(self.schedule_digest, 7 + ((node as u64) << 8));
                    if on {
                        let c = self.local_clock_ns(node);
                        self.nodes[node].frozen_at = Some(c);
                        self.note_fault("clock-freeze");
                    } else if let Some(f) = self.nodes[node].frozen_at.take() {
                        // resume from where the clock stopped (it is now behind true time)
                        self.nodes[node].skew_ns = f - (EPOCH_NS + self.now as i128);
                    }
                }
                Ev::Partition { mask } => {
                    self.schedule_digest = mix(self.schedule_digest, 8 + (mask << 8));
                    self.partition_mask = Some(mask);
                    self.note_fault("partition");
                }
                Ev::Heal => {
                    self.schedule_digest = mix(self.schedule_digest, 9);
                    if self.partition_mask.take().is_some() {
                        self.note_fault("heal");
                    }
                }
                Ev::Stall { node, for_ns } => {
                    self.schedule_digest = mix(self.schedule_digest, 10 + ((node as u64) << 8));
                    self.nodes[node].stalled_until = self.now + for_ns;
                    self.note_fault("stall");
                }
            }
        }
        true
    }
    pub fn queue_len(&self) -> usize {
        self.queue.len()
    }
}
