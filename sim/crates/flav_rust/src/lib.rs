//! Facade instance for flavour `rust` (package blsful_rust). See ../facade_impl.rs.
include!("../../facade_impl.rs");
pub static LIB: Flavour = Flavour("rust");
