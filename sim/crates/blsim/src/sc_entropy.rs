//! ENTROPY — the OS entropy device is the seam. Every randomized entry point is called N times
//! with identical arguments at a frozen simulated clock: in one call sequence, on 8 caller
//! threads (each with its own device stream), across process incarnations (device stream
//! continues), under two different device seeds, and in pairs of child processes (with the seam
//! on, and with real OS entropy). Oracle: a history check — no two calls share an ephemeral.

use crate::driver::{Scenario, Tier};
use crate::env::*;
use kernel::plan::{hex, Plan, Step};
use kernel::rec::Rec;
use kernel::seams::{self, Xo};
use kernel::sim::EPOCH_NS;
use refimpl::layout::{ElGamalFields, PokFields, SignCryptFields, TimeLockFields};
use refimpl::Pt;
use simtypes::{Grp, Lib, Op};
use std::collections::{BTreeMap, HashMap};

pub struct Entropy;
pub static ENTROPY: Entropy = Entropy;

pub const ENTRY_POINTS: [(&str, Op); 14] = [
    ("SecretKey::new", Op::KeyNew),
    ("BlsSignature::new_secret_key", Op::KeyNewViaBls),
    ("SecretKeyEnum::new", Op::EnumNew),
    ("SecretKey::split", Op::SplitEntropy),
    ("PublicKey::sign_crypt", Op::SignCrypt),
    ("PublicKey::encrypt_time_lock", Op::TimeLock),
    ("PublicKey::encrypt_key_el_gamal", Op::EgEncrypt),
    ("PublicKey::encrypt_key_el_gamal_with_proof", Op::EgEncryptProof),
    ("ProofCommitment::generate", Op::PokCommit),
    ("ProofOfKnowledgeTimestamp::generate", Op::PokTsGenerate),
    ("ProofCommitmentChallenge::new", Op::ChallengeNew),
    ("BlsSignature::new_proof_challenge", Op::ChallengeNewViaBls),
    // the trait-level route with the CALLER's blinder (one value sealed for several recipients under a shared c1): c1 and c2
    // are then the caller's choice, the proof's own nonce is still the library's to draw
    ("BlsElGamal::seal_scalar_with_proof(caller's blinder)", Op::EgEncryptProofBlinder),
    // the caller's message value makes a randomized library call of its own while the library reads it (`as_ref()` of a
    // lazily-built message): the nested call and the call around it are two calls with the same inputs
    ("ProofCommitment::generate(message value whose as_ref() calls generate)", Op::PokCommitNestedAsRef),
];
const MODES: [&str; 5] = ["sequence", "threads", "incarnations", "seeds", "mixed"];

pub struct Fixture {
    sk: Vec<u8>,
    pk: Vec<u8>,
    sig: Vec<u8>,
    msg: Vec<u8>,
    scheme: u8,
}
fn fixture(rec: &mut Rec, lib: &dyn Lib, g: Grp, scheme: u8) -> Option<Fixture> {
    let sk = rec.call(lib, g, Op::KeyFromHash, &[b"entropy-fixture"]).first()?.to_vec();
    let pk = rec.call(lib, g, Op::PublicKey, &[&sk]).first()?.to_vec();
    let msg = b"the same arguments every time".to_vec();
    let sig = rec.call(lib, g, Op::Sign, &[&sk, &[scheme], &msg]).first()?.to_vec();
    Some(Fixture { sk, pk, sig, msg, scheme })
}

/// one call with the fixed arguments; returns the labelled ephemerals it exposes
pub fn call_once(rec: &mut Rec, lib: &dyn Lib, g: Grp, op: Op, fx: &Fixture) -> Result<Vec<(&'static str, Vec<u8>)>, String> {
    let pl = g.pk_len();
    let sl = g.sig_len();
    let sc = [fx.scheme];
    let out = match op {
        Op::KeyNew | Op::KeyNewViaBls | Op::EnumNew | Op::ChallengeNew | Op::ChallengeNewViaBls => rec.call(lib, g, op, &[]),
        Op::SplitEntropy => rec.call(lib, g, op, &[&fx.sk, &u64b(2), &u64b(3)]),
        Op::SignCrypt => rec.call(lib, g, op, &[&fx.pk, &sc, &fx.msg]),
        Op::TimeLock => rec.call(lib, g, op, &[&fx.pk, &sc, &fx.msg, b"round-7"]),
        Op::EgEncrypt | Op::EgEncryptProof => rec.call(lib, g, op, &[&fx.pk, &fx.sk]),
        Op::EgEncryptProofBlinder => {
            let blinder = rec.call(lib, g, Op::KeyFromHash, &[b"the caller's blinder"]).first().map(|b| b.to_vec()).unwrap_or_default();
            rec.call(lib, g, op, &[&fx.pk, &fx.sk, &blinder])
        }
        Op::PokCommit | Op::PokTsGenerate | Op::PokCommitNestedAsRef => rec.call(lib, g, op, &[&fx.msg, &fx.sig]),
        _ => return Err("not a randomized entry point".into()),
    };
    let v = match out {
        simtypes::Out::Ok(v) => v,
        o => return Err(format!("{:?}", o)),
    };
    let bad = || "unparseable output".to_string();
    Ok(match op {
        Op::KeyNew | Op::KeyNewViaBls | Op::EnumNew => vec![("key", v[0].clone())],
        Op::ChallengeNew | Op::ChallengeNewViaBls => vec![("challenge", v[0].clone())],
        Op::SplitEntropy => vec![("share-1-value", v[0].clone()), ("share-2-value", v[1].clone())],
        Op::SignCrypt => {
            let f = SignCryptFields::parse(&v[0], pl).ok_or_else(bad)?;
            vec![("u", f.u), ("v-mask", f.v), ("w", f.w)]
        }
        Op::TimeLock => {
            let f = TimeLockFields::parse(&v[0], pl).ok_or_else(bad)?;
            vec![("u", f.u), ("v", f.v), ("w-mask", f.w)]
        }
        Op::EgEncrypt => {
            let f = ElGamalFields::parse(&v[0], pl).ok_or_else(bad)?;
            vec![("c1", f.c1), ("c2", f.c2)]
        }
        Op::EgEncryptProof => {
            let f = ElGamalFields::parse(&v[0], pl).ok_or_else(bad)?;
            let p = f.proof.clone().ok_or_else(bad)?;
            // r1 = c1·(−c) + P·blinder_proof : exposes the proof's own ephemeral r
            let c1 = Pt::from_bytes(&f.c1).ok_or_else(bad)?;
            let ch = refimpl::scalar_from_be(&p[2]).ok_or_else(bad)?;
            let bp = refimpl::scalar_from_be(&p[1]).ok_or_else(bad)?;
            let r1 = c1.mul(&(-ch)).add(&c1.gen_like().mul(&bp));
            vec![("c1", f.c1), ("proof-commitment-r1", r1.to_bytes())]
        }
        Op::EgEncryptProofBlinder => {
            let f = ElGamalFields::parse(&v[0], pl).ok_or_else(bad)?;
            let p = f.proof.clone().ok_or_else(bad)?;
            let c1 = Pt::from_bytes(&f.c1).ok_or_else(bad)?;
            let ch = refimpl::scalar_from_be(&p[2]).ok_or_else(bad)?;
            let bp = refimpl::scalar_from_be(&p[1]).ok_or_else(bad)?;
            let r1 = c1.mul(&(-ch)).add(&c1.gen_like().mul(&bp));
            vec![("proof-commitment-r1", r1.to_bytes()), ("blinder-proof", p[1].clone())]
        }
        Op::PokCommit => {
            let u = v[0][1..].to_vec();
            vec![("commitment-u", u), ("commitment-secret-x", v[1].clone())]
        }
        Op::PokTsGenerate => {
            let f = PokFields::parse(&v[0], sl).ok_or_else(bad)?;
            vec![("u", f.u), ("v", f.v)]
        }
        // same labels for the outer and the nested call: they are compared with each other and with every other call
        Op::PokCommitNestedAsRef => vec![("commitment-u", v[0][1..].to_vec()), ("commitment-secret-x", v[1].clone()), ("commitment-u", v[2][1..].to_vec()), ("commitment-secret-x", v[3].clone())],
        _ => vec![],
    })
}

thread_local! {
    /// ephemerals seen in earlier runs on this worker thread (same process): digest -> seed of the run that produced it.
    /// "Across any sequence of calls in one process": state a library keeps per thread survives from one run to the next.
    static SEEN_BEFORE: std::cell::RefCell<HashMap<(u64, Vec<u8>), u64>> = std::cell::RefCell::new(HashMap::new());
}

/// compare this run's ephemerals with those of earlier runs on the same thread that had ANOTHER seed
fn check_against_earlier_runs(rec: &mut Rec, name: &str, g: Grp, seed: u64, all: &[(usize, usize, Vec<(&'static str, Vec<u8>)>)]) {
    let mut hit: Option<String> = None;
    SEEN_BEFORE.with(|m| {
        let mut m = m.borrow_mut();
        if m.len() > 400_000 {
            m.clear();
        }
        for (lane, idx, eph) in all {
            for (label, bytes) in eph {
                if bytes.len() < 16 {
                    continue;
                }
                let key = (bytes.len() as u64, bytes.clone());
                match m.get(&key) {
                    Some(s0) if *s0 != seed => {
                        if hit.is_none() {
                            hit = Some(format!("{} {} | g={}: {} of call (lane {}, #{}) of this run equals an ephemeral produced by an earlier run (seed {}) on the same thread: {}", name, label, g.name(), label, lane, idx, s0, short(bytes)));
                        }
                    }
                    Some(_) => {}
                    None => {
                        m.insert(key, seed);
                    }
                }
            }
        }
    });
    rec.probe("compared-with-earlier-runs-on-this-thread");
    rec.expect("C20", "ephemerals-never-repeat-across-runs", hit.is_none(), || hit.clone().unwrap());
}

fn check_distinct(rec: &mut Rec, what: &str, name: &str, mode: &str, g: Grp, all: &[(usize, usize, Vec<(&'static str, Vec<u8>)>)]) {
    // all: (lane, call index, ephemerals)
    let mut seen: HashMap<(&'static str, Vec<u8>), (usize, usize)> = HashMap::new();
    let mut dup: Option<String> = None;
    for (lane, idx, eph) in all {
        for (label, bytes) in eph {
            if let Some((l0, i0)) = seen.insert((*label, bytes.clone()), (*lane, *idx)) {
                if dup.is_none() {
                    dup = Some(format!(
                        "{} {} | {} [{}] g={}: {} of call (lane {}, #{}) equals that of call (lane {}, #{}): {}",
                        name, label, what, mode, g.name(), label, l0, i0, lane, idx, short(bytes)
                    ));
                }
            }
        }
    }
    rec.expect("C20", "ephemerals-never-repeat", dup.is_none(), || dup.clone().unwrap());
}

impl Scenario for Entropy {
    fn name(&self) -> &'static str {
        "entropy"
    }
    fn cfg_floor(&self) -> BTreeMap<String, i64> {
        let mut m = BTreeMap::new();
        m.insert("n".into(), 2);
        m
    }
    fn gen(&self, property: &str, class: &str, seed: u64, index: u64, tier: Tier) -> Plan {
        let mut p = Plan { scenario: "entropy".into(), property: property.into(), seed, class: class.into(), ..Default::default() };
        let ne = ENTRY_POINTS.len() as u64;
        p.set("entry", (index % ne) as i64);
        p.set("g", ((index / ne) % 2) as i64);
        p.set("scheme", ((index / (2 * ne * MODES.len() as u64)) % 3) as i64);
        let n = if tier == Tier::Quick { 256 } else { 4096 };
        match class {
            "processes" => {
                p.set("n", 24);
                p.steps.push(Step::new("processes", &[(index % 2) as i64]));
            }
            "fork" => {
                // every entry point x warm-up calls before the fork in 0..=5 (a buffered generator holds a few draws)
                p.set("n", 8);
                p.steps.push(Step::new("fork", &[((index / (2 * ne)) % 6) as i64]));
            }
            "marathon" => {
                // one thread, one cheap entry point, a call history longer than 2^18 (quick) / 2^22 (thorough):
                // counters, reservation blocks and reseed intervals inside a generator wrap or hand over at powers of two
                const CHEAP: [i64; 5] = [0, 1, 2, 10, 11];
                p.set("entry", CHEAP[(index % 5) as usize]);
                p.set("g", ((index / 5) % 2) as i64);
                p.set("n", if tier == Tier::Quick { (1 << 18) + 4 } else { (1 << 22) + 4 });
                p.steps.push(Step::new("marathon", &[]));
            }
            _ => {
                let mi = ((index / (2 * ne)) % MODES.len() as u64) as usize;
                // one long call history per entry point (state that repeats only after many calls), shorter ones elsewhere
                p.set("n", if MODES[mi] == "sequence" { n * 8 } else { n });
                p.steps.push(Step::new(MODES[mi], &[]));
            }
        }
        p
    }
    fn run(&self, plan: &Plan, env: &Env, rec: &mut Rec) {
        let lib = env.cur;
        let g = grp_of(plan.get("g"));
        let (name, op) = ENTRY_POINTS[(plan.get("entry") as usize) % ENTRY_POINTS.len()];
        let n = plan.get("n").max(2) as usize;
        let mode = plan.steps.first().map(|s| s.k.clone()).unwrap_or_default();
        if mode.is_empty() {
            return; // a plan without its step (produced while shrinking) does nothing
        }
        // frozen simulated clock: a generator seeded from time repeats with certainty, not rarely
        seams::set_clock_ns(Some(EPOCH_NS + 1_000_000_007));
        let Some(fx) = fixture(rec, lib, g, plan.get("scheme") as u8) else { return };
        rec.case(&[20, plan.get("entry") as u64, g as u64, mode.len() as u64 + mode.as_bytes()[0] as u64 * 7], true);
        match mode.as_str() {
            "sequence" | "incarnations" => {
                let mut dev = Xo::derive(plan.seed, &[0xD3F]);
                let mut all = vec![];
                let incs = if mode == "incarnations" { 4 } else { 1 };
                for inc in 0..incs {
                    // a restart: the process is new, the entropy device continues where it was
                    let prev = seams::set_entropy(Some(dev.clone()));
                    for i in 0..n / incs {
                        // now and then a randomized request that the library REFUSES comes first (a split with threshold 1 or above
                        // the share count, an encryption to the identity key): whatever it had drawn or reserved when it gave up
                        // must not come back as the next call's randomness
                        if i % 5 == 4 {
                            let id_pk = if g.pk_len() == 48 { refimpl::Pt::id1() } else { refimpl::Pt::id2() }.to_bytes();
                            let o = match (i / 5) % 4 {
                                0 => rec.call(lib, g, Op::SplitEntropy, &[&fx.sk, &u64b(1), &u64b(3)]),
                                1 => rec.call(lib, g, Op::EgEncrypt, &[&id_pk, &fx.sk]),
                                2 => rec.call(lib, g, Op::SplitEntropy, &[&fx.sk, &u64b(4), &u64b(3)]),
                                _ => rec.call(lib, g, Op::EgEncryptProof, &[&id_pk, &fx.sk]),
                            };
                            if !o.is_ok() {
                                rec.fault("refused-randomized-request");
                            }
                        }
                        match call_once(rec, lib, g, op, &fx) {
                            Ok(e) => all.push((inc, i, e)),
                            Err(e) => {
                                rec.expect("C20", "randomized-call-succeeds", false, || format!("{} | {}", name, e));
                                seams::set_entropy(prev);
                                return;
                            }
                        }
                    }
                    dev = seams::set_entropy(prev).unwrap();
                    if inc > 0 {
                        rec.fault("restart");
                    }
                }
                rec.probe(if mode == "sequence" { "call-sequence-checked" } else { "incarnation-history-checked" });
                check_distinct(rec, "across one call history", name, &mode, g, &all);
                check_against_earlier_runs(rec, name, g, plan.seed, &all);
                rec.sample(|| format!("{} g={} mode={} calls={} first ephemerals={:?}", name, g.name(), mode, all.len(), all.first().map(|x| x.2.iter().map(|(l, b)| format!("{}={}", l, short(b))).collect::<Vec<_>>())));
            }
            "fork" => {
                let exe = std::env::current_exe().unwrap();
                let dev = Xo::derive(plan.seed, &[0xD46]).next();
                let warm = plan.steps[0].arg(0).max(0) as usize;
                let o = std::process::Command::new(&exe)
                    .args(["entropy-child", &dev.to_string(), &plan.get("g").to_string(), &plan.get("entry").to_string(), &plan.get("scheme").to_string(), &warm.to_string(), "fork"])
                    .output();
                match o {
                    Ok(o) if o.status.success() => {
                        let out = String::from_utf8_lossy(&o.stdout).to_string();
                        rec.stats.lib_calls += warm as u64 + 9;
                        rec.fault("fork-after-use");
                        rec.probe("forked-workers-compared");
                        rec.expect("C20", "ephemerals-never-repeat", out.starts_with("OK"), || format!("{} value | a process forks twice after {} randomized calls; parent and workers then call again [fork] g={}: {}", name, warm, g.name(), out.trim()));
                        rec.sample(|| format!("{} g={} mode=fork warm-up={}: {}", name, g.name(), warm, out.trim()));
                    }
                    Ok(o) => rec.note(format!("fork child failed: {}", String::from_utf8_lossy(&o.stderr))),
                    Err(e) => rec.note(format!("cannot spawn fork child: {}", e)),
                }
            }
            "marathon" => {
                // in a process of its own: this one runs other simulations on other threads, and a process-wide
                // counter raced by them would make the outcome depend on real scheduling
                let exe = std::env::current_exe().unwrap();
                let dev = Xo::derive(plan.seed, &[0xD44]).next();
                let o = std::process::Command::new(&exe)
                    .args(["entropy-child", &dev.to_string(), &plan.get("g").to_string(), &plan.get("entry").to_string(), &plan.get("scheme").to_string(), &n.to_string(), "marathon"])
                    .output();
                match o {
                    Ok(o) if o.status.success() => {
                        let out = String::from_utf8_lossy(&o.stdout).to_string();
                        rec.stats.lib_calls += n as u64 + 12;
                        rec.probe("long-call-history-checked");
                        let ok = out.starts_with("OK");
                        rec.expect("C20", "ephemerals-never-repeat", ok, || format!("{} value | one process, thread 0 makes {} calls, threads 1 and 2 start later [marathon] g={}: {}", name, n, g.name(), out.trim()));
                        rec.sample(|| format!("{} g={} mode=marathon calls={}+12 in a child process: {}", name, g.name(), n, out.trim()));
                    }
                    Ok(o) => rec.note(format!("marathon child failed: {}", String::from_utf8_lossy(&o.stderr))),
                    Err(e) => rec.note(format!("cannot spawn marathon child: {}", e)),
                }
            }
            "mixed" => {
                // all entry points interleaved on one thread; every exposed value is compared with every other of the
                // same length, whatever entry point and field it came from (a secret must never reappear as a challenge)
                let prev = seams::set_entropy(Some(Xo::derive(plan.seed, &[0xD43])));
                let mut all: Vec<(usize, usize, Vec<(&'static str, Vec<u8>)>)> = vec![];
                let rounds = (n / 8).max(4);
                let start = plan.get("entry") as usize;
                for r in 0..rounds {
                    for k in 0..ENTRY_POINTS.len() {
                        let (_, op2) = ENTRY_POINTS[(start + k) % ENTRY_POINTS.len()];
                        if let Ok(e) = call_once(rec, lib, g, op2, &fx) {
                            // same label for all: compare by bytes only
                            all.push((k, r, e.into_iter().map(|(_, b)| ("value", b)).collect()));
                        }
                    }
                }
                seams::set_entropy(prev);
                rec.probe("interleaved-entry-points-compared");
                check_distinct(rec, "across interleaved entry points (lane = entry point)", "all entry points", &mode, g, &all);
                check_against_earlier_runs(rec, "all entry points", g, plan.seed, &all);
            }
            "seeds" => {
                let mut all = vec![];
                for lane in 0..2usize {
                    let prev = seams::set_entropy(Some(Xo::derive(plan.seed, &[0xD40, lane as u64])));
                    for i in 0..(n / 4).max(2) {
                        if let Ok(e) = call_once(rec, lib, g, op, &fx) {
                            all.push((lane, i, e));
                        }
                    }
                    seams::set_entropy(prev);
                }
                rec.probe("two-device-seeds-compared");
                check_distinct(rec, "under two different entropy-device seeds", name, &mode, g, &all);
            }
            "threads" => {
                let lanes = 8usize;
                let per = (n / lanes).max(2);
                let results: std::sync::Mutex<Vec<(usize, usize, Vec<(&'static str, Vec<u8>)>)>> = std::sync::Mutex::new(vec![]);
                let errs = std::sync::Mutex::new(vec![]);
                let calls = std::sync::atomic::AtomicU64::new(0);
                std::thread::scope(|s| {
                    for lane in 0..lanes {
                        let fx = &fx;
                        let results = &results;
                        let errs = &errs;
                        let calls = &calls;
                        let seed = plan.seed;
                        s.spawn(move || {
                            // each caller thread has its own device stream and the same frozen clock
                            seams::set_clock_ns(Some(EPOCH_NS + 1_000_000_007));
                            seams::set_entropy(Some(Xo::derive(seed, &[0xD41, lane as u64])));
                            let mut r = Rec::new("C20");
                            let mut mine = vec![];
                            for i in 0..per {
                                match call_once(&mut r, lib, g, op, fx) {
                                    Ok(e) => mine.push((lane, i, e)),
                                    Err(e) => errs.lock().unwrap().push(e),
                                }
                            }
                            calls.fetch_add(r.stats.lib_calls, std::sync::atomic::Ordering::Relaxed);
                            seams::set_entropy(None);
                            seams::set_clock_ns(None);
                            results.lock().unwrap().extend(mine);
                        });
                    }
                });
                rec.stats.lib_calls += calls.load(std::sync::atomic::Ordering::Relaxed);
                let mut all = results.into_inner().unwrap();
                all.sort_by_key(|x| (x.0, x.1));
                let errs = errs.into_inner().unwrap();
                rec.expect("C20", "randomized-call-succeeds", errs.is_empty(), || format!("{} | {:?}", name, errs.first()));
                rec.probe("caller-threads-compared");
                check_distinct(rec, "across 8 caller threads", name, &mode, g, &all);
            }
            "processes" => {
                // pairs of independent process executions: seam on with different device seeds; seam off (real OS entropy)
                let seam_on = plan.steps[0].arg(0) == 0;
                let exe = std::env::current_exe().unwrap();
                let mut outs = vec![];
                for lane in 0..2u64 {
                    let dev = if seam_on { format!("{}", Xo::derive(plan.seed, &[0xD42, lane]).next()) } else { "off".to_string() };
                    let o = std::process::Command::new(&exe)
                        .args(["entropy-child", &dev, &plan.get("g").to_string(), &plan.get("entry").to_string(), &plan.get("scheme").to_string(), &n.to_string()])
                        .output();
                    match o {
                        Ok(o) if o.status.success() => outs.push(String::from_utf8_lossy(&o.stdout).to_string()),
                        Ok(o) => {
                            rec.note(format!("entropy child failed: {}", String::from_utf8_lossy(&o.stderr)));
                            return;
                        }
                        Err(e) => {
                            rec.note(format!("cannot spawn entropy child: {}", e));
                            return;
                        }
                    }
                }
                let mut all = vec![];
                for (lane, o) in outs.iter().enumerate() {
                    for (i, line) in o.lines().enumerate() {
                        let eph: Vec<(&'static str, Vec<u8>)> = line.split_whitespace().map(|h| ("ephemeral", kernel::plan::unhex(h))).collect();
                        // label by position so different fields are not compared with each other
                        let eph = eph.into_iter().enumerate().map(|(k, (_, b))| (POS_LABEL[k.min(3)], b)).collect();
                        all.push((lane, i, eph));
                    }
                }
                rec.probe(if seam_on { "process-pair-seam-on" } else { "process-pair-real-os-entropy" });
                check_distinct(rec, if seam_on { "across two processes with different device seeds" } else { "across two processes on real OS entropy" }, name, "processes", g, &all);
            }
            _ => {}
        }
        seams::set_clock_ns(Some(EPOCH_NS));
    }
}
const POS_LABEL: [&str; 4] = ["field-0", "field-1", "field-2", "field-3"];

/// `blsim entropy-child <device-seed|off> <g> <entry> <scheme> <n>` — prints one line of hex ephemerals per call
/// A process of its own (nothing else in it draws randomness): thread A makes `n` calls, then a new thread B makes
/// four, then A four more, then a new thread C four. Every exposed value of every call is compared with every
/// other, whatever thread it came from. Prints `DUP ...` for the first repeated value, `OK <values>` otherwise.
fn marathon_child(lib: &'static dyn Lib, g: Grp, op: Op, fx: &Fixture, n: usize, dev: u64) -> i32 {
    fn digest(b: &[u8]) -> u128 {
        let d = <sha2::Sha256 as sha2::Digest>::digest(b);
        u128::from_le_bytes(d[..16].try_into().unwrap())
    }
    let mut seen: Vec<(u128, u8, u32)> = Vec::with_capacity(n + 64);
    let mut rec = Rec::new("C20");
    let run_a = |seen: &mut Vec<(u128, u8, u32)>, from: usize, count: usize, rec: &mut Rec| -> Result<(), String> {
        for i in from..from + count {
            for (_, b) in call_once(rec, lib, g, op, fx)? {
                seen.push((digest(&b), 0, i as u32));
            }
        }
        Ok(())
    };
    let other = |lane: u8| -> Result<Vec<(u128, u8, u32)>, String> {
        std::thread::scope(|s| {
            s.spawn(move || {
                let _ = std::collections::hash_map::RandomState::new();
                seams::set_entropy(Some(Xo::derive(dev, &[0xD45, lane as u64])));
                seams::set_clock_ns(Some(EPOCH_NS + 1_000_000_007));
                let mut r = Rec::new("C20");
                let mut out = vec![];
                for i in 0..4u32 {
                    for (_, b) in call_once(&mut r, lib, g, op, fx)? {
                        out.push((digest(&b), lane, i));
                    }
                }
                Ok(out)
            })
            .join()
            .unwrap_or_else(|_| Err("thread panicked".into()))
        })
    };
    let r = (|| -> Result<(), String> {
        run_a(&mut seen, 0, n, &mut rec)?;
        seen.extend(other(1)?);
        run_a(&mut seen, n, 4, &mut rec)?;
        seen.extend(other(2)?);
        Ok(())
    })();
    if let Err(e) = r {
        eprintln!("{}", e);
        return 2;
    }
    seen.sort_unstable();
    match seen.windows(2).find(|w| w[0].0 == w[1].0) {
        Some(w) => println!("DUP thread {} call #{} and thread {} call #{} expose the same value", w[0].1, w[0].2, w[1].1, w[1].2),
        None => println!("OK {}", seen.len()),
    }
    0
}

extern "C" {
    fn fork() -> i32;
    fn pipe(fds: *mut i32) -> i32;
    fn read(fd: i32, buf: *mut u8, n: usize) -> isize;
    fn write(fd: i32, buf: *const u8, n: usize) -> isize;
    fn close(fd: i32) -> i32;
    fn waitpid(pid: i32, status: *mut i32, options: i32) -> i32;
    fn _exit(code: i32) -> !;
}

/// The pre-fork worker model: a process that has ALREADY used the library (`warm` randomized calls) duplicates itself
/// with fork() — twice — and parent and both children each make three more calls. Whatever the library keeps in memory
/// (a buffered generator, a cached seed) is now in three address spaces; every value exposed after the fork must still
/// be unique across the three. This process is single-threaded (fork in a multi-threaded one is not defined behaviour).
fn fork_child(lib: &'static dyn Lib, g: Grp, op: Op, fx: &Fixture, warm: usize) -> i32 {
    let mut rec = Rec::new("C20");
    for _ in 0..warm {
        if call_once(&mut rec, lib, g, op, fx).is_err() {
            return 2;
        }
    }
    let after = |rec: &mut Rec| -> String {
        let mut out = String::new();
        for _ in 0..3 {
            match call_once(rec, lib, g, op, fx) {
                Ok(e) => {
                    for (_, b) in e {
                        out.push_str(&hex(&b));
                        out.push('\n');
                    }
                }
                Err(_) => out.push_str("ERR\n"),
            }
        }
        out
    };
    let mut all: Vec<(usize, String)> = vec![];
    for lane in 1..=2usize {
        let mut fds = [0i32; 2];
        if unsafe { pipe(fds.as_mut_ptr()) } != 0 {
            return 2;
        }
        let pid = unsafe { fork() };
        if pid < 0 {
            return 2;
        }
        if pid == 0 {
            // the worker: the same entropy device keeps serving (the seam's stream was duplicated with the process, as a
            // kernel device would NOT be: move this copy to its own position so that only library-held state can repeat)
            if let Some(mut dev) = seams::set_entropy(None) {
                for _ in 0..(lane * 7919) {
                    dev.next();
                }
                seams::set_entropy(Some(dev));
            }
            let s = after(&mut rec);
            unsafe {
                write(fds[1], s.as_ptr(), s.len());
                close(fds[1]);
                _exit(0);
            }
        }
        unsafe { close(fds[1]) };
        let mut buf = vec![0u8; 1 << 16];
        let mut got = vec![];
        loop {
            let k = unsafe { read(fds[0], buf.as_mut_ptr(), buf.len()) };
            if k <= 0 {
                break;
            }
            got.extend_from_slice(&buf[..k as usize]);
        }
        unsafe {
            close(fds[0]);
            let mut st = 0i32;
            waitpid(pid, &mut st, 0);
        }
        for l in String::from_utf8_lossy(&got).lines() {
            all.push((lane, l.to_string()));
        }
    }
    for l in after(&mut rec).lines() {
        all.push((0, l.to_string()));
    }
    let mut sorted = all.clone();
    sorted.sort_by(|a, b| a.1.cmp(&b.1));
    match sorted.windows(2).find(|w| w[0].1 == w[1].1 && w[0].1 != "ERR") {
        Some(w) => println!("DUP process {} and process {} (0 = parent, 1-2 = forked workers) expose the same value {} after {} warm-up calls", w[0].0, w[1].0, &w[0].1[..w[0].1.len().min(24)], warm),
        None => println!("OK {}", all.len()),
    }
    0
}

pub fn child_main(args: &[String]) -> i32 {
    let env = crate::env::env();
    let g = grp_of(args[1].parse().unwrap_or(0));
    let (_, op) = ENTRY_POINTS[args[2].parse::<usize>().unwrap_or(0) % ENTRY_POINTS.len()];
    let scheme: u8 = args[3].parse().unwrap_or(0);
    let n: usize = args[4].parse().unwrap_or(8);
    let mut rec = Rec::new("C20");
    let Some(fx) = fixture(&mut rec, env.cur, g, scheme) else { return 2 };
    if args[0] != "off" {
        seams::set_entropy(Some(Xo::new(args[0].parse().unwrap_or(1))));
        seams::set_clock_ns(Some(EPOCH_NS + 1_000_000_007));
    }
    if args.get(5).map(|s| s.as_str()) == Some("fork") {
        return fork_child(env.cur, g, op, &fx, n);
    }
    if args.get(5).map(|s| s.as_str()) == Some("marathon") {
        return marathon_child(env.cur, g, op, &fx, n, args[0].parse().unwrap_or(1));
    }
    for _ in 0..n {
        match call_once(&mut rec, env.cur, g, op, &fx) {
            Ok(e) => println!("{}", e.iter().map(|(_, b)| hex(b)).collect::<Vec<_>>().join(" ")),
            Err(e) => {
                eprintln!("{}", e);
                return 2;
            }
        }
    }
    0
}
