//! Which scenarios / run classes decide which property, with budgets per tier.
use crate::driver::ClassSpec;
use crate::sc_thresh::THRESH;

pub struct PropSpec {
    pub classes: Vec<ClassSpec>,
    pub rule: &'static str,
    pub assumptions: Vec<&'static str>,
    pub flavours: Vec<&'static str>,
    pub needs_clock: bool,
    pub needs_entropy: bool,
    pub also_checked_profile: bool,
}

fn cs(scenario: &'static dyn crate::driver::Scenario, class: &'static str, quick: u64, thorough: u64, exhaustive: bool) -> ClassSpec {
    ClassSpec { scenario, class, quick, thorough, exhaustive }
}

const COMMON_ASSUMPTIONS: [&str; 3] = [
    "a clean batch is evidence, not proof: schedules, fault scripts and inputs are sampled by seeded search",
    "collision/forgery events of probability <= 2^-120 are treated as impossible",
    "party logic, transport, disks, clocks and the entropy device are harness code; all cryptography is the real code of /repo's working tree",
];

pub fn spec(id: &str) -> Option<PropSpec> {
    let base = |classes, rule, flavours: Vec<&'static str>| PropSpec {
        classes,
        rule,
        assumptions: COMMON_ASSUMPTIONS.to_vec(),
        flavours,
        needs_clock: false,
        needs_entropy: false,
        also_checked_profile: false,
    };
    match id {
        "C08" => Some(base(
            vec![
                cs(&THRESH, "clean", 150, 2000, false),
                cs(&THRESH, "faulty", 500, 8000, false),
                cs(&THRESH, "byzantine", 300, 4000, false),
                cs(&THRESH, "subsets", 84, 84, true),
                cs(&THRESH, "large", 10, 120, false),
                cs(&THRESH, "params", 2, 4, false),
            ],
            "cases = (scenario kind, group, scheme, t, n, subset size and order | fault-script length and schedule digest | share-verification (honest?, Byzantine mode)); \
             non-trivial = a proper subset / a run with at least one fault / a negative expectation; distinct by hash of that tuple. \
             Class `subsets` enumerates every (group, scheme in {Basic, PoP}, 2<=t<=n<=7) with every subset of every size.",
            vec!["cur-blst"],
        )),
        _ => None,
    }
}

pub const ALL_IDS: [&str; 20] = [
    "C01", "C02", "C03", "C04", "C05", "C06", "C07", "C08", "C09", "C10", "C11", "C12", "C13", "C14", "C15", "C16", "C17", "C18", "C19", "C20",
];
