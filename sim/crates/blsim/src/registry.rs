//! Which scenarios / run classes decide which property, with budgets per tier.
use crate::driver::ClassSpec;
use crate::sc_agg::AGG;
use crate::sc_codec::CODEC;
use crate::sc_compat::COMPAT;
use crate::sc_conc::CONC;
use crate::sc_crypt::CRYPT;
use crate::sc_entropy::ENTROPY;
use crate::sc_ident::IDENT;
use crate::sc_pok::POK;
use crate::sc_sign::SIGN;
use crate::sc_thresh::THRESH;

pub struct PropSpec {
    pub classes: Vec<ClassSpec>,
    pub rule: &'static str,
    pub assumptions: Vec<&'static str>,
    pub flavours: Vec<&'static str>,
    pub needs_clock: bool,
    pub needs_entropy: bool,
    pub also_checked_profile: bool,
    /// multiplier applied to the thorough-tier run counts of the non-exhaustive classes
    pub thorough_boost: f64,
}

/// limb-pattern keys x 10 key codecs (8 + the two further serde_json front ends) + edge-encoding keys x 2 groups x 10
const GRID_KEYS: u64 = 1296 * 10 + ((crate::env::EDGE_SCALARS_G1.len() + crate::env::EDGE_SCALARS_G2.len()) as u64) * 20;
/// every large framed-size boundary (sc_crypt::big_lens)
const BIG_LENS: u64 = 224;
/// (group, scheme) x every composite-boundary message length (env::composite_lens)
const COMPOSITE_CELLS: u64 = 6 * 141;
fn cs(scenario: &'static dyn crate::driver::Scenario, class: &'static str, quick: u64, thorough: u64, exhaustive: bool) -> ClassSpec {
    ClassSpec { scenario, class, quick, thorough, exhaustive, twin_mode: 0 }
}
fn cst(scenario: &'static dyn crate::driver::Scenario, class: &'static str, quick: u64, thorough: u64, twin_mode: u8) -> ClassSpec {
    ClassSpec { scenario, class, quick, thorough, exhaustive: false, twin_mode }
}

const COMMON_ASSUMPTIONS: [&str; 3] = [
    "a clean batch is evidence, not proof: schedules, fault scripts and inputs are sampled by seeded search",
    "collision/forgery events of probability <= 2^-120 are treated as impossible",
    "party logic, transport, disks, clocks and the entropy device are harness code; all cryptography is the real code of /repo's working tree",
];

pub fn spec(id: &str) -> Option<PropSpec> {
    let base = |classes, rule, flavours: Vec<&'static str>| PropSpec {
        classes,
        rule,
        assumptions: COMMON_ASSUMPTIONS.to_vec(),
        flavours,
        needs_clock: false,
        needs_entropy: false,
        also_checked_profile: false,
        thorough_boost: match id {
            "C03" | "C06" | "C08" | "C17" | "C18" | "C19" => 1.5,
            "C07" | "C09" => 2.0,
            "C20" => 1.0,
            _ => 3.0,
        },
    };
    match id {
        "C06" => Some(base(
            vec![cs(&AGG, "agg-protocol", 350, 6000, false), cs(&AGG, "agg-direct", 250, 5000, false), cs(&AGG, "agg-every-n", 12, 63 * 6 * 3, false), cs(&AGG, "agg-max-n", 6, 48, false), cs(&CONC, "conc-agg", 100, 1000, false), cs(&AGG, "agg-block-sizes", 122, 366, true), cs(&AGG, "agg-very-long", 16, 36, true), cs(&AGG, "mixed-blocks", 4, 8, true)],
            "cases = (group, scheme, list length, list kind {exact, permuted, reversed, one of 12 relay perturbations}, repeated-message flag, reference decision) over arrival histories under loss/duplication/reordering with and without de-duplication at the aggregator; \
             class `agg-every-n` walks n = 2..=64; non-trivial = every list other than the exact one",
            vec!["cur-blst"],
        )),
        "C07" => Some(base(
            vec![cs(&AGG, "multi-protocol", 300, 6000, false), cs(&AGG, "multi-direct", 200, 4000, false), cs(&AGG, "multi-every-n", 10, 63 * 6 * 2, false), cs(&CONC, "conc-multi", 200, 1500, false), cs(&AGG, "mixed-blocks", 8, 8, true)],
            "cases = (group, scheme in {Basic, PoP}, number of accumulated contributions, arrivals incomplete?, fault-script length) and, per run, every single-signer omission / re-addition / replacement / stranger addition (all positions for n <= 12, sampled above) and another message; non-trivial = runs with lost or duplicated contributions and every negative case",
            vec!["cur-blst"],
        )),
        "C08" => Some(base(
            vec![
                cs(&THRESH, "clean", 150, 2000, false),
                cs(&THRESH, "faulty", 500, 8000, false),
                cs(&THRESH, "byzantine", 300, 4000, false),
                cs(&THRESH, "subsets", 84, 84, true),
                cs(&THRESH, "large", 10, 120, false),
                cs(&THRESH, "extremes", 104, 208, true),
                cs(&THRESH, "dealer-shapes", 28, 84, true),
                cs(&THRESH, "params", 2, 4, false),
                cs(&CONC, "conc-thresh", 100, 1000, false),
            ],
            "cases = (scenario kind, group, scheme, t, n, subset size and order | fault-script length and schedule digest | share-verification (honest?, Byzantine mode)); \
             non-trivial = a proper subset / a run with at least one fault / a negative expectation; distinct by hash of that tuple. \
             Class `subsets` enumerates every (group, scheme in {Basic, PoP}, 2<=t<=n<=7) with every subset of every size. \
             Class `dealer-shapes`: share sets of unusual but valid polynomials dealt by the reference dealer (two participants with equal values, zero top coefficient, constant polynomial, coefficients 1 / r-1), every subset of size >= t. Class `extremes` enumerates n = 255 (thorough also 254) x every t in 2..=40 and 41, 63..66, 100, 127..129, 200, 253..255 x group with exactly-t subsets made of one identifier at one end and t-1 crowded at the other end.",
            vec!["cur-blst"],
        )),
        "C01" => Some(base(
            vec![cs(&SIGN, "grid", 1368, 1368 * 3, true), cs(&SIGN, "grid-lengths", COMPOSITE_CELLS, COMPOSITE_CELLS * 3, true), cs(&SIGN, "grid-keys", GRID_KEYS, GRID_KEYS * 3, true), cs(&SIGN, "grid-big", 24, 72, true), cs(&SIGN, "retry-restart", 600, 12000, false), cs(&CONC, "conc-sign", 200, 3000, false)],
            "cases = (group, scheme, key class {1, 2, r-2, r-1, hash-derived, seeded random}, message-length class, key codec on disk, wire codec, fault-script length); \
             class `grid-keys` enumerates 1296 limb-pattern keys (each 64-bit word of the scalar one of 0, 1, 0x80, 2^56, 2^63, 2^64-1) x the 8 key codecs, then the edge-encoding keys (public key k*G whose compressed x-coordinate begins with the modulus' leading 32-bit word or with a zero word; found by a one-off exhaustive walk, re-verified at start-up) x both groups x the 8 key codecs; class `grid-lengths` enumerates (group, scheme) x every composite-boundary length (a power of two, hash-block or XOF-rate multiple minus a 48-/96-byte key prefix or a 1-3 byte length prefix, -1/0/+1: 4000, 4048, 16288, ...); class `grid` enumerates every key class x length class (0,1,31,32,33,127,128,129,255,256,257,4 KiB,16382,16383,16384,64 KiB,40,100 and the hash block / XOF rate boundaries 7,8,15,16,17,23,24,55,56,63,64,65,119,120,167,168,169,336) x scheme x group; \
             non-trivial = a run with at least one transport/crash fault (retries, duplicates, restarts with key reload)",
            vec!["cur-blst"],
        )),
        "C02" => Some(base(
            vec![cs(&SIGN, "tamper", 2200, 40000, false), cs(&SIGN, "tamper-lengths", COMPOSITE_CELLS, COMPOSITE_CELLS * 6, false), cs(&SIGN, "tamper-big", 24, 144, false), cs(&SIGN, "bitflip-all", 6, 54, false), cs(&SIGN, "verify-scale", 2, 6, true), cs(&CONC, "conc-tamper", 200, 3000, false)],
            "cases = (group, scheme, perturbation kind of the Byzantine relay {sig+kG, -sig, k*sig, signature of another message/key, message bit-flip/truncate/extend/empty/prefix, other key, pk+G, -pk, relabel, valid related tuples, in-flight bit flips}, reference decision); \
             `bitflip-all` flips every single bit of the pk, signature and message encodings of one honest tuple per run; every perturbed tuple is non-trivial",
            vec!["cur-blst", "ref (draft tags)"],
        )),
        "C03" => Some(base(
            vec![cs(&SIGN, "interop", 1500, 30000, false), cs(&SIGN, "interop-lengths", COMPOSITE_CELLS, COMPOSITE_CELLS * 3, true), cs(&SIGN, "interop-big", 24, 72, true), cs(&SIGN, "interop-long-lists", 2, 16, true), cs(&CONC, "conc-interop", 200, 3000, false)],
            "cases = (group, key class, seed length, message-length class, scheme, aggregate size, repeated-message flag); the reference implementation is a peer: byte equality of KeyGen / SkToPk / CoreSign x3 / PopProve / Aggregate and mutual acceptance; \
             no schedule or fault influences this property (stated in DESIGN.md): non-trivial counts cases with edge keys, seeds shorter than 32 bytes or repeated aggregate messages",
            vec!["cur-blst", "ref (draft tags)"],
        )),
        "C04" => Some(base(
            vec![cs(&IDENT, "family", 120, 1200, false), cs(&IDENT, "agg-positions", 240, 63 * 6 * 3 * 2, false), cs(&IDENT, "agg-positions-wide", 32, 76, true), cs(&CONC, "conc-ident", 96, 480, false)],
            "cases = (entry point, which point-/scalar-typed argument is the identity / zero, with which companion values that make the pairing equation hold trivially, scheme, group) — about 90 cases per (scheme, group), enumerated completely in every `family` run (runs differ in message and key); \
             `agg-positions` inserts an identity-key pair into a valid aggregate list at first / middle / last / random positions with its own, a neighbour's or another signer's message for n in 2..=64; `agg-positions-wide` puts it at index 254..257 (thorough: also 65 534..65 536) of a list of equal pairs; all cases non-trivial",
            vec!["cur-blst"],
        )),
        "C05" => Some(base(
            vec![cs(&SIGN, "relabel", 800, 9000, false), cs(&SIGN, "relabel-lengths", 240, COMPOSITE_CELLS, false), cs(&SIGN, "tags", 1, 1, true), cs(&CONC, "conc-relabel", 200, 1500, false)],
            "cases = (group, ordered pair of distinct schemes, artefact type {Signature, MultiSignature, AggregateSignature, SignatureShare, SignCryptCiphertext, TimeCryptCiphertext, ProofOfKnowledge, ProofCommitment, ProofOfKnowledgeTimestamp}) plus PoP-vs-signature confusions; \
             class `tags` enumerates the ten tag constants the library exposes (pairwise distinct; eight equal to the draft strings); every relabelled case is non-trivial",
            vec!["cur-blst", "ref (draft strings, tag comparison only)"],
        )),
        "C09" => Some(base(
            vec![cs(&SIGN, "registry", 1000, 15000, false), cs(&SIGN, "registry-scale", 2, 4, true), cs(&CONC, "conc-registry", 100, 1000, false)],
            "cases = (group, key class of registrant, untouched/corrupted in flight, decision) + all ordered pairs of distinct registrants (cross-registration) + perturbed proofs {-pi, pi+G, k*pi, identity, off-subgroup, bit flips}; non-trivial = any case other than an untouched own registration",
            vec!["cur-blst"],
        )),
        "C10" => Some(PropSpec {
            needs_clock: true,
            ..base(
                vec![
                    cs(&POK, "interactive", 480, 6000, false),
                    cs(&POK, "interactive-tamper", 1600, 16000, false),
                    cs(&POK, "ts-clock", 5400, 80000, false),
                    cs(&POK, "ts-future", 800, 8000, false),
                    cs(&POK, "ts-tamper", 2800, 32000, false),
                    cs(&POK, "ts-replay", 1200, 16000, false),
                    cs(&CONC, "conc-pok", 150, 1500, false),
                    cs(&CONC, "conc-pok-ts", 150, 1500, false),
                ],
                "cases = (variant, group, scheme, timeout class, elapsed-time class relative to the timeout at ns granularity {negative, inside, don't-care millisecond, after}, \
                 relay perturbation kind, delivery number); non-trivial = any tampered component, or an elapsed time outside the plain accept region; distinct by hash of the tuple",
                vec!["cur-blst"],
            )
        }),
        "C11" => Some(base(
            vec![cs(&CRYPT, "sc-roundtrip", 1200, 24000, false), cs(&CRYPT, "sc-roundtrip-big", BIG_LENS, BIG_LENS * 6, true), cs(&CRYPT, "sc-tamper", 1500, 30000, false), cs(&CRYPT, "sc-bitflip-all", 6, 36, false), cs(&CRYPT, "sc-roundtrip-huge", 4, 13, true), cs(&CONC, "conc-sc", 150, 1500, false), cs(&CONC, "conc-sc-tamper", 100, 1000, false)],
            "cases = (group, scheme, message length {0..40, 100..140, LEB128 boundaries 127/128, 16383/16384, 64 KiB; class `sc-roundtrip-big`: all 224 lengths whose framed size is within 1 of 2^16..2^25, of 168*2^j / 136*2^j (j=7..14) or of 0.1, 1, 2, 3, 5, 10 million}, codec at rest, crash/duplicate faults | relay perturbation kind {u, v bit/length/prefix, w, label, splices, in-flight truncation/extension/bit flip} | every single bit of a short ciphertext in `sc-bitflip-all`); \
             non-trivial = any altered ciphertext or a run with crash/duplicate faults",
            vec!["cur-blst"],
        )),
        "C12" => Some(base(
            vec![cs(&CRYPT, "td-subsets", 60, 60, true), cs(&CRYPT, "td-protocol", 1500, 20000, false), cs(&CRYPT, "td-extremes", 104, 208, true), cs(&CONC, "conc-td", 80, 800, false)],
            "cases = (group, ciphertext scheme, t, n, share subset and order | arrival history under loss/duplication/reordering) and every (share, key share, ciphertext) mismatch; class `td-subsets` enumerates 2<=t<=n<=5 x 3 schemes x 2 groups with every subset; non-trivial = proper subsets, mismatches",
            vec!["cur-blst"],
        )),
        "C13" => Some(base(
            vec![cs(&CRYPT, "tl-beacon", 1000, 15000, false), cs(&CRYPT, "tl-beacon-big", BIG_LENS, BIG_LENS * 6, true), cs(&CRYPT, "tl-tamper", 2400, 36000, false), cs(&CRYPT, "tl-bitflip-all", 12, 54, false), cs(&CRYPT, "tl-beacon-huge", 4, 13, true), cs(&CONC, "conc-tl", 100, 1000, false), cs(&CONC, "conc-tl-tamper", 60, 600, false)],
            "cases = (group, scheme, beacon kind {whole key, t-of-n recombined over a lossy/duplicating transport}, message length (class `tl-beacon-big`: all 224 lengths whose framed size is within 1 of 2^16..2^25, of 168*2^j / 136*2^j (j=7..14) or of 0.1, 1, 2, 3, 5, 10 million), identifier kind, fault-script length | perturbation kind distinguishing header, authenticated prefix of w and padding, incl. in-place rewrites of the length prefix to values around 2^7..2^128 | every single bit in `tl-bitflip-all`); non-trivial = recombined beacons, runs with faults, all altered ciphertexts",
            vec!["cur-blst"],
        )),
        "C14" => Some(base(
            vec![cs(&CRYPT, "eg-tally", 1500, 20000, false), cs(&CRYPT, "eg-extremes", 104, 208, true), cs(&CRYPT, "eg-proof-tamper", 2400, 32000, false), cs(&CRYPT, "eg-transcripts", 16, 64, true), cs(&CONC, "conc-eg", 100, 1000, false), cs(&CONC, "conc-eg-tamper", 100, 1000, false)],
            "cases = (group, number of voters, which ballots arrived in which order under loss/duplication/delay, fault-script length) with conservation oracle, threshold share subset; proof perturbation kind over (c1, c2, message_proof, blinder_proof, challenge, pk); non-trivial = sums of >1 ciphertext, runs with faults, all altered proofs",
            vec!["cur-blst"],
        )),
        "C15" => Some(base(
            vec![cs(&CODEC, "vault", 96, 900, false), cs(&CODEC, "vault-big", 4, 12, false), cs(&CONC, "conc-vault", 12, 120, false)],
            "cases = (group, data type (all 28), codec {bytes via &[u8] / Vec<u8> / &Vec<u8> / Box<[u8]>, serde_bare, serde_json, big- and little-endian for scalar types and the curve-tagged key wrapper}, specimen kind {generated, identity point, scalar 1 / r-1, each scheme variant, timestamps 0 / 2^63 / u64::MAX, share identifiers incl. 1 and 255, payload 0 B .. 64 KiB, limb-pattern secret keys, points k*G whose compressed coordinate begins with the modulus' leading 32-bit word or a zero word (15 scalars found by an exhaustive walk, in every point-carrying type)}); \
             every specimen is written to a vault's disk, survives a crash/restart, is reloaded, compared (bytes and PartialEq) and forwarded to a second vault in another codec; the type x group x scheme x codec table is enumerated in every run, values within a cell are seeded; non-trivial = edge specimens",
            vec!["cur-blst"],
        )),
        "C16" => Some(base(
            vec![cs(&CODEC, "byz-encoder", 32, 300, false), cs(&CODEC, "random-bytes", 300, 6000, false), cs(&CONC, "conc-byz-encoder", 6, 60, false)],
            "cases = (group, data type, codec {bytes, bare, json}, point position, malformation {on-curve point outside the subgroup, x with no curve point, compression flag cleared, infinity flag with coordinates, infinity with sign, x >= p}) + every strict prefix of every encoding (torn/short write) + other lengths for exact-length types + zero / r / 2r for byte-imported scalars + invalid payloads in share containers at every use site + corrupted/random byte strings whose accepted outputs are re-checked point by point; all cases non-trivial",
            vec!["cur-blst", "ref (point classification only)"],
        )),
        "C17" => Some(PropSpec {
            also_checked_profile: true,
            needs_clock: true,
            ..base(
                vec![
                    cs(&CODEC, "hostile-decoders", 32, 400, false),
                    cs(&CODEC, "hostile-frames", 6, 60, false),
                    cs(&CODEC, "hostile-scalars", 2, 2, true),
                    cs(&CODEC, "vault", 4, 40, false),
                    cs(&CODEC, "byz-encoder", 2, 20, false),
                    cs(&CODEC, "random-bytes", 10, 400, false),
                    cs(&SIGN, "tamper", 200, 4000, false),
                    cs(&SIGN, "relabel", 20, 400, false),
                    cs(&SIGN, "registry", 30, 600, false),
                    cs(&SIGN, "retry-restart", 40, 800, false),
                    cs(&CRYPT, "sc-tamper", 200, 4000, false),
                    cs(&CRYPT, "sc-bitflip-all", 2, 12, false),
                    cs(&CRYPT, "tl-tamper", 200, 4000, false),
                    cs(&CRYPT, "tl-bitflip-all", 2, 12, false),
                    cs(&CRYPT, "td-protocol", 40, 800, false),
                    cs(&CRYPT, "tl-beacon", 40, 800, false),
                    cs(&CRYPT, "eg-proof-tamper", 100, 2000, false),
                    cs(&CRYPT, "eg-tally", 40, 800, false),
                    cs(&AGG, "agg-protocol", 40, 800, false),
                    cs(&AGG, "multi-protocol", 40, 800, false),
                    cs(&THRESH, "byzantine", 60, 1200, false),
                    cs(&THRESH, "faulty", 40, 800, false),
                    cs(&POK, "ts-tamper", 300, 6000, false),
                    cs(&POK, "ts-future", 100, 2000, false),
                    cs(&POK, "interactive-tamper", 100, 2000, false),
                    cs(&IDENT, "family", 12, 120, false),
                    cs(&IDENT, "agg-positions", 12, 120, false),
                    cs(&THRESH, "dealer-shapes", 4, 20, false),
                    cs(&THRESH, "extremes", 8, 78, false),
                    cs(&CRYPT, "eg-extremes", 8, 78, false),
                    cs(&CRYPT, "td-extremes", 8, 78, false),
                    cs(&SIGN, "grid-keys", 400, 4000, false),
                    cs(&CONC, "conc-hostile", 6, 60, false),
                    cs(&CONC, "conc-tamper", 20, 200, false),
                    cs(&CONC, "conc-sc-tamper", 20, 200, false),
                    cs(&CONC, "conc-pok-ts", 20, 200, false),
                ],
                "every library call made by any party in any scenario is monitored (unwinding = violation, recorded with file:line; a worker without progress for 120 s = loop). Cases = hostile-input runs: every truncation length, bit flips, extensions and hex-digit corruption of valid encodings of all 28 types in all codecs followed by every accessor of whatever decoded; valid signcryption / time-lock envelopes around attacker-chosen framing bytes; 14 timestamp x 9 timeout x 5 clock-skew classes; all 256 byte-OR values of the zero test; plus the tamper/Byzantine classes of the other scenarios. Everything runs in the release profile and again in a profile with debug assertions and overflow checks. All cases non-trivial.",
                vec!["cur-blst (release)", "cur-blst (checked: debug-assertions + overflow-checks)"],
            )
        }),
        "C18" => {
            let mut v = vec![cs(&COMPAT, "golden", 8, 8, true), cs(&COMPAT, "ref-interop", 600, 12000, false), cs(&COMPAT, "ref-interop-big", BIG_LENS, BIG_LENS * 2, true)];
            // mixed-version cluster: 3 = working tree serves, pinned release mirrors (new-made artefacts consumed by the old
            // release); 4 = pinned release serves, working tree mirrors (old-made artefacts consumed by the new tree)
            for mode in [3u8, 4] {
                v.push(cst(&SIGN, "grid", 120, 648, mode));
                v.push(cst(&SIGN, "retry-restart", 60, 1200, mode));
                v.push(cst(&SIGN, "registry", 30, 600, mode));
                v.push(cst(&CRYPT, "sc-roundtrip", 150, 3000, mode));
                v.push(cst(&CRYPT, "td-protocol", 60, 1200, mode));
                v.push(cst(&CRYPT, "tl-beacon", 60, 1200, mode));
                v.push(cst(&CRYPT, "eg-tally", 60, 1200, mode));
                v.push(cst(&CRYPT, "eg-proof-tamper", 60, 1200, mode));
                v.push(cst(&AGG, "agg-protocol", 40, 800, mode));
                v.push(cst(&AGG, "multi-protocol", 40, 800, mode));
                v.push(cst(&THRESH, "clean", 40, 800, mode));
                v.push(cst(&THRESH, "faulty", 40, 800, mode));
                v.push(cst(&POK, "interactive", 60, 1200, mode));
                v.push(cst(&POK, "ts-clock", 120, 2400, mode));
                v.push(cst(&CODEC, "vault", 6, 60, mode));
            }
            Some(base(
                v,
                "cases = golden records (every exported type x scheme variant x edge value x codec x group x 4 payload sizes, written by the vendored pinned flavour under a fixed entropy seed and checked against a committed digest) decoded and re-encoded on the working tree after a restart on that disk; \
                 reference interop tuples (group, scheme, message length) for signcryption, time-lock, both PoK variants and the ElGamal transcript in both directions; and every library call of the honest-path scenario classes mirrored on the pinned release in a mixed-version cluster, both directions (deterministic outputs byte-equal, every artefact made by one accepted with the same result by the other). All cases non-trivial (two implementations or two versions involved).",
                vec!["cur-blst", "pinned (vendored release @4bdca94)", "ref (draft tags + documented own-protocol strings)"],
            ))
        }
        "C19" => {
            let mut v = vec![];
            for mode in [1u8, 2] {
                v.push(cst(&SIGN, "grid", 80, 648, mode));
                v.push(cst(&SIGN, "tamper", 150, 3000, mode));
                v.push(cst(&SIGN, "relabel", 10, 200, mode));
                v.push(cst(&SIGN, "interop", 60, 1200, mode));
                v.push(cst(&SIGN, "registry", 20, 400, mode));
                v.push(cst(&CRYPT, "sc-roundtrip", 80, 1600, mode));
                v.push(cst(&CRYPT, "sc-tamper", 80, 1600, mode));
                v.push(cst(&CRYPT, "tl-tamper", 80, 1600, mode));
                v.push(cst(&CRYPT, "td-protocol", 30, 600, mode));
                v.push(cst(&CRYPT, "tl-beacon", 30, 600, mode));
                v.push(cst(&CRYPT, "eg-tally", 30, 600, mode));
                v.push(cst(&CRYPT, "eg-proof-tamper", 40, 800, mode));
                v.push(cst(&AGG, "agg-protocol", 20, 400, mode));
                v.push(cst(&AGG, "multi-protocol", 20, 400, mode));
                v.push(cst(&AGG, "agg-max-n", 6, 24, mode));
                v.push(cst(&AGG, "agg-block-sizes", 40, 122, mode));
                v.push(cst(&AGG, "agg-very-long", 14, 30, mode));
                v.push(cst(&THRESH, "clean", 20, 400, mode));
                v.push(cst(&THRESH, "byzantine", 30, 600, mode));
                v.push(cst(&THRESH, "large", 2, 16, mode));
                v.push(cst(&POK, "interactive-tamper", 40, 800, mode));
                v.push(cst(&POK, "ts-clock", 80, 1600, mode));
                v.push(cst(&POK, "ts-tamper", 60, 1200, mode));
                v.push(cst(&CODEC, "vault", 4, 40, mode));
                v.push(cst(&CODEC, "byz-encoder", 2, 20, mode));
                v.push(cst(&CODEC, "random-bytes", 8, 160, mode));
                v.push(cst(&CODEC, "hostile-scalars", 2, 2, mode));
                v.push(cst(&IDENT, "family", 6, 60, mode));
            }
            Some(base(
                v,
                "cases = every library call of every scenario class (honest paths, tamper / Byzantine / hostile-input classes) executed by twin parties, one per arithmetic back end, in a mixed-backend cluster: mode 1 = the blst build serves and the pure-Rust build mirrors every request, mode 2 = the reverse. Deterministic operations must return byte-identical results (or both refuse); randomized artefacts (ciphertexts, proofs, share sets) made by the serving build are consumed by the mirroring build in the following calls with identical plaintext / verdict. All cases non-trivial (two configurations involved).",
                vec!["cur-blst", "cur-rust"],
            ))
        }
        "C20" => Some(PropSpec {
            needs_entropy: true,
            needs_clock: true,
            ..base(
                vec![cs(&ENTROPY, "history", 420, 420, false), cs(&ENTROPY, "marathon", 10, 10, false), cs(&ENTROPY, "fork", 168, 168, true), cs(&ENTROPY, "processes", 24, 48, false), cs(&CONC, "conc-fresh", 72, 288, false)],
                "cases = (randomized entry point, group, mode in {one call sequence (8N calls), 8 caller threads, 4 process incarnations, two device seeds, all entry points interleaved and compared with each other, two child processes seam on/off, `fork`: a process that has made 0..5 randomized calls forks twice and parent and both workers call again (every entry point x 2 groups x 6 warm-up counts), `marathon`: 2^18+4 (quick) / 2^22+4 (thorough) calls of one cheap entry point on one thread}); every run is also compared with the earlier runs on its worker thread; \
                 N identical-argument calls per case (quick 256, thorough 4096) at a frozen simulated clock; every exposed ephemeral (u, masks, c1, recomputed r1, commitment, secret, key, challenge, share values) must be pairwise distinct; all cases are non-trivial",
                vec!["cur-blst"],
            )
        }),
        _ => None,
    }
}

#[allow(dead_code)]
pub const ALL_IDS: [&str; 20] = [
    "C01", "C02", "C03", "C04", "C05", "C06", "C07", "C08", "C09", "C10", "C11", "C12", "C13", "C14", "C15", "C16", "C17", "C18", "C19", "C20",
];
