//! ROLLING-UPGRADE (C18), the parts that are not "twin" runs of the other scenarios:
//!  * `golden`      — data at rest written by the pinned release (every type x group x scheme x codec, made
//!                    by the vendored pinned flavour under a fixed entropy seed and pinned by a committed
//!                    digest file) is mounted as the disk of a party running the working tree, which restarts on it;
//!  * `ref-interop` — an independent implementation of the documented constructions (signcryption, time-lock,
//!                    PoK challenge derivation, ElGamal proof transcript) opens what the library seals and vice versa.

use crate::courier::Courier;
use crate::driver::{Scenario, Tier};
use crate::env::*;
use crate::sc_codec::{codecs_of, specimens, Specimen};
use crate::sc_sign::party;
use kernel::plan::{hex, Plan, Step};
use kernel::rec::Rec;
use kernel::seams::{self, Xo};
use kernel::sim::MS;
use refimpl::layout::{ElGamalFields, PokFields, SignCryptFields, TimeLockFields};
use refimpl::{Bls, Pt, Tags};
use simtypes::{Codec, Grp, Lib, Op, Out, Ty};
use std::collections::BTreeMap;

pub struct CompatSc;
pub static COMPAT: CompatSc = CompatSc;

pub const GOLDEN_SEED: u64 = 0x601D_E2C0_8B15;
pub const GOLDEN_PAYLOADS: [usize; 4] = [0, 33, 200, 4096];

impl Scenario for CompatSc {
    fn name(&self) -> &'static str {
        "compat"
    }
    fn cfg_floor(&self) -> BTreeMap<String, i64> {
        BTreeMap::new()
    }
    fn gen(&self, property: &str, class: &str, seed: u64, index: u64, tier: Tier) -> Plan {
        let mut x = Xo::derive(seed, &[0xC0A7]);
        let mut p = Plan { scenario: "compat".into(), property: property.into(), seed, class: class.into(), ..Default::default() };
        p.set("g", (index % 2) as i64);
        p.set("scheme", ((index / 2) % 3) as i64);
        p.set("payload_idx", ((index / 2) % GOLDEN_PAYLOADS.len() as u64) as i64);
        p.set("len", crate::sc_crypt::enc_len(&mut x, index / 6, tier == Tier::Thorough) as i64);
        p.set("key_class", x.below(6) as i64);
        if class == "ref-interop" && index % 61 == 7 {
            // rarely, a payload beyond one MiB (chunked key-stream generation has boundaries of its own)
            p.set("len", *x.pick(&[1_048_573i64, 1_048_574, 1_100_000, 2_200_000]));
        }
        if class == "ref-interop-big" {
            // every large framed-size boundary, 64 KiB .. 32 MiB (the reference seals, the library opens, and back)
            let l = crate::sc_crypt::big_lens();
            p.set("len", l[(index % l.len() as u64) as usize] as i64);
            p.set("g", ((index / l.len() as u64 + index) % 2) as i64);
        }
        p.steps.push(Step::new(class, &[index as i64]));
        p
    }
    fn run(&self, plan: &Plan, env: &Env, rec: &mut Rec) {
        match plan.class.as_str() {
            "golden" => run_golden(plan, env, rec),
            "ref-interop" | "ref-interop-big" => run_ref_interop(plan, env.cur, env.pinned, rec),
            _ => {}
        }
    }
}

/// The corpus the pinned release writes: every specimen in every codec. Deterministic: fixed
/// entropy seed and frozen clock.
pub fn golden_corpus(pinned: &dyn Lib, g: Grp, payload: usize) -> Vec<(Specimen, Codec, Vec<u8>)> {
    let prev_e = seams::set_entropy(Some(Xo::new(GOLDEN_SEED ^ payload as u64 ^ ((g as u64) << 40))));
    let prev_c = seams::clock_ns();
    seams::set_clock_ns(Some(kernel::sim::EPOCH_NS + 77_000_000));
    let mut rec = Rec::new("golden");
    let sps = specimens(&mut rec, pinned, g, GOLDEN_SEED, payload);
    let mut out = vec![];
    for s in sps {
        for cd in codecs_of(s.ty) {
            // the pinned release's own byte form of the curve-tagged key wrapper is wrong (fixed finding F2): excluded by name
            if s.ty == Ty::SecretKeyEnum && !matches!(cd, Codec::Bare | Codec::Json) {
                continue;
            }
            if let Out::Ok(v) = recode(&mut rec, pinned, g, s.ty, s.codec, cd, &s.bytes) {
                out.push((s.clone(), cd, v[0].clone()));
            }
        }
    }
    seams::set_clock_ns(prev_c);
    seams::set_entropy(prev_e);
    out
}

pub fn golden_digest(pinned: &dyn Lib) -> String {
    let mut lines = vec![];
    for g in Grp::ALL {
        for p in GOLDEN_PAYLOADS {
            let mut h = 0xcbf29ce484222325u64;
            let corpus = golden_corpus(pinned, g, p);
            for (s, cd, b) in &corpus {
                for x in s.ty.name().bytes().chain(s.label.bytes()).chain([*cd as u8]).chain(b.iter().copied()) {
                    h = (h ^ x as u64).wrapping_mul(0x100000001b3);
                }
            }
            lines.push(format!("{} payload={} records={} fnv1a64={:016x}", g.name(), p, corpus.len(), h));
        }
    }
    lines.join("\n") + "\n"
}

fn run_golden(plan: &Plan, env: &Env, rec: &mut Rec) {
    let g = grp_of(plan.get("g"));
    let payload = GOLDEN_PAYLOADS[plan.get("payload_idx") as usize % GOLDEN_PAYLOADS.len()];
    let corpus = golden_corpus(env.pinned, g, payload);
    let lib = env.cur;
    // the corpus is the disk of a party that now runs the working tree and restarts on it
    let mut c = Courier::new(plan.seed, 1);
    for (i, (s, cd, b)) in corpus.iter().enumerate() {
        c.sim.nodes[0].disk.durable_put(&format!("{}:{}:{}:{}", i, s.ty.name(), s.label, cd.name()), b);
    }
    c.sim.schedule_crash(MS, 0, 0);
    c.sim.schedule_restart(2 * MS, 0);
    c.pass(5 * MS);
    for (i, (s, cd, b)) in corpus.iter().enumerate() {
        let key = format!("{}:{}:{}:{}", i, s.ty.name(), s.label, cd.name());
        let Some(stored) = c.sim.nodes[0].disk.read(&key) else { continue };
        rec.case(&[18, g as u64, s.ty as u64, *cd as u64, payload as u64, s.label.len() as u64], true);
        // decodes on the new tree to the same value the old release meant …
        let back = c.at(0, || recode(rec, lib, g, s.ty, *cd, s.codec, &stored));
        rec.expect("C18", "old-data-decodes-to-same-value", back.first() == Some(s.bytes.as_slice()), || {
            format!("{} {} | {} ({}) written by the pinned release as {} does not decode to the same value on this tree: {}", s.ty.name(), cd.name(), s.ty.name(), s.label, cd.name(), match &back { Out::Ok(v) => format!("got {}", short(&v[0])), o => format!("{:?}", o) })
        });
        // … and the new tree writes it exactly as the old release did
        let again = recode(rec, lib, g, s.ty, s.codec, *cd, &s.bytes);
        if s.ty == Ty::SecretKeyEnum {
            continue;
        }
        rec.expect("C18", "new-encoding-equals-old", again.first() == Some(b.as_slice()), || format!("{} {} | this tree encodes {} ({}) differently from the pinned release", s.ty.name(), cd.name(), s.ty.name(), s.label));
    }
    rec.sample(|| format!("g={} payload={}B golden records={} (made by the vendored pinned flavour, fixed entropy seed)", g.name(), payload, corpus.len()));
    c.finish(rec);
}

/// draft tags + the own-protocol strings of the pinned release: what an independent implementer works from
fn documented(g: Grp) -> (Bls, Vec<u8>) {
    let b = Bls::with_tags(sig_grp(g), Tags::draft(sig_grp(g)));
    let enc = if g == Grp::G1 { refimpl::ELGAMAL_DST_PKG2.to_vec() } else { refimpl::ELGAMAL_DST_PKG1.to_vec() };
    (b, enc)
}

fn run_ref_interop(plan: &Plan, lib: &dyn Lib, pinned: &dyn Lib, rec: &mut Rec) {
    let g = grp_of(plan.get("g"));
    let scheme = plan.get("scheme") as u8;
    let sch = scheme_name(scheme);
    let (pl, sl) = (g.pk_len(), g.sig_len());
    let mut x = Xo::derive(plan.seed, &[0xC0A8]);
    let (b, enc_dst) = documented(g);
    let Some(a) = party(rec, lib, g, plan.get("key_class") as u64, plan.seed) else { return };
    let sk = refimpl::scalar_from_be(&a.sk).unwrap();
    let pk = Pt::from_bytes(&a.pk).unwrap();
    let len = plan.get("len") as usize;
    let msg = x.bytes(len);
    let dst = b.tags.sig(refimpl::Scheme::from_u8(scheme)).to_vec();
    rec.case(&[18, g as u64, scheme as u64, len as u64, 1], true);
    let mut c = Courier::new(plan.seed, 2);
    // ---- signcryption: reference seals, library opens
    let r = refimpl::hkdf_scalar(refimpl::SIGNCRYPT_SALT, &x.bytes(32));
    let sc = refimpl::signcrypt_seal(&b, &pk, &msg, &dst, &r);
    let ct = SignCryptFields { u: sc.u.to_bytes(), v: sc.v.clone(), w: sc.w.to_bytes(), scheme }.build();
    for arr in c.ship(0, 1, 70, 0, vec![ct]) {
        let v = rec.call(lib, g, Op::ScValid, &[&arr.parts[0]]);
        let d = rec.call(lib, g, Op::ScDecrypt, &[&arr.parts[0], &a.sk]);
        rec.expect("C18", "library-opens-reference-signcryption", v.flag() == Some(true) && d.opt_value() == Some(Some(msg.as_slice())), || {
            format!("signcrypt ref->lib scheme={} g={} | len={}: valid={:?} decrypt={}", sch, g.name(), len, v.flag(), crate::sc_crypt::describe(&d))
        });
    }
    // library seals, reference opens
    if let Some(ct) = rec.call(lib, g, Op::SignCrypt, &[&a.pk, &[scheme], &msg]).first().map(|v| v.to_vec()) {
        let ok = SignCryptFields::parse(&ct, pl).and_then(|f| {
            let cc = refimpl::SignCrypt { u: Pt::from_bytes(&f.u)?, v: f.v.clone(), w: Pt::from_bytes(&f.w)? };
            refimpl::signcrypt_open(&b, &cc, &sk, &dst)
        });
        rec.expect("C18", "reference-opens-library-signcryption", ok.as_deref() == Some(msg.as_slice()), || format!("signcrypt lib->ref scheme={} g={} | len={}: the reference implementation of the documented construction cannot open the library's ciphertext", sch, g.name(), len));
    }
    // ---- time-lock
    let id = x.bytes(1 + (plan.seed % 20) as usize);
    let id_for_hash = if scheme == 1 { let mut m = a.pk.clone(); m.extend_from_slice(&id); m } else { id.clone() };
    let idp = b.hash_msg(&id_for_hash, &dst);
    let alpha = refimpl::hkdf_scalar(refimpl::TIMELOCK_SALT, &x.bytes(32));
    let tl = refimpl::timelock_seal(&b, &pk, &msg, &idp, &alpha);
    let tct = TimeLockFields { u: tl.u.to_bytes(), v: tl.v.to_vec(), w: tl.w.clone(), scheme }.build();
    let sig = rec.call(lib, g, Op::Sign, &[&a.sk, &[scheme], &id]).first().map(|v| v.to_vec()).unwrap_or_default();
    let d = rec.call(lib, g, Op::TlDecrypt, &[&tct, &sig]);
    rec.expect("C18", "library-opens-reference-timelock", d.opt_value() == Some(Some(msg.as_slice())), || format!("timelock ref->lib scheme={} g={} | len={}: {}", sch, g.name(), len, crate::sc_crypt::describe(&d)));
    // another implementation's ciphertexts whose alpha is written the OTHER way (big-endian) or drawn from {0,1}^256: the
    // opener sees 32 opaque bytes. Whatever the pinned release does with them, the tree does (data written for the old
    // release's opener is still around)
    if len <= 4096 {
        let mut be = alpha.to_le_bytes();
        be.reverse();
        let mut wide = [0xffu8; 32];
        wide[..16].copy_from_slice(&x.bytes(16));
        let mut rnd = [0u8; 32];
        rnd.copy_from_slice(&x.bytes(32));
        for (what, a32) in [("big-endian alpha", be), ("alpha above the group order", wide), ("alpha from {0,1}^256", rnd)] {
            let t = refimpl::timelock_seal_raw_alpha(&b, &pk, &msg, &idp, &a32);
            let bytes = TimeLockFields { u: t.u.to_bytes(), v: t.v.to_vec(), w: t.w.clone(), scheme }.build();
            let old = rec.call(pinned, g, Op::TlDecrypt, &[&bytes, &sig]);
            let new = rec.call(lib, g, Op::TlDecrypt, &[&bytes, &sig]);
            // (the pinned release is wrong for the augmentation scheme: finding F9, excluded by name as everywhere in C18)
            if scheme != 1 {
                rec.expect("C18", "old-and-new-open-the-same", old.opt_value() == new.opt_value(), || format!("timelock other-implementation {} scheme={} g={} len={} | the pinned release answers {}, the tree answers {}", what, sch, g.name(), len, crate::sc_crypt::describe(&old), crate::sc_crypt::describe(&new)));
            }
        }
    }
    if let Some(ct) = rec.call(lib, g, Op::TimeLock, &[&a.pk, &[scheme], &msg, &id]).first().map(|v| v.to_vec()) {
        let ok = TimeLockFields::parse(&ct, pl).and_then(|f| {
            let v: [u8; 32] = f.v.clone().try_into().ok()?;
            let t = refimpl::TimeLock { u: Pt::from_bytes(&f.u)?, v, w: f.w.clone() };
            refimpl::timelock_open(&b, &t, &Pt::from_bytes(&sig.get(1..)?)?)
        });
        rec.expect("C18", "reference-opens-library-timelock", ok.as_deref() == Some(msg.as_slice()), || format!("timelock lib->ref scheme={} g={} | len={}: the reference cannot open the library's ciphertext", sch, g.name(), len));
    }
    // ---- proofs of knowledge: challenge derivation y = H(u || t_le) and the verification equation
    let pmsg = if scheme == 1 { let mut m = a.pk.clone(); m.extend_from_slice(&msg); m } else { msg.clone() };
    if let Some(sg) = rec.call(lib, g, Op::Sign, &[&a.sk, &[scheme], &msg]).first().map(|v| v.to_vec()) {
        let sgp = Pt::from_bytes(&sg[1..]).unwrap();
        if let Some(p) = rec.call(lib, g, Op::PokTsGenerate, &[&pmsg, &sg]).first().map(|v| v.to_vec()) {
            let ok = PokFields::parse(&p, sl).and_then(|f| {
                let (u, v) = (Pt::from_bytes(&f.u)?, Pt::from_bytes(&f.v)?);
                let y = refimpl::pok_challenge_ts(&u, f.ts?);
                Some(refimpl::pok_verify(&b, &u, &v, &pk, &y, &pmsg, &dst))
            });
            rec.expect("C18", "reference-verifies-library-proof", ok == Some(true), || format!("pok-ts lib->ref scheme={} g={} | the reference (y = H(u || t_le), documented equation) rejects the library's timestamp proof", sch, g.name()));
        }
        let xs = refimpl::hkdf_scalar(b"x", &x.bytes(16));
        let t = (seams::clock_ns().unwrap_or(0) / 1_000_000) as u64;
        let u = b.hash_msg(&pmsg, &dst).mul(&xs);
        let y = refimpl::pok_challenge_ts(&u, t);
        let (u, v) = refimpl::pok_make(&b, &pmsg, &dst, &sgp, &xs, &y);
        let proof = PokFields { tag: scheme, u: u.to_bytes(), v: v.to_bytes(), ts: Some(t) }.build();
        let o = rec.call(lib, g, Op::PokTsVerify, &[&proof, &a.pk, &pmsg, &[]]);
        rec.expect("C18", "library-verifies-reference-proof", o.is_ok(), || format!("pok-ts ref->lib scheme={} g={} | {:?}", sch, g.name(), o));
        // interactive
        let yi = refimpl::keygen(&x.bytes(12));
        let (u, v) = refimpl::pok_make(&b, &pmsg, &dst, &sgp, &xs, &yi);
        let proof = PokFields { tag: scheme, u: u.to_bytes(), v: v.to_bytes(), ts: None }.build();
        let o = rec.call(lib, g, Op::PokVerify, &[&proof, &a.pk, &pmsg, &refimpl::scalar_to_be(&yi)]);
        rec.expect("C18", "library-verifies-reference-proof", o.is_ok(), || format!("pok ref->lib scheme={} g={} | {:?}", sch, g.name(), o));
        // the library's hash-derived challenge is the documented HKDF construction
        let ch = rec.call(lib, g, Op::ChallengeFromHash, &[&msg]);
        rec.expect("C18", "challenge-derivation-stable", ch.first() == Some(refimpl::scalar_to_be(&refimpl::keygen(&msg)).as_slice()), || format!("challenge-from-hash g={} | differs from HKDF(salt BLS-SIG-KEYGEN-SALT-)", g.name()));
    }
    // ---- ElGamal proof transcript
    let h = refimpl::elgamal_generator(&b, &enc_dst);
    let mg = rec.call(lib, g, Op::MsgGenerator, &[]);
    rec.expect("C18", "elgamal-generator-stable", mg.first() == Some(h.to_bytes().as_slice()), || format!("generator g={} | message generator differs from hash_to_curve(P) under the documented tag", g.name()));
    let m = refimpl::keygen(&x.bytes(9));
    if let Some(pr) = rec.call(lib, g, Op::EgEncryptProof, &[&a.pk, &refimpl::scalar_to_be(&m)]).first().map(|v| v.to_vec()) {
        let ok = ElGamalFields::parse(&pr, pl).and_then(|f| {
            let p3 = f.proof?;
            let r = refimpl::ElGamalProofRef { c1: Pt::from_bytes(&f.c1)?, c2: Pt::from_bytes(&f.c2)?, message_proof: refimpl::scalar_from_be(&p3[0])?, blinder_proof: refimpl::scalar_from_be(&p3[1])?, challenge: refimpl::scalar_from_be(&p3[2])? };
            Some(refimpl::elgamal_verify(&b, &pk, &h, &r))
        });
        rec.expect("C18", "reference-verifies-library-proof", ok == Some(true), || format!("elgamal lib->ref g={} | the reference transcript (labels and order as documented) rejects the library's proof", g.name()));
    }
    let (bl, rr) = (refimpl::keygen(&x.bytes(10)), refimpl::keygen(&x.bytes(11)));
    let pr = refimpl::elgamal_prove(&b, &pk, &h, &m, &bl, &rr);
    let bytes = ElGamalFields { c1: pr.c1.to_bytes(), c2: pr.c2.to_bytes(), proof: Some([refimpl::scalar_to_be(&pr.message_proof), refimpl::scalar_to_be(&pr.blinder_proof), refimpl::scalar_to_be(&pr.challenge)]) }.build();
    let o = rec.call(lib, g, Op::EgProofVerify, &[&bytes, &a.pk]);
    rec.expect("C18", "library-verifies-reference-proof", o.is_ok(), || format!("elgamal ref->lib g={} | {:?}", g.name(), o));
    let o = rec.call(lib, g, Op::EgVerifyDecrypt, &[&bytes, &a.sk]);
    rec.expect("C18", "library-verifies-reference-proof", o.first() == Some(h.mul(&m).to_bytes().as_slice()), || format!("elgamal ref->lib verify_and_decrypt g={} | {:?}", g.name(), o.kind()));
    // an APPLICATION's tag at the trait-level entry points (hash-to-curve frames the tag with a one-byte length; tags longer
    // than 255 bytes are replaced by their digest, RFC 9380 5.3.3): 0, 1, 43, 254, 255, 256 and 300 bytes — the library
    // signs what the reference signs, and verifies what the reference signs
    if let Some(skr) = refimpl::scalar_from_be(&a.sk) {
        for tl in [0usize, 1, 43, 254, 255, 256, 300] {
            let tag: Vec<u8> = (0..tl).map(|i| b'A' + (i % 23) as u8).collect();
            if tl == 0 {
                continue; // an empty tag is refused by hash-to-curve implementations; not part of any wire format
            }
            let want = b.hash_msg(&msg, &tag).mul(&skr).to_bytes();
            let o = rec.call(lib, g, Op::CoreSign, &[&a.sk, &msg, &tag]);
            rec.expect("C18", "reference-verifies-library-proof", o.first() == Some(want.as_slice()), || format!("core_sign tag-length={} g={} | the library's signature under an application tag of {} bytes differs from the reference's", tl, g.name(), tl));
            let o = rec.call(lib, g, Op::CoreVerify, &[&a.pk, &want, &msg, &tag]);
            rec.expect("C18", "library-verifies-reference-proof", o.is_ok(), || format!("core_verify tag-length={} g={} | the reference's signature under an application tag of {} bytes is rejected: {:?}", tl, g.name(), tl, o));
        }
    }
    // the same exchange over an APPLICATION's generator (the trait-level entry points take one): the transcript binds the
    // generator that was used, not the default one
    {
        let h2 = b.pk_gen().mul(&refimpl::keygen(&x.bytes(12)));
        let pr = refimpl::elgamal_prove(&b, &pk, &h2, &m, &bl, &rr);
        let sc = |v: &refimpl::RefScalar| refimpl::scalar_to_be(v);
        let o = rec.call(lib, g, Op::EgVerifyRaw, &[&a.pk, &h2.to_bytes(), &pr.c1.to_bytes(), &pr.c2.to_bytes(), &sc(&pr.message_proof), &sc(&pr.blinder_proof), &sc(&pr.challenge)]);
        rec.expect("C18", "library-verifies-reference-proof", o.is_ok(), || format!("elgamal ref->lib own-generator g={} | a proof over an application's generator made as documented is rejected: {:?}", g.name(), o));
        // ... and the default generator is NOT what that proof is about
        let o = rec.call(lib, g, Op::EgVerifyRaw, &[&a.pk, &[], &pr.c1.to_bytes(), &pr.c2.to_bytes(), &sc(&pr.message_proof), &sc(&pr.blinder_proof), &sc(&pr.challenge)]);
        rec.expect("C18", "generator-bound-by-transcript", !o.is_ok(), || format!("elgamal ref->lib own-generator-presented-under-default g={} | accepted", g.name()));
        if let Some(v) = rec.call(lib, g, Op::EgSealRaw, &[&a.pk, &refimpl::scalar_to_be(&m), &h2.to_bytes()]).ok() {
            let ok = (|| {
                let r = refimpl::ElGamalProofRef { c1: Pt::from_bytes(&v[0])?, c2: Pt::from_bytes(&v[1])?, message_proof: refimpl::scalar_from_be(&v[2])?, blinder_proof: refimpl::scalar_from_be(&v[3])?, challenge: refimpl::scalar_from_be(&v[4])? };
                Some(refimpl::elgamal_verify(&b, &pk, &h2, &r))
            })();
            rec.expect("C18", "reference-verifies-library-proof", ok == Some(true), || format!("elgamal lib->ref own-generator g={} | the reference transcript rejects the library's proof over an application's generator", g.name()));
        }
    }
    rec.sample(|| format!("scheme={} g={} len={} key_class={} — signcryption, time-lock, PoK (both variants), ElGamal proof exchanged with the reference in both directions", sch, g.name(), len, plan.get("key_class")));
    let _ = hex;
    c.finish(rec);
}
