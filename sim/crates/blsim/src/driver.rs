//! Seeded search: many short, diverse simulated runs per property on all cores; every
//! failure is minimised, replayed once more, written as a replay file and announced.

use crate::env::Env;
use kernel::plan::{minimise, Plan, ReplayFile, Violation};
use kernel::rec::{Rec, HEARTBEAT, WORKER_SLOT};
use kernel::seams::Xo;
use kernel::sim::Stats;
use serde::{Deserialize, Serialize};
use std::collections::{BTreeMap, HashSet};
use std::sync::atomic::{AtomicBool, AtomicU64, AtomicUsize, Ordering};
use std::sync::Mutex;
use std::time::Instant;

#[derive(Clone, Copy, Debug, PartialEq, Eq)]
pub enum Tier {
    Quick,
    Thorough,
}
impl Tier {
    pub fn name(self) -> &'static str {
        match self {
            Tier::Quick => "quick",
            Tier::Thorough => "thorough",
        }
    }
}

pub trait Scenario: Sync {
    fn name(&self) -> &'static str;
    /// expand a seed into an explicit plan for (property, class)
    fn gen(&self, property: &str, class: &str, seed: u64, index: u64, tier: Tier) -> Plan;
    /// execute a plan; must be a pure function of (plan, code under test)
    fn run(&self, plan: &Plan, env: &Env, rec: &mut Rec);
    /// smallest legal values of configuration keys that may be shrunk
    fn cfg_floor(&self) -> BTreeMap<String, i64> {
        BTreeMap::new()
    }
}

pub struct ClassSpec {
    pub scenario: &'static dyn Scenario,
    pub class: &'static str,
    pub quick: u64,
    pub thorough: u64,
    /// true when the (class) space is enumerated completely by index (index < count)
    pub exhaustive: bool,
    /// 0 = the tree under test alone; 1 blst with rust twin; 2 rust with blst twin; 3 blst with pinned twin; 4 pinned with blst twin
    pub twin_mode: u8,
}

#[derive(Clone, Debug, Serialize, Deserialize)]
pub struct KnownFinding {
    pub property: String,
    /// "known" (suppresses, prints KNOWN-FINDING) or "fixed" (suppresses nothing)
    pub status: String,
    pub invariant: String,
    /// every string must occur in the violation detail
    pub contains: Vec<String>,
    pub what: String,
    #[serde(default)]
    pub commit: Option<String>,
}

pub fn load_known(path: &str) -> Vec<KnownFinding> {
    match std::fs::read_to_string(path) {
        Ok(s) => serde_json::from_str(&s).unwrap_or_else(|e| {
            eprintln!("harness error: cannot parse {}: {}", path, e);
            std::process::exit(2);
        }),
        Err(_) => vec![],
    }
}
fn known_match<'a>(known: &'a [KnownFinding], v: &Violation) -> Option<&'a KnownFinding> {
    known.iter().find(|k| {
        k.status == "known" && k.property == v.property && k.invariant == v.invariant && k.contains.iter().all(|c| v.detail.contains(c.as_str()))
    })
}

/// violation key: "key | rest" convention in details; falls back to the invariant
fn vkey(v: &Violation) -> String {
    match v.detail.split_once(" | ") {
        Some((k, _)) => format!("{}:{}", v.invariant, k),
        None => v.invariant.clone(),
    }
}

pub struct RunSummary {
    pub job: usize,
    pub class_idx: usize,
    pub seed: u64,
    pub evals: u64,
    pub cases: Vec<(u64, bool)>,
    pub samples: Vec<String>,
    pub stats: Stats,
    pub verdict_log: u64,
    pub artefact_log: u64,
    pub schedule: u64,
    pub sim_time_ns: u64,
    pub violations: Vec<Violation>,
    pub plan: Option<Plan>,
    pub notes: Vec<String>,
    pub panics_seen: u64,
    /// jobs executed earlier on the same worker thread (kept for violating runs only)
    pub history: Vec<usize>,
}

fn no_exclusion(_: simtypes::Op, _: &[&[u8]], _: &simtypes::Out, _: &simtypes::Out) -> bool {
    false
}
/// Operation classes in which the pinned release is itself wrong (fixed findings) or which are not
/// part of the stable wire surface: excluded, by name, from the "old and new agree" comparison.
fn exclude_for_pinned(op: simtypes::Op, args: &[&[u8]], a: &simtypes::Out, b: &simtypes::Out) -> bool {
    use simtypes::{Codec, Op, Ty};
    let byte_codec = |c: u8| matches!(Codec::from_u8(c), Some(Codec::Bytes | Codec::BytesVec | Codec::BytesRefVec | Codec::BytesBox | Codec::Be | Codec::Le));
    // the old release's human-readable decoders insist on BORROWED strings (fixed finding F13 for the share types; its
    // curve crate does the same for scalars and points): reading through a reader, a parsed document or the harness's own
    // human-readable format (which lends strings for the duration of a visit only) is not comparable
    let front_end = |c: u8| matches!(Codec::from_u8(c), Some(Codec::JsonReader | Codec::JsonValue | Codec::TreeHr));
    match op {
        Op::Recode if args.len() >= 3 && (front_end(args[1][0]) || front_end(args[2][0])) => true,
        Op::ValueEq if args.len() >= 4 && (front_end(args[1][0]) || front_end(args[3][0])) => true,
        // SecretKeyEnum byte forms (old release writes a tag its own parser rejects)
        Op::Recode => args.len() >= 3 && args[0] == [Ty::SecretKeyEnum as u8] && (byte_codec(args[1][0]) || byte_codec(args[2][0])),
        Op::ValueEq => args.len() >= 4 && args[0] == [Ty::SecretKeyEnum as u8] && (byte_codec(args[1][0]) || byte_codec(args[3][0])),
        Op::EnumNew | Op::EnumFromHash | Op::EnumRandom | Op::EnumFromBe | Op::EnumFromLe => true,
        // the trait-level share constructor returned the wrong share type in the old release (fixed finding F15)
        Op::ScShareTrait => true,
        // decryption-share verification for non-Basic ciphertexts (old release always uses the Basic tag)
        Op::DShareVerify => args.len() >= 3 && args[2].last().map(|s| *s != 0).unwrap_or(true),
        // time-lock under MessageAugmentation (old release's ciphertexts were never openable)
        Op::TlDecrypt => args.first().and_then(|c| c.last()).map(|s| *s == 1).unwrap_or(true),
        // timestamps ahead of the verifier's clock abort in the old release
        Op::PokTsVerify => a.is_panic() || b.is_panic(),
        Op::Exercise => true,
        _ => false,
    }
}

pub fn execute(sc: &dyn Scenario, plan: &Plan, env: &Env) -> Rec {
    let mode = plan.get("twin_mode");
    let swapped;
    let env = if mode == 0 {
        env
    } else {
        let rust = env.rust.unwrap_or(env.cur);
        let (cur, twin, prop, inv, excl): (&'static dyn simtypes::Lib, &'static dyn simtypes::Lib, &'static str, &'static str, fn(simtypes::Op, &[&[u8]], &simtypes::Out, &simtypes::Out) -> bool) = match mode {
            1 => (env.cur, rust, "C19", "backends-agree", no_exclusion),
            2 => (rust, env.cur, "C19", "backends-agree", no_exclusion),
            3 => (env.cur, env.pinned, "C18", "versions-agree", exclude_for_pinned),
            _ => (env.pinned, env.cur, "C18", "versions-agree", exclude_for_pinned),
        };
        swapped = (Env { cur, rust: env.rust, pinned: env.pinned, profile: env.profile }, kernel::rec::Twin { lib: twin, primary: cur.name(), property: prop, invariant: inv, exclude: excl });
        &swapped.0
    };
    let mut rec = Rec::new(&plan.property);
    if mode != 0 {
        rec.twin = Some(swapped_twin(plan, env));
    }
    if plan.get("alt_mode") != 0 {
        rec.alt_mode = plan.get("alt_mode") as u8;
        rec.alt_routes = plan.seed | 1;
    }
    // follow-ups after refused requests (kernel::rec::Rec::after_call) in every run of the tree under test
    if plan.property != "C20" {
        rec.aftercare = plan.seed | 1;
    }
    // a run never sees real entropy or the real clock unless a scenario removes the seams itself
    let prev_e = kernel::seams::set_entropy(Some(Xo::derive(plan.seed, &[0xBA5E])));
    let prev_c = kernel::seams::clock_ns();
    kernel::seams::set_clock_ns(Some(kernel::sim::EPOCH_NS));
    kernel::seams::set_mono_ns(0);
    kernel::exec::begin_run(plan.seed);
    let (rc0, fs0) = (kernel::exec::REMOTE_CALLS.with(|c| c.get()), kernel::exec::FRESH_STARTS.with(|c| c.get()));
    sc.run(plan, env, &mut rec);
    kernel::exec::end_run();
    let (rc1, fs1) = (kernel::exec::REMOTE_CALLS.with(|c| c.get()), kernel::exec::FRESH_STARTS.with(|c| c.get()));
    *rec.stats.probes.entry("library-calls-executed-in-a-party-process").or_insert(0) += rc1 - rc0;
    *rec.stats.probes.entry("party-processes-started-fresh").or_insert(0) += fs1 - fs0;
    // the next run on this thread starts later on the monotonic clock than this one ended
    kernel::seams::advance_mono_base(4_000_000_000_000);
    kernel::seams::set_clock_ns(prev_c);
    kernel::seams::set_entropy(prev_e);
    rec
}

fn swapped_twin(plan: &Plan, env: &Env) -> kernel::rec::Twin {
    // the Env handed in already has the primary as `cur`; rebuild the twin description from the mode
    let base = crate::env::env();
    let rust = base.rust.unwrap_or(base.cur);
    let (twin, prop, inv, excl): (&'static dyn simtypes::Lib, &'static str, &'static str, fn(simtypes::Op, &[&[u8]], &simtypes::Out, &simtypes::Out) -> bool) = match plan.get("twin_mode") {
        1 => (rust, "C19", "backends-agree", no_exclusion),
        2 => (base.cur, "C19", "backends-agree", no_exclusion),
        3 => (base.pinned, "C18", "versions-agree", exclude_for_pinned),
        _ => (base.cur, "C18", "versions-agree", exclude_for_pinned),
    };
    kernel::rec::Twin { lib: twin, primary: env.cur.name(), property: prop, invariant: inv, exclude: excl }
}

/// Everything a class adds to a generated plan: the twin arrangement, and — for runs of the tree under test alone —
/// whether this run's parties are built on the library's alternative public routes (6 in 10 runs: struct-level methods
/// only; 3 in 10: a seed-drawn half of the calls; 1 in 10: every call that has an alternative route).
pub fn finish_plan(c: &ClassSpec, plan: &mut Plan) {
    if c.twin_mode != 0 {
        plan.set("twin_mode", c.twin_mode as i64);
    }
    if plan.property != "C20" && !plan.cfg.contains_key("alt_mode") {
        let mut x = Xo::derive(plan.seed, &[0xA17E]);
        let mode = match x.below(10) {
            0..=5 => 0,
            6..=8 => 1,
            _ => 2,
        };
        if mode != 0 {
            plan.set("alt_mode", mode);
        }
    }
}

pub struct BatchOut {
    pub base_seed: u64,
    pub tier: Tier,
    pub jobs: Vec<(usize, u64)>,
    pub summaries: Vec<RunSummary>,
    pub wall_s: f64,
    pub truncated: bool,
    pub jobs_total: usize,
}

pub fn job_seed(base: u64, property: &str, class_idx: usize, i: u64) -> u64 {
    let mut ph = 0u64;
    for b in property.bytes() {
        ph = ph.wrapping_mul(131).wrapping_add(b as u64);
    }
    Xo::derive(base, &[ph, class_idx as u64, i]).next()
}

pub fn run_batch(property: &str, tier: Tier, base_seed: u64, classes: &[ClassSpec], env: &Env, threads: usize, wall_cap_s: f64, scale: f64) -> BatchOut {
    let mut jobs: Vec<(usize, u64)> = vec![];
    for (ci, c) in classes.iter().enumerate() {
        let mut n = if tier == Tier::Quick { c.quick } else { c.thorough };
        if !c.exhaustive {
            n = ((n as f64) * scale).ceil() as u64;
        }
        for i in 0..n {
            jobs.push((ci, i));
        }
    }
    // interleave classes so a wall-clock cap truncates all of them evenly
    let mut order: Vec<usize> = (0..jobs.len()).collect();
    Xo::new(base_seed ^ 0x0DDE).shuffle(&mut order);
    let next = AtomicUsize::new(0);
    let stop = AtomicBool::new(false);
    let out: Mutex<Vec<RunSummary>> = Mutex::new(Vec::with_capacity(jobs.len()));
    let start = Instant::now();
    let done = AtomicBool::new(false);
    let current: Vec<AtomicU64> = (0..threads).map(|_| AtomicU64::new(u64::MAX)).collect();
    std::thread::scope(|s| {
        // loop watchdog: the only reader of the real monotonic clock; never an input to a run
        s.spawn(|| {
            let mut last: Vec<(u64, Instant)> = (0..threads).map(|i| (HEARTBEAT[i].load(Ordering::Relaxed), Instant::now())).collect();
            while !done.load(Ordering::Relaxed) {
                std::thread::sleep(std::time::Duration::from_millis(500));
                for i in 0..threads {
                    let hb = HEARTBEAT[i].load(Ordering::Relaxed);
                    let cur = current[i].load(Ordering::Relaxed);
                    if cur == u64::MAX || hb != last[i].0 {
                        last[i] = (hb, Instant::now());
                        continue;
                    }
                    if last[i].1.elapsed().as_secs() >= 120 {
                        let (ci, idx) = jobs[cur as usize];
                        println!(
                            "HANG: worker {} made no library call for 120 s in class {} index {} (property {})",
                            i, classes[ci].class, idx, property
                        );
                        if property == "C17" {
                            let sc = classes[ci].scenario;
                            let mut plan = sc.gen(property, classes[ci].class, job_seed(base_seed, property, ci, idx), idx, tier);
                            finish_plan(&classes[ci], &mut plan);
                            let path = write_replay(&plan, &Violation { property: property.into(), invariant: "no-loop".into(), detail: "watchdog: no progress for 120 s".into(), at: 0 }, env.profile, "watchdog");
                            println!("VIOLATION property=C17 replay={}", path);
                            std::process::exit(1);
                        }
                        eprintln!("harness error: run stuck");
                        std::process::exit(2);
                    }
                }
            }
        });
        let mut hs = vec![];
        for t in 0..threads {
            let jobs = &jobs;
            let order = &order;
            let next = &next;
            let stop = &stop;
            let out = &out;
            let current = &current;
            hs.push(s.spawn(move || {
                WORKER_SLOT.with(|c| c.set(t));
                let mut executed: Vec<usize> = vec![];
                // std seeds its per-thread hash-map keys from OS entropy on first use: do that now, with the
                // seam off, so that no run's entropy stream depends on which run happens to be first on a thread
                let _ = std::collections::hash_map::RandomState::new();
                loop {
                    if stop.load(Ordering::Relaxed) {
                        break;
                    }
                    let k = next.fetch_add(1, Ordering::Relaxed);
                    if k >= order.len() {
                        break;
                    }
                    let j = order[k];
                    let (ci, i) = jobs[j];
                    current[t].store(j as u64, Ordering::Relaxed);
                    let c = &classes[ci];
                    let seed = job_seed(base_seed, property, ci, i);
                    let mut plan = c.scenario.gen(property, c.class, seed, i, tier);
                    finish_plan(c, &mut plan);
                    // should the process die under this run, the fatal-signal handler reports it with this replay file
                    {
                        let v = Violation { property: property.to_string(), invariant: "process-abort".into(), detail: "the process was killed while this run was executing (abort, double panic, or a fatal fault inside a library call)".into(), at: 0 };
                        let rf = ReplayFile { plan: plan.clone(), expect: v, profile: env.profile.to_string(), note: format!("written by the fatal-signal handler; class {}", c.class), prelude: vec![], reproducibility: "process-abort".into() };
                        kernel::rec::set_inflight(Some((property.to_string(), format!("{}/{}-{}-abort.json", replay_dir(), property, seed), serde_json::to_string_pretty(&rf).unwrap_or_default())));
                    }
                    let rec = match std::panic::catch_unwind(std::panic::AssertUnwindSafe(|| execute(c.scenario, &plan, env))) {
                        Ok(r) => r,
                        Err(_) => {
                            // a panic in harness code (not in the library: those are caught inside the facade)
                            let loc = simtypes::take_panic().unwrap_or_default();
                            eprintln!("harness error: scenario {} class {} seed {} panicked at {}", c.scenario.name(), c.class, seed, loc);
                            eprintln!("plan: {}", serde_json::to_string(&plan).unwrap_or_default());
                            std::process::exit(2);
                        }
                    };
                    kernel::rec::set_inflight(None);
                    current[t].store(u64::MAX, Ordering::Relaxed);
                    let keep_plan = !rec.violations.is_empty() || i < 2;
                    let history = if rec.violations.is_empty() { vec![] } else { executed.clone() };
                    executed.push(j);
                    let sum = RunSummary {
                        job: j,
                        class_idx: ci,
                        seed,
                        evals: rec.evals,
                        cases: rec.cases,
                        samples: rec.samples,
                        stats: rec.stats,
                        verdict_log: rec.verdict_log,
                        artefact_log: rec.artefact_log,
                        schedule: rec.schedule,
                        sim_time_ns: rec.sim_time_ns,
                        violations: rec.violations,
                        plan: if keep_plan { Some(plan) } else { None },
                        notes: rec.notes,
                        panics_seen: rec.panics_seen,
                        history,
                    };
                    out.lock().unwrap().push(sum);
                    if start.elapsed().as_secs_f64() > wall_cap_s {
                        stop.store(true, Ordering::Relaxed);
                    }
                }
            }));
        }
        for h in hs {
            let _ = h.join();
        }
        done.store(true, Ordering::Relaxed);
    });
    let mut summaries = out.into_inner().unwrap();
    summaries.sort_by_key(|s| s.job);
    let truncated = summaries.len() < jobs.len();
    let jobs_total = jobs.len();
    BatchOut { base_seed, tier, jobs, summaries, wall_s: start.elapsed().as_secs_f64(), truncated, jobs_total }
}

pub fn replay_dir() -> String {
    std::env::var("VERIF_REPLAY_DIR").unwrap_or_else(|_| "/verif/replays".to_string())
}

pub fn write_replay(plan: &Plan, v: &Violation, profile: &str, note: &str) -> String {
    write_replay_full(plan, v, profile, note, &[], "")
}

/// run `blsim replay <file>` in a fresh child process; true when it reproduces (exit code 1)
pub fn reproduces_in_child(path: &str) -> bool {
    let Ok(exe) = std::env::current_exe() else { return false };
    match std::process::Command::new(exe).args(["replay", path]).output() {
        Ok(o) => o.status.code() == Some(1),
        Err(_) => false,
    }
}

pub fn write_replay_full(plan: &Plan, v: &Violation, profile: &str, note: &str, prelude: &[Plan], reproducibility: &str) -> String {
    let dir = replay_dir();
    let _ = std::fs::create_dir_all(&dir);
    let mut h = 0u64;
    for b in format!("{}{}", v.invariant, v.detail).bytes() {
        h = h.wrapping_mul(1099511628211).wrapping_add(b as u64);
    }
    let path = format!("{}/{}-{}-{:08x}.json", dir, plan.property, plan.seed, h as u32);
    let rf = ReplayFile { plan: plan.clone(), expect: v.clone(), profile: profile.to_string(), note: note.to_string(), prelude: prelude.to_vec(), reproducibility: reproducibility.to_string() };
    let _ = std::fs::write(&path, serde_json::to_string_pretty(&rf).unwrap());
    path
}

pub struct Reported {
    pub new_violations: usize,
    pub known_seen: Vec<String>,
    #[allow(dead_code)]
    pub replays: Vec<String>,
}

/// Triage the violations of a batch: match known findings, minimise and report the rest.
pub fn triage(property: &str, batch: &BatchOut, classes: &[ClassSpec], env: &Env, known: &[KnownFinding]) -> Reported {
    let mut known_seen: Vec<String> = vec![];
    let mut new_groups: BTreeMap<String, (usize, Violation)> = BTreeMap::new(); // key -> (summary idx, violation)
    for (si, s) in batch.summaries.iter().enumerate() {
        for v in &s.violations {
            if let Some(k) = known_match(known, v) {
                if !known_seen.contains(&k.what) {
                    known_seen.push(k.what.clone());
                }
                continue;
            }
            new_groups.entry(vkey(v)).or_insert((si, v.clone()));
        }
    }
    for k in &known_seen {
        println!("KNOWN-FINDING: property={} {}", property, k);
    }
    let mut replays = vec![];
    let total_new = new_groups.len();
    for (gi, (key, (si, v))) in new_groups.into_iter().enumerate() {
        if gi >= 6 {
            println!("note: {} further distinct violation classes not minimised (first 6 reported)", total_new - 6);
            break;
        }
        let s = &batch.summaries[si];
        let sc = classes[s.class_idx].scenario;
        let plan = s.plan.clone().expect("violating run keeps its plan");
        let want = (v.property.clone(), vkey(&v));
        // shrinking is bounded in executions (300) and in wall clock (90 s per violation class: runs with multi-megabyte
        // payloads take seconds each); when the time is up every further candidate counts as "does not fail" and the
        // smallest failing plan found so far is reported
        let shrink_started = std::time::Instant::now();
        let mut fails = |p: &Plan| -> bool {
            if shrink_started.elapsed().as_secs() > 90 {
                return false;
            }
            // a shrunken plan may be one no generator would produce: a harness panic on it just means "not this one"
            let Ok(rec) = std::panic::catch_unwind(std::panic::AssertUnwindSafe(|| execute(sc, p, env))) else { return false };
            rec.violations.iter().any(|x| x.property == want.0 && vkey(x) == want.1 && known_match(known, x).is_none())
        };
        let (min, tries) = minimise(&plan, &mut fails, &sc.cfg_floor(), 300);
        // final replay of the minimised plan
        let rec = execute(sc, &min, env);
        let (final_plan, final_v) = match rec.violations.iter().find(|x| x.property == want.0 && vkey(x) == want.1) {
            Some(x) => (min, x.clone()),
            None => (plan, v.clone()),
        };
        let note = format!("minimised in {} executions; original seed {}; class {}; key {}", tries, s.seed, classes[s.class_idx].class, key);
        // every reported failure must reproduce from its replay file in a FRESH process
        let mut path = write_replay_full(&final_plan, &final_v, env.profile, &note, &[], "fresh-process");
        if !reproduces_in_child(&path) {
            let _ = std::fs::remove_file(&path);
            let orig = s.plan.clone().expect("violating run keeps its plan");
            path = write_replay_full(&orig, &v, env.profile, &format!("{} (the minimised plan did not reproduce in a fresh process; this is the original plan)", note), &[], "fresh-process");
            if !reproduces_in_child(&path) {
                // the failure depends on state the library kept from earlier runs on that worker thread:
                // the prelude re-creates it; it is then minimised with fresh child processes
                let _ = std::fs::remove_file(&path);
                let gen_job = |j: usize| -> Plan {
                    let (ci, idx) = batch.jobs[j];
                    let c = &classes[ci];
                    let mut p = c.scenario.gen(property, c.class, job_seed(batch.base_seed, property, ci, idx), idx, batch.tier);
                    finish_plan(c, &mut p);
                    p
                };
                let mut prelude: Vec<Plan> = s.history.iter().map(|j| gen_job(*j)).collect();
                let hist_note = format!("{}; depends on library state left by {} earlier run(s) on the same thread", note, prelude.len());
                path = write_replay_full(&orig, &v, env.profile, &hist_note, &prelude, "fresh-process");
                if reproduces_in_child(&path) {
                    // ddmin over the prelude, each attempt in a child process (bounded)
                    let mut attempts = 0;
                    let mut chunk = (prelude.len() + 1) / 2;
                    while chunk >= 1 && attempts < 60 {
                        let mut i = 0;
                        while i < prelude.len() && attempts < 60 {
                            let mut cand = prelude.clone();
                            let end = (i + chunk).min(cand.len());
                            cand.drain(i..end);
                            attempts += 1;
                            let tmp = write_replay_full(&orig, &v, env.profile, "shrinking", &cand, "fresh-process");
                            let ok = reproduces_in_child(&tmp);
                            let _ = std::fs::remove_file(&tmp);
                            if ok {
                                prelude = cand;
                            } else {
                                i += chunk;
                            }
                        }
                        if chunk == 1 {
                            break;
                        }
                        chunk /= 2;
                    }
                    let _ = std::fs::remove_file(&path);
                    path = write_replay_full(&orig, &v, env.profile, &format!("{} (prelude minimised to {} run(s) in {} child executions)", hist_note, prelude.len(), attempts), &prelude, "fresh-process");
                } else {
                    let _ = std::fs::remove_file(&path);
                    path = write_replay_full(&orig, &v, env.profile, &format!("{}; NOT reproducible outside its batch (state shared across worker threads?): rerun the check with VERIF_THREADS=1 and the same VERIF_SEED", note), &[], "batch-context");
                }
            }
        }
        println!("VIOLATION property={} replay={}", property, path);
        println!("  invariant={} detail={}", final_v.invariant, final_v.detail);
        replays.push(path);
    }
    Reported { new_violations: total_new, known_seen, replays }
}

#[derive(Serialize, Deserialize, Default, Clone)]
pub struct PartSummary {
    pub profile: String,
    pub runs: u64,
    pub evaluations: u64,
    pub distinct_cases: Vec<u64>,
    pub nontrivial_cases: Vec<u64>,
    pub distinct_schedules: u64,
    pub sim_time_s: f64,
    pub faults: BTreeMap<String, u64>,
    pub probes: BTreeMap<String, u64>,
    pub lib_calls: u64,
    pub events: u64,
    pub wall_s: f64,
    pub new_violations: u64,
    pub known_seen: Vec<String>,
    pub samples: Vec<serde_json::Value>,
    pub truncated: bool,
    pub jobs_total: u64,
    pub per_class: BTreeMap<String, u64>,
    pub panics_noted: u64,
    pub notes: Vec<String>,
    pub exhaustive_classes: Vec<String>,
}

pub fn summarise(batch: &BatchOut, classes: &[ClassSpec], env: &Env, rep: &Reported, tier: Tier) -> PartSummary {
    let mut p = PartSummary { profile: env.profile.to_string(), ..Default::default() };
    let mut all: HashSet<u64> = HashSet::new();
    let mut nt: HashSet<u64> = HashSet::new();
    let mut sch: HashSet<u64> = HashSet::new();
    let mut stats = Stats::default();
    for s in &batch.summaries {
        p.runs += 1;
        p.evaluations += s.evals;
        for (h, n) in &s.cases {
            all.insert(*h);
            if *n {
                nt.insert(*h);
            }
        }
        sch.insert(s.schedule);
        p.sim_time_s += s.sim_time_ns as f64 / 1e9;
        stats.merge(&s.stats);
        *p.per_class.entry(classes[s.class_idx].class.to_string()).or_insert(0) += 1;
        p.panics_noted += s.panics_seen;
        for n in &s.notes {
            if p.notes.len() < 6 && !p.notes.contains(n) {
                p.notes.push(n.clone());
            }
        }
        if p.samples.len() < 4 {
            if let Some(pl) = &s.plan {
                if !s.samples.is_empty() || p.samples.is_empty() {
                    p.samples.push(serde_json::json!({
                        "class": classes[s.class_idx].class, "seed": s.seed, "scenario": pl.scenario,
                        "cfg": pl.cfg, "steps": pl.steps.len(), "faults": pl.faults.iter().take(8).collect::<Vec<_>>(),
                        "first_steps": pl.steps.iter().take(4).collect::<Vec<_>>(),
                        "observed": s.samples,
                    }));
                }
            }
        }
    }
    p.distinct_cases = all.into_iter().collect();
    p.nontrivial_cases = nt.into_iter().collect();
    p.distinct_schedules = sch.len() as u64;
    p.faults = stats.faults.iter().map(|(k, v)| (k.to_string(), *v)).collect();
    p.probes = stats.probes.iter().map(|(k, v)| (k.to_string(), *v)).collect();
    // process-wide reach counter (includes the executions spent on shrinking): how often each operation went through
    // an alternative public route instead of the struct-level method
    for (k, v) in simtypes::alt_routes_taken() {
        p.probes.insert(format!("alternative-route-taken:{}", k), v);
    }
    p.lib_calls = stats.lib_calls;
    p.events = stats.events;
    p.wall_s = batch.wall_s;
    p.new_violations = rep.new_violations as u64;
    p.known_seen = rep.known_seen.clone();
    p.truncated = batch.truncated;
    p.jobs_total = batch.jobs_total as u64;
    for c in classes {
        let n = if tier == Tier::Quick { c.quick } else { c.thorough };
        if c.exhaustive && n > 0 && !batch.truncated {
            p.exhaustive_classes.push(c.class.to_string());
        }
    }
    p
}
