//! SIGN-RT (C01), SIGN-TAMPER (C02), INTEROP (C03), CROSS-SCHEME (C05), POP-REGISTRY (C09):
//! signer / client / verifier / registry parties exchanging encoded keys, signatures and proofs
//! over the fault-injecting transport, with a Byzantine relay for the tamper classes.

use crate::courier::{install_faults, Courier};
use crate::driver::{Scenario, Tier};
use crate::env::*;
use kernel::plan::{Plan, Step};
use kernel::rec::Rec;
use kernel::seams::Xo;
use kernel::sim::{NetAction, MS};
use refimpl::{Bls, Pt, Scheme, Tags};
use simtypes::{Codec, Grp, Lib, Op, Out, Ty};
use std::collections::BTreeMap;

pub struct SignSc;
pub static SIGN: SignSc = SignSc;

const K_REQ: u32 = 20;
const K_RESP: u32 = 21;
const K_REG: u32 = 22;

/// the eight codecs of a secret key + the two further serde_json front ends (reader, parsed document)
pub const SK_CODECS: [Codec; 10] = [Codec::Bytes, Codec::BytesVec, Codec::BytesRefVec, Codec::BytesBox, Codec::Bare, Codec::Json, Codec::Be, Codec::Le, Codec::JsonReader, Codec::JsonValue];
pub const STD_CODECS: [Codec; 8] = [Codec::Bytes, Codec::BytesVec, Codec::BytesRefVec, Codec::BytesBox, Codec::Bare, Codec::Json, Codec::JsonReader, Codec::JsonValue];

/// encode in `c`, decode back — the artefact "travelled" / "was stored" in codec `c`
pub fn hop(rec: &mut Rec, lib: &dyn Lib, g: Grp, ty: Ty, c: Codec, bytes: &[u8]) -> Result<Vec<u8>, String> {
    let enc = match recode(rec, lib, g, ty, Codec::Bytes, c, bytes) {
        Out::Ok(v) => v[0].clone(),
        o => return Err(format!("encode {} as {}: {:?}", ty.name(), c.name(), o)),
    };
    match recode(rec, lib, g, ty, c, Codec::Bytes, &enc) {
        Out::Ok(v) => Ok(v[0].clone()),
        o => Err(format!("decode {} from {}: {:?}", ty.name(), c.name(), o)),
    }
}

pub fn own_tags(rec: &mut Rec, lib: &dyn Lib, g: Grp) -> Option<(Tags, Vec<u8>)> {
    let d = rec.call(lib, g, Op::Dsts, &[]).ok()?;
    Some((Tags { basic: d[0].clone(), aug: d[1].clone(), pop_sig: d[2].clone(), pop_pop: d[3].clone() }, d[4].clone()))
}

impl Scenario for SignSc {
    fn name(&self) -> &'static str {
        "sign"
    }
    fn cfg_floor(&self) -> BTreeMap<String, i64> {
        let mut m = BTreeMap::new();
        m.insert("msg_class".into(), 1);
        m.insert("reqs".into(), 1);
        m
    }
    fn gen(&self, property: &str, class: &str, seed: u64, index: u64, tier: Tier) -> Plan {
        let mut x = Xo::derive(seed, &[0x516]);
        let mut p = Plan { scenario: "sign".into(), property: property.into(), seed, class: class.into(), ..Default::default() };
        p.set("g", (index % 2) as i64);
        p.set("scheme", ((index / 2) % 3) as i64);
        p.set("key_class", ((index / 6) % 6) as i64);
        p.set("msg_class", pick_len_class(&mut x, tier == Tier::Thorough) as i64);
        p.set("sk_codec", x.below(SK_CODECS.len() as u64) as i64);
        p.set("wire", x.below(STD_CODECS.len() as u64) as i64);
        p.steps.push(Step::new(class, &[index as i64]));
        // "<class>-lengths": the same procedure, with (group, scheme, composite-boundary length) enumerated
        let lengths = class.ends_with("-lengths");
        let big = class.ends_with("-big");
        match class.trim_end_matches("-lengths").trim_end_matches("-big") {
            "grid" if big => {}
            "grid" if lengths => {}
            "grid-keys" => {
                // every limb-pattern key x every key codec; group and scheme rotate
                let edge_n = (crate::env::EDGE_SCALARS_G1.len() + crate::env::EDGE_SCALARS_G2.len()) as u64;
                let nc = SK_CODECS.len() as u64;
                let i = index % (crate::env::LIMB_KEYS * nc + edge_n * 2 * nc);
                if i < crate::env::LIMB_KEYS * nc {
                    p.set("key_class", (crate::env::LIMB_KEY_BASE + i / nc) as i64);
                    p.set("sk_codec", (i % nc) as i64);
                    p.set("g", ((i / nc + i) % 2) as i64);
                } else {
                    // keys whose public key has an extreme leading coordinate word, in both groups, every key codec
                    // (the public key and signature travel in the drawn wire codec and one more)
                    let j = i - crate::env::LIMB_KEYS * nc;
                    p.set("key_class", (crate::env::LIMB_KEY_BASE + crate::env::LIMB_KEYS + j / (2 * nc)) as i64);
                    p.set("sk_codec", (j % nc) as i64);
                    p.set("g", ((j / nc) % 2) as i64);
                }
                p.set("scheme", ((i / 16) % 3) as i64);
                p.set("msg_class", *x.pick(&[1i64, 2, 3, 16, 17]));
            }
            "grid" => {
                // enumerate key class x message-length class x scheme x group
                let cells = 2 * 3 * 6 * LEN_CLASSES.len() as u64;
                let i = index % cells;
                p.set("g", (i % 2) as i64);
                p.set("scheme", ((i / 2) % 3) as i64);
                p.set("key_class", ((i / 6) % 6) as i64);
                p.set("msg_class", ((i / 36) % LEN_CLASSES.len() as u64) as i64);
            }
            "retry-restart" => {
                p.set("reqs", x.range(2, 5) as i64);
                let nf = x.range(1, 5);
                for _ in 0..nf {
                    match x.below(6) {
                        0 => p.faults.push(Step::new("drop", &[K_REQ as i64, x.below(4) as i64])),
                        1 => p.faults.push(Step::new("drop", &[K_RESP as i64, x.below(4) as i64])),
                        2 => p.faults.push(Step::new("dup", &[*x.pick(&[K_REQ, K_RESP]) as i64, x.below(4) as i64])),
                        3 => p.faults.push(Step::new("latedup", &[K_RESP as i64, x.below(3) as i64, x.range(100, 2000) as i64])),
                        _ => {
                            let at = x.range(1, 1500) as i64;
                            p.faults.push(Step::new("crash", &[1, at, x.below(3) as i64]));
                            p.faults.push(Step::new("restart", &[1, at + x.range(10, 400) as i64]));
                        }
                    }
                }
            }
            "tamper" => {
                // mode 24 = public key AND signature crafted jointly: a quarter of the plain `tamper` runs
                let mode = if lengths && x.chance(1, 2) { 5 } else if !lengths && x.chance(1, 4) { 24 } else { x.below(N_PERTURB) as i64 };
                p.faults.push(Step::new("perturb", &[mode, x.below(1 << 20) as i64]));
            }
            "bitflip-all" => {
                p.set("msg_class", *x.pick(&[1i64, 2, 3, 16]));
            }
            "relabel" | "interop" => {
                // now and then a message at the 16-bit length boundary (65535 / 65536 / 65537 bytes)
                if x.chance(1, 16) {
                    p.set("msg_class", *x.pick(&[15i64, 36, 37]));
                }
            }
            "tags" => {}
            "registry-scale" | "verify-scale" => {
                p.set("g", (index % 2) as i64);
                // (VERIF_SCALE_N overrides the number of registrations: used once to try the thorough size in a quick run)
                let forced = std::env::var("VERIF_SCALE_N").ok().and_then(|v| v.parse::<i64>().ok());
                p.set("n", forced.unwrap_or(if tier == Tier::Thorough { (1 << 15) + 8 } else { (1 << 12) + 8 }));
                p.set("scheme", ((index / 2) % 3) as i64);
            }
            "interop-long-lists" => {
                let sizes: &[i64] = if tier == Tier::Thorough { &[(1 << 17) + 1, (1 << 18) + 3, (1 << 19) + 1, (1 << 20) + 1] } else { &[(1 << 17) + 1] };
                p.set("g", (index % 2) as i64);
                p.set("n", sizes[(index / 2) as usize % sizes.len()]);
                p.set("scheme", ((index / 2 / sizes.len() as u64) % 2 * 2) as i64);
            }
            "registry" => {
                p.set("parties", x.range(2, 8) as i64);
                if x.chance(1, 2) {
                    p.faults.push(Step::new("dup", &[K_REG as i64, x.below(4) as i64]));
                }
                if x.chance(1, 2) {
                    p.faults.push(Step::new("bitflip", &[K_REG as i64, x.below(6) as i64, 1, x.below(2000) as i64]));
                }
                if x.chance(1, 3) {
                    p.faults.push(Step::new("drop", &[K_REG as i64, x.below(6) as i64]));
                }
            }
            _ => {}
        }
        if big {
            // "arbitrarily long": 1-4 MiB messages, group and scheme rotating
            p.set("g", (index % 2) as i64);
            p.set("scheme", ((index / 2) % 3) as i64);
            p.set("msg_class", (crate::env::BIG_BASE as u64 + (index / 6) % crate::env::BIG_SIGN_LENS.len() as u64) as i64);
            p.set("key_class", x.below(6) as i64);
        }
        if lengths {
            let n = crate::env::composite_lens().len() as u64;
            p.set("g", (index % 2) as i64);
            p.set("scheme", ((index / 2) % 3) as i64);
            p.set("msg_class", (crate::env::COMPOSITE_BASE as u64 + (index / 6) % n) as i64);
            p.set("key_class", x.below(6) as i64);
        }
        p
    }
    fn run(&self, plan: &Plan, env: &Env, rec: &mut Rec) {
        let lib = env.cur;
        match plan.class.trim_end_matches("-lengths").trim_end_matches("-big") {
            "grid" | "grid-keys" | "retry-restart" => run_sign_rt(plan, lib, rec),
            "tamper" => run_tamper(plan, lib, rec),
            "bitflip-all" => run_bitflip_all(plan, lib, rec),
            "relabel" => run_relabel(plan, lib, rec),
            "tags" => run_tags(plan, lib, rec),
            "interop-long-lists" => run_long_lists(plan, lib, rec),
            "registry-scale" | "verify-scale" => run_scale(plan, lib, rec),
            "interop" => run_interop(plan, lib, rec),
            "registry" => run_registry(plan, lib, rec),
            _ => {}
        }
    }
}

pub struct Party {
    pub sk: Vec<u8>,
    pub pk: Vec<u8>,
}
pub fn party(rec: &mut Rec, lib: &dyn Lib, g: Grp, class: u64, salt: u64) -> Option<Party> {
    let sk = key_of_class(rec, lib, g, class, salt);
    let pk = rec.call(lib, g, Op::PublicKey, &[&sk]).first()?.to_vec();
    Some(Party { sk, pk })
}

// ------------------------------------------------------------------------------------------
// C01
// ------------------------------------------------------------------------------------------
fn run_sign_rt(plan: &Plan, lib: &dyn Lib, rec: &mut Rec) {
    let g = grp_of(plan.get("g"));
    let scheme = plan.get("scheme") as u8;
    let kc = plan.get("key_class") as u64;
    let mut x = Xo::derive(plan.seed, &[0x517]);
    let sk_codec = SK_CODECS[plan.get("sk_codec") as usize % SK_CODECS.len()];
    let wire = STD_CODECS[plan.get("wire") as usize % STD_CODECS.len()];
    let (client, signer, verifier) = (0usize, 1usize, 2usize);
    let mut c = Courier::new(plan.seed, 3);
    install_faults(&mut c, &plan.faults);
    let sk = key_of_class(rec, lib, g, kc, plan.seed);
    rec.case(&[1, g as u64, scheme as u64, kc, plan.get("msg_class") as u64, sk_codec as u64, wire as u64, plan.faults.len() as u64], !plan.faults.is_empty());
    // the signer keeps its key on disk in the drawn codec, written and synced before serving
    let disk_form = match recode(rec, lib, g, Ty::SecretKey, Codec::Bytes, sk_codec, &sk) {
        Out::Ok(v) => v[0].clone(),
        o => {
            rec.expect("C01", "key-survives-encoding", false, || format!("encode | SecretKey to {}: {:?}", sk_codec.name(), o));
            return;
        }
    };
    c.sim.nodes[signer].disk.write("key", &disk_form);
    c.sim.nodes[signer].disk.sync();
    let mut key_mem: Option<Vec<u8>> = None;
    let mut incarnation_loaded = u32::MAX;
    let mut first_sig: BTreeMap<Vec<u8>, Vec<u8>> = BTreeMap::new();
    let reqs = plan.get("reqs").max(1);
    for r in 0..reqs {
        rec.step += 1;
        // the first request uses the run's length class; later ones walk through other classes (long after
        // short and short after long on the same signer, the shape that exposes reused buffers / memoised state)
        let class = if r == 0 { plan.get("msg_class") as usize } else { [5usize, 1, 11, 2, 8, 0, 16][(r as usize + plan.get("msg_class") as usize) % 7] };
        let msg = message(&mut x, class);
        let mut answered = false;
        for attempt in 0..4 {
            let arrived = c.ship(client, signer, K_REQ, r as u64, vec![vec![scheme], msg.clone()]);
            if arrived.is_empty() {
                rec.probe("request-lost");
            }
            for a in arrived {
                if !c.up(signer) {
                    continue;
                }
                // (re)load the key after a restart: only durable state survives
                if incarnation_loaded != c.sim.nodes[signer].incarnation || key_mem.is_none() {
                    if incarnation_loaded != u32::MAX {
                        rec.probe("key-reloaded-after-restart");
                    }
                    incarnation_loaded = c.sim.nodes[signer].incarnation;
                    let d = c.sim.nodes[signer].disk.read("key").unwrap_or_default();
                    match c.at(signer, || recode(rec, lib, g, Ty::SecretKey, sk_codec, Codec::Bytes, &d)) {
                        Out::Ok(v) => {
                            rec.expect("C01", "key-survives-encoding", v[0] == sk, || format!("reload | key stored as {} came back different", sk_codec.name()));
                            key_mem = Some(v[0].clone());
                        }
                        o => {
                            rec.expect("C01", "key-survives-encoding", false, || format!("reload | key stored as {} cannot be decoded: {:?}", sk_codec.name(), o));
                            return;
                        }
                    }
                }
                let k = key_mem.clone().unwrap();
                let out = c.at(signer, || rec.call(lib, g, Op::Sign, &[&k, &a.parts[0], &a.parts[1]]));
                let Some(sig) = out.first().map(|b| b.to_vec()) else {
                    rec.expect("C01", "signing-succeeds", false, || format!("sign scheme={} key_class={} len={} | {:?}", scheme_name(scheme), kc, msg.len(), out));
                    continue;
                };
                let pk = c.at(signer, || rec.call(lib, g, Op::PublicKey, &[&k])).first().map(|b| b.to_vec()).unwrap_or_default();
                // deterministic across retries, duplicates and restarts
                let prev = first_sig.entry(a.parts[1].clone()).or_insert_with(|| sig.clone()).clone();
                if prev != sig || attempt > 0 {
                    rec.probe("same-request-signed-again");
                }
                rec.expect("C01", "signing-deterministic", prev == sig, || format!("determinism scheme={} | two signatures of one (key, scheme, message) differ", scheme_name(scheme)));
                // response travels in the drawn codec
                let pk_w = recode(rec, lib, g, Ty::PublicKey, Codec::Bytes, wire, &pk);
                let sig_w = recode(rec, lib, g, Ty::Signature, Codec::Bytes, wire, &sig);
                let (Some(pk_w), Some(sig_w)) = (pk_w.first().map(|b| b.to_vec()), sig_w.first().map(|b| b.to_vec())) else {
                    rec.expect("C01", "response-encodes", false, || format!("encode | pk/sig to {}", wire.name()));
                    continue;
                };
                for resp in c.ship(signer, verifier, K_RESP, r as u64, vec![pk_w, sig_w, a.parts[1].clone()]) {
                    answered = true;
                    let pk_b = c.at(verifier, || recode(rec, lib, g, Ty::PublicKey, wire, Codec::Bytes, &resp.parts[0]));
                    let sig_b = c.at(verifier, || recode(rec, lib, g, Ty::Signature, wire, Codec::Bytes, &resp.parts[1]));
                    let (Some(pk_b), Some(sig_b)) = (pk_b.first().map(|b| b.to_vec()), sig_b.first().map(|b| b.to_vec())) else {
                        rec.expect("C01", "verifies-after-encoding", false, || format!("decode | pk/sig from {} failed", wire.name()));
                        continue;
                    };
                    // a receiver that was handed the bare point tries the scheme labels in turn, or a copy of the response whose
                    // label byte was damaged arrived first: the same point under the other labels, then under its own
                    if x.chance(1, 3) && !sig_b.is_empty() {
                        for other in 0..3u8 {
                            if other != sig_b[0] {
                                let mut relabelled = sig_b.clone();
                                relabelled[0] = other;
                                rec.fault("label-damaged-copy-arrives-first");
                                let _ = c.at(verifier, || rec.call(lib, g, Op::Verify, &[&relabelled, &pk_b, &resp.parts[2]]));
                            }
                        }
                    }
                    let v = c.at(verifier, || rec.call(lib, g, Op::Verify, &[&sig_b, &pk_b, &resp.parts[2]]));
                    rec.expect("C01", "honest-signature-verifies", v.is_ok(), || {
                        format!("verify scheme={} g={} key_class={} len={} wire={} | honest signature rejected: {:?}", scheme_name(scheme), g.name(), kc, resp.parts[2].len(), wire.name(), v)
                    });
                    // and after one more trip of each component through another codec
                    let c2 = STD_CODECS[x.below(STD_CODECS.len() as u64) as usize];
                    let kc2 = SK_CODECS[x.below(SK_CODECS.len() as u64) as usize];
                    match (hop(rec, lib, g, Ty::SecretKey, kc2, &k), hop(rec, lib, g, Ty::PublicKey, c2, &pk_b), hop(rec, lib, g, Ty::Signature, c2, &sig_b)) {
                        (Ok(k2), Ok(pk2), Ok(sig2)) => {
                            let s2 = rec.call(lib, g, Op::Sign, &[&k2, &[scheme], &resp.parts[2]]);
                            rec.expect("C01", "verifies-after-encoding", s2.first() == Some(sig2.as_slice()) && pk2 == pk_b, || {
                                format!("recode {} {} | key/pk/signature changed by an encoding round trip", kc2.name(), c2.name())
                            });
                            let v = rec.call(lib, g, Op::Verify, &[&sig2, &pk2, &resp.parts[2]]);
                            rec.expect("C01", "verifies-after-encoding", v.is_ok(), || format!("recode {} | signature rejected after a round trip through {}: {:?}", c2.name(), c2.name(), v));
                        }
                        (a1, a2, a3) => {
                            rec.expect("C01", "verifies-after-encoding", false, || format!("recode {} {} | round trip failed: {:?} {:?} {:?}", kc2.name(), c2.name(), a1.err(), a2.err(), a3.err()));
                        }
                    }
                }
            }
            if answered {
                break;
            }
            rec.probe("client-retry");
            c.pass(200 * MS);
        }
    }
    // messages whose CONTENT is related to the signer's own key material (the message-augmentation scheme puts the key in
    // front of the message itself; a signing service signs registrations that start with, or are, the registrant's key):
    // pk || m, pk alone, pk without its last byte, pk with its last bit flipped, an earlier signature || m, the key's own
    // proof of possession, under the run's scheme
    if plan.class != "grid-keys" || plan.seed % 8 == 0 {
        let pk = rec.call(lib, g, Op::PublicKey, &[&sk]).first().map(|b| b.to_vec()).unwrap_or_default();
        let tail_len = 1 + x.below(40) as usize;
        let tail = x.bytes(tail_len);
        let earlier = first_sig.values().next().cloned().unwrap_or_default();
        let pop = rec.call(lib, g, Op::Pop, &[&sk]).first().map(|b| b.to_vec()).unwrap_or_default();
        let mut flipped = pk.clone();
        if let Some(l) = flipped.last_mut() {
            *l ^= 1;
        }
        let related: [(&str, Vec<u8>); 6] = [
            ("own-pk-then-message", [pk.as_slice(), tail.as_slice()].concat()),
            ("own-pk", pk.clone()),
            ("own-pk-minus-last-byte", pk[..pk.len().saturating_sub(1)].to_vec()),
            ("own-pk-last-bit-flipped-then-message", [flipped.as_slice(), tail.as_slice()].concat()),
            ("earlier-signature-then-message", [earlier.as_slice(), tail.as_slice()].concat()),
            ("own-proof-of-possession", pop),
        ];
        for (what, m) in related {
            let s1 = rec.call(lib, g, Op::Sign, &[&sk, &[scheme], &m]);
            let s2 = rec.call(lib, g, Op::Sign, &[&sk, &[scheme], &m]);
            let Some(sig) = s1.first().map(|b| b.to_vec()) else {
                rec.expect("C01", "signing-succeeds", false, || format!("sign key-related-message {} scheme={} g={} | {:?}", what, scheme_name(scheme), g.name(), s1));
                continue;
            };
            rec.expect("C01", "signing-deterministic", s2.first() == Some(sig.as_slice()), || format!("determinism key-related-message {} scheme={} | two signatures of one (key, scheme, message) differ", what, scheme_name(scheme)));
            let v = rec.call(lib, g, Op::Verify, &[&sig, &pk, &m]);
            rec.expect("C01", "honest-signature-verifies", v.is_ok(), || format!("verify key-related-message {} scheme={} g={} key_class={} len={} | honest signature rejected: {:?}", what, scheme_name(scheme), g.name(), kc, m.len(), v));
        }
    }
    rec.sample(|| format!("g={} scheme={} key_class={} msg_class={} sk_codec={} wire={} faults={}", g.name(), scheme_name(scheme), kc, plan.get("msg_class"), sk_codec.name(), wire.name(), plan.faults.len()));
    c.finish(rec);
}

// ------------------------------------------------------------------------------------------
// C02
// ------------------------------------------------------------------------------------------
const N_PERTURB: u64 = 27;

struct Tuple {
    pk: Vec<u8>,
    sig: Vec<u8>, // Signature bytes: tag || point
    msg: Vec<u8>,
}

/// independent CoreVerify decision on an encoded tuple, with the given tags
fn ref_decision(g: Grp, tags: &Tags, t: &Tuple) -> bool {
    let b = Bls::with_tags(sig_grp(g), tags.clone());
    if t.sig.len() != 1 + g.sig_len() || t.sig[0] > 2 || t.pk.len() != g.pk_len() {
        return false;
    }
    let (Some(pk), Some(sig)) = (Pt::from_bytes(&t.pk), Pt::from_bytes(&t.sig[1..])) else { return false };
    if sig.is_identity() {
        return false;
    }
    b.verify(Scheme::from_u8(t.sig[0]), &pk, &sig, &t.msg)
}

fn run_tamper(plan: &Plan, lib: &dyn Lib, rec: &mut Rec) {
    let g = grp_of(plan.get("g"));
    let scheme = plan.get("scheme") as u8;
    let mut x = Xo::derive(plan.seed, &[0x518]);
    let Some(a) = party(rec, lib, g, plan.get("key_class") as u64, plan.seed) else { return };
    let Some(b) = party(rec, lib, g, 4 + x.below(2), plan.seed ^ 0xB0B) else { return };
    let msg = message(&mut x, plan.get("msg_class") as usize);
    let Some(sig) = rec.call(lib, g, Op::Sign, &[&a.sk, &[scheme], &msg]).first().map(|v| v.to_vec()) else { return };
    let draft = Tags::draft(sig_grp(g));
    // in every run, whatever the drawn perturbation: the reference judges the honest tuple too (a signature the
    // library makes and accepts but the draft equation rejects is a wrong signature), and the message with its
    // last bit flipped / one byte appended is judged by both
    let honest = Tuple { pk: a.pk.clone(), sig: sig.clone(), msg: msg.clone() };
    let exp_h = ref_decision(g, &draft, &honest);
    let first = rec.call(lib, g, Op::Verify, &[&sig, &a.pk, &msg]);
    rec.expect("C02", "decision-equals-reference", first.is_ok() == exp_h, || format!("honest-tuple scheme={} g={} | Signature::verify says {} for the library's own signature but an independent CoreVerify (draft tags) says {}; msg_len={}", scheme_name(scheme), g.name(), first.kind(), exp_h, msg.len()));
    for which in 0..2 {
        let mut m2 = msg.clone();
        if which == 0 && !m2.is_empty() {
            let l = m2.len() - 1;
            m2[l] ^= 1;
        } else {
            m2.push(0);
        }
        let o = rec.call(lib, g, Op::Verify, &[&sig, &a.pk, &m2]);
        let e = ref_decision(g, &draft, &Tuple { pk: a.pk.clone(), sig: sig.clone(), msg: m2.clone() });
        rec.expect("C02", "decision-equals-reference", o.is_ok() == e, || format!("msg-last-bit-or-append scheme={} g={} | Signature::verify says {} but an independent CoreVerify (draft tags) says {}; msg_len={}", scheme_name(scheme), g.name(), o.kind(), e, m2.len()));
        rec.expect("C02", "altered-tuple-rejected", !o.is_ok(), || format!("msg-last-bit-or-append scheme={} g={} | altered message accepted; msg_len={}", scheme_name(scheme), g.name(), m2.len()));
    }
    // ... a signature the same key makes over the same message under an EARLIER draft's ciphersuite identifier (or another
    // near-miss of the current tag): another group element, rejected by the draft equation and by the library
    if let Some(skr) = refimpl::scalar_from_be(&a.sk) {
        let tags = refimpl::historical_tags(g.sig_len() == 48);
        let tag = &tags[(plan.seed as usize) % tags.len()];
        let bref = Bls::with_tags(sig_grp(g), draft.clone());
        let hashed: Vec<u8> = if sig[0] == 1 { let mut m = a.pk.clone(); m.extend_from_slice(&msg); m } else { msg.clone() };
        let alt = refimpl::layout::tagged(sig[0], &bref.hash_msg(&hashed, tag).mul(&skr).to_bytes());
        let o = rec.call(lib, g, Op::Verify, &[&alt, &a.pk, &msg]);
        let e = ref_decision(g, &draft, &Tuple { pk: a.pk.clone(), sig: alt.clone(), msg: msg.clone() });
        rec.expect("C02", "decision-equals-reference", o.is_ok() == e, || format!("signature-under-tag {:?} scheme={} g={} | Signature::verify says {} but an independent CoreVerify (draft tags) says {}", String::from_utf8_lossy(tag), scheme_name(scheme), g.name(), o.kind(), e));
    }
    // ... the verifier that takes its tag as an argument (`core_verify`): a signature made under (tag, shift || msg) presented
    // under (tag || shift, msg) — the same bytes once tag and message are laid end to end, another input to hash-to-curve
    // (which frames the tag by its length) — right after the honest one was verified, and the other way round
    if let Some(skr) = refimpl::scalar_from_be(&a.sk) {
        let bref = Bls::with_tags(sig_grp(g), draft.clone());
        let base_tag = b"QUUX-V01-CS02-with-".to_vec();
        let shift = vec![b'0' + (plan.seed % 10) as u8];
        let long_tag = { let mut t = base_tag.clone(); t.extend_from_slice(&shift); t };
        let m_long = { let mut m = shift.clone(); m.extend_from_slice(&msg); m };
        let s_short = bref.hash_msg(&m_long, &base_tag).mul(&skr).to_bytes();
        let s_long = bref.hash_msg(&msg, &long_tag).mul(&skr).to_bytes();
        for (k, (sg, m, tag, must)) in [(&s_short, &m_long, &base_tag, true), (&s_short, &msg, &long_tag, false), (&s_long, &msg, &long_tag, true), (&s_long, &m_long, &base_tag, false)].iter().enumerate() {
            let o = rec.call(lib, g, Op::CoreVerify, &[&a.pk, sg, m, tag]);
            rec.expect("C02", "decision-equals-reference", o.is_ok() == *must, || format!("core_verify tag-boundary-shift step {} g={} | core_verify says {} where CoreVerify over hash_to_curve(msg, tag) says {}", k, g.name(), o.kind(), must));
        }
    }
    // ... and tuples whose points never went through a decoder (the public constructors take any curve point): the
    // identity key with a small-order "signature" T satisfies the pairing equation for every message; the honest key
    // with the identity signature; a small-order key with the identity signature
    {
        let t_sig = refimpl::layout::tagged(sig[0], &refimpl::small_order_point(g.sig_len(), plan.seed).to_bytes());
        let o_sig = refimpl::layout::tagged(sig[0], &Pt::from_bytes(&sig[1..]).map(|p| p.sub(&p).to_bytes()).unwrap_or_default());
        let o_pk = Pt::from_bytes(&a.pk).map(|p| p.sub(&p).to_bytes()).unwrap_or_default();
        let t_pk = refimpl::small_order_point(g.pk_len(), plan.seed ^ 1).to_bytes();
        for (what, s_, p_) in [("pk=O sig=small-order", &t_sig, &o_pk), ("pk=honest sig=O", &o_sig, &a.pk), ("pk=small-order sig=O", &o_sig, &t_pk), ("pk=O sig=honest", &sig, &o_pk)] {
            let o = rec.call(lib, g, Op::VerifyUnchecked, &[&[0], s_, p_, &msg]);
            rec.expect("C02", "altered-tuple-rejected", !o.is_ok(), || format!("unchecked-constructor {} scheme={} g={} | a tuple with an identity / small-order component verifies", what, scheme_name(scheme), g.name()));
        }
    }
    let (mode, salt) = plan.faults.iter().find(|f| f.k == "perturb").map(|f| (f.arg(0), f.arg(1) as u64)).unwrap_or((0, 0));
    let mut c = Courier::new(plan.seed, 3);
    let mut t = Tuple { pk: a.pk.clone(), sig: sig.clone(), msg: msg.clone() };
    let sp = Pt::from_bytes(&sig[1..]).unwrap();
    let pkp = Pt::from_bytes(&a.pk).unwrap();
    let k = refimpl::scalar_from_u64(2 + salt % 1000);
    let mut via_multi = false;
    let label: &'static str = match mode {
        0 => { t.sig = refimpl::layout::tagged(sig[0], &sp.add(&sp.gen_like().mul(&k)).to_bytes()); "sig+kG" }
        1 => { t.sig = refimpl::layout::tagged(sig[0], &sp.neg().to_bytes()); "-sig" }
        2 => { t.sig = refimpl::layout::tagged(sig[0], &sp.mul(&k).to_bytes()); "k*sig" }
        3 => {
            let mut m2 = msg.clone(); m2.push(7);
            t.sig = rec.call(lib, g, Op::Sign, &[&a.sk, &[scheme], &m2]).first().map(|v| v.to_vec()).unwrap_or(sig.clone());
            "sig-of-other-message"
        }
        4 => { t.sig = rec.call(lib, g, Op::Sign, &[&b.sk, &[scheme], &msg]).first().map(|v| v.to_vec()).unwrap_or(sig.clone()); "sig-of-other-key" }
        5 => {
            if t.msg.is_empty() { t.msg.push(1) } else { let i = (salt as usize) % (t.msg.len() * 8); t.msg[i / 8] ^= 1 << (i % 8); }
            "msg-bitflip"
        }
        6 => { if t.msg.is_empty() { t.msg.push(0) } else { let l = (salt as usize) % t.msg.len(); t.msg.truncate(l); } "msg-truncated" }
        7 => { t.msg.extend_from_slice(&x.bytes(1 + (salt % 40) as usize)); "msg-extended" }
        8 => { if t.msg.is_empty() { t.msg.push(0) } else { t.msg.clear(); } "msg-emptied" }
        9 => { t.pk = b.pk.clone(); "pk-of-other-key" }
        10 => { t.pk = pkp.add(&pkp.gen_like()).to_bytes(); "pk+G" }
        11 => { t.pk = pkp.neg().to_bytes(); "-pk" }
        12 => { t.sig[0] = (sig[0] + 1) % 3; "scheme-relabelled+1" }
        13 => { t.sig[0] = (sig[0] + 2) % 3; "scheme-relabelled+2" }
        14 => { t.msg = { let mut m = a.pk.clone(); m.extend_from_slice(&msg); m }; "msg-prefixed-with-pk" }
        15 => { t.sig = refimpl::layout::tagged(sig[0], &sp.add(&sp).sub(&sp).to_bytes()); "rerandomised-representative (valid)" }
        16 | 17 => { via_multi = true; "key-sum-with-signature-sum (valid)" }
        18 => { t.msg.push(0); "msg-zero-appended" }
        19 => { t.sig = refimpl::layout::tagged(sig[0], &sp.gen_like().mul(&k).to_bytes()); "unrelated-point" }
        20 => { t.pk = pkp.mul(&k).to_bytes(); t.sig = refimpl::layout::tagged(sig[0], &sp.mul(&k).to_bytes()); "pk*k-with-sig*k (two components)" }
        21 => { t.sig = refimpl::layout::tagged(sig[0], &sp.add(&refimpl::small_order_point(g.sig_len(), salt)).to_bytes()); "sig+T(small order)" }
        22 => { t.pk = pkp.add(&refimpl::small_order_point(g.pk_len(), salt)).to_bytes(); "pk+T(small order)" }
        24 => {
            // pk' = alpha*pk + beta*G, sig' = gamma*sig + delta*H(message as hashed under pk'): coefficients from
            // {0, 1, -1, 2, k}; each stays honest (1, 0, 1, 0) half of the time. E.g. (pk+G, sig+H) IS a valid signature
            // (of the key sk+1); (pk+G, sig-H) is not. The reference decides.
            let one = refimpl::scalar_from_u64(1);
            let zero = refimpl::scalar_from_u64(0);
            let set = [zero, one, -one, one + one, k];
            let pick = |x: &mut Xo, honest: refimpl::RefScalar| if x.chance(1, 2) { honest } else { set[x.below(5) as usize] };
            let (al, be, ga, de) = (pick(&mut x, one), pick(&mut x, zero), pick(&mut x, one), pick(&mut x, zero));
            let pk2 = pkp.mul(&al).add(&pkp.gen_like().mul(&be));
            let bref = Bls::with_tags(sig_grp(g), draft.clone());
            let sch = Scheme::from_u8(sig[0]);
            let hashed: Vec<u8> = if sig[0] == 1 { let mut m = pk2.to_bytes(); m.extend_from_slice(&msg); m } else { msg.clone() };
            let h = bref.hash_msg(&hashed, draft.sig(sch));
            t.pk = pk2.to_bytes();
            t.sig = refimpl::layout::tagged(sig[0], &sp.mul(&ga).add(&h.mul(&de)).to_bytes());
            "pk-and-sig-crafted-jointly (two components)"
        }
        25 | 26 => {
            // scheme label AND message changed together, bridging the one structural difference between the schemes
            // (the augmentation scheme signs pk || msg): an Aug signature over m presented as Basic/PoP over pk || m, or a
            // Basic/PoP signature over pk || m presented as Aug over m. Only the tag inside hash-to-curve separates them.
            if sig[0] == 1 {
                t.sig[0] = if mode == 25 { 0 } else { 2 };
                t.msg = { let mut m = a.pk.clone(); m.extend_from_slice(&msg); m };
                "aug-signature-relabelled-over-pk||msg (two components)"
            } else {
                let pm = { let mut m = a.pk.clone(); m.extend_from_slice(&msg); m };
                if let Some(s2) = rec.call(lib, g, Op::Sign, &[&a.sk, &[sig[0]], &pm]).first().map(|v| v.to_vec()) {
                    t.sig = s2;
                    t.sig[0] = 1;
                }
                "signature-over-pk||msg-relabelled-aug (two components)"
            }
        }
        _ => { "in-flight-bitflip" }
    };
    rec.fault("byz-relay");
    if via_multi {
        // Σpk with Σsig over one message through MultiPublicKey / MultiSignature: a valid related tuple
        let s = if scheme == 1 { 2 } else { scheme };
        let sa = rec.call(lib, g, Op::Sign, &[&a.sk, &[s], &msg]).first().map(|v| v.to_vec());
        let sb = rec.call(lib, g, Op::Sign, &[&b.sk, &[s], &msg]).first().map(|v| v.to_vec());
        let (Some(sa), Some(sb)) = (sa, sb) else { return };
        let ms = rec.call(lib, g, Op::MultiSig, &[&sa, &sb]);
        let mpk = rec.call(lib, g, Op::MultiPk, &[&a.pk, &b.pk]);
        let (Some(ms), Some(mpk)) = (ms.first().map(|v| v.to_vec()), mpk.first().map(|v| v.to_vec())) else {
            rec.expect("C02", "related-valid-tuple-accepted", false, || "multi | accumulation of two honest signatures failed".into());
            return;
        };
        let arrived = c.ship(0, 2, K_RESP, 0, vec![mpk.clone(), ms.clone(), msg.clone()]);
        for r in arrived {
            let out = c.at(2, || rec.call(lib, g, Op::MultiVerify, &[&r.parts[1], &r.parts[0], &r.parts[2]]));
            let exp = ref_decision(g, &draft, &Tuple { pk: r.parts[0].clone(), sig: r.parts[1].clone(), msg: r.parts[2].clone() });
            rec.case(&[2, g as u64, s as u64, mode as u64], true);
            rec.expect("C02", "decision-equals-reference", out.is_ok() == exp, || format!("{} scheme={} | MultiSignature::verify says {} but CoreVerify says {}", label, scheme_name(s), out.kind(), exp));
            // and a single-signer key must not accept the sum
            let out = c.at(2, || rec.call(lib, g, Op::MultiVerify, &[&r.parts[1], &a.pk, &r.parts[2]]));
            rec.expect("C02", "altered-tuple-rejected", !out.is_ok(), || format!("multi-sum-vs-single-key scheme={} | accepted", scheme_name(s)));
        }
        c.finish(rec);
        return;
    }
    if mode == 23 || mode > 26 {
        // random in-flight corruption of the encodings
        let part = (salt % 2) as usize;
        c.fault(K_RESP, 0, NetAction::BitFlip { part, bit: (salt >> 1) as usize });
    }
    // the verifier sees the honest tuple first (as in a replay-with-modification attack), then the altered one,
    // then the honest one again: a verdict must not be remembered under a key that leaves a component out
    let first = c.at(2, || rec.call(lib, g, Op::Verify, &[&sig, &a.pk, &msg]));
    rec.expect("C02", "honest-tuple-accepted", first.is_ok(), || format!("honest-before scheme={} g={} | honest tuple rejected: {:?}", scheme_name(scheme), g.name(), first));
    let arrived = c.ship(0, 2, K_RESP, 0, vec![t.pk.clone(), t.sig.clone(), t.msg.clone()]);
    // the wire form of the response is the relay's choice too: half of the time the key and the signature reach the
    // verifier in another codec (every decoder is a way in), forged there by substituting the point bytes
    const WIRE: [Codec; 8] = [Codec::Bare, Codec::Json, Codec::JsonReader, Codec::JsonValue, Codec::TreeBin, Codec::TreeBinLend, Codec::TreeHr, Codec::BytesBox];
    let (wire_sig, wire_pk) = (if x.chance(1, 2) { Codec::Bytes } else { WIRE[x.below(8) as usize] }, if x.chance(1, 2) { Codec::Bytes } else { WIRE[x.below(8) as usize] });
    for r in arrived {
        let tt = Tuple { pk: r.parts[0].clone(), sig: r.parts[1].clone(), msg: r.parts[2].clone() };
        let plain = tt.sig.len() == sig.len() && tt.pk.len() == a.pk.len() && tt.sig.first() == sig.first();
        let sig_w = if plain && wire_sig != Codec::Bytes { crate::sc_codec::forge_point_in_codec(rec, lib, g, Ty::Signature, wire_sig, &sig, &sig[1..], &tt.sig[1..]).or_else(|| if tt.sig == sig { recode(rec, lib, g, Ty::Signature, Codec::Bytes, wire_sig, &sig).first().map(|b| b.to_vec()) } else { None }) } else { None };
        let pk_w = if plain && wire_pk != Codec::Bytes { crate::sc_codec::forge_point_in_codec(rec, lib, g, Ty::PublicKey, wire_pk, &a.pk, &a.pk, &tt.pk).or_else(|| if tt.pk == a.pk { recode(rec, lib, g, Ty::PublicKey, Codec::Bytes, wire_pk, &a.pk).first().map(|b| b.to_vec()) } else { None }) } else { None };
        let out = c.at(2, || {
            // the verifier decodes what arrived in the codec it arrived in and verifies THOSE values (no detour through the
            // byte form, whose decoder would check the points once more); a refusal to decode is a rejection
            if sig_w.is_some() || pk_w.is_some() {
                rec.probe("perturbed-tuple-delivered-in-another-codec");
                let (cs, sb) = match &sig_w { Some(w) => (wire_sig, w.clone()), None => (Codec::Bytes, tt.sig.clone()) };
                let (cp, pb) = match &pk_w { Some(w) => (wire_pk, w.clone()), None => (Codec::Bytes, tt.pk.clone()) };
                rec.call(lib, g, Op::VerifyIn, &[&[cs as u8], &sb, &[cp as u8], &pb, &tt.msg])
            } else {
                rec.call(lib, g, Op::Verify, &[&tt.sig, &tt.pk, &tt.msg])
            }
        });
        let exp = ref_decision(g, &draft, &tt);
        let changed = tt.pk != a.pk || tt.msg != msg || tt.sig != sig;
        rec.case(&[2, g as u64, scheme as u64, mode as u64, exp as u64], changed);
        rec.expect("C02", "decision-equals-reference", out.is_ok() == exp, || {
            format!("{} scheme={} g={} | Signature::verify says {} but an independent CoreVerify (draft tags) says {}; msg_len={}", label, scheme_name(scheme), g.name(), out.kind(), exp, tt.msg.len())
        });
        if label.contains("(two components)") {
            // both key and signature scaled: valid for Basic/PoP, invalid for Aug — the reference decides (above)
            rec.probe("two-component-related-tuple");
        } else if !label.contains("(valid)") && changed {
            // changed to another group element / message / key / label: must fail (unless the change
            // landed on bits that do not alter the decoded value, in which case the reference accepts too)
            let same_value = exp && Pt::from_bytes(&tt.sig[1..]) == Some(sp) && tt.sig[0] == sig[0] && tt.msg == msg && Pt::from_bytes(&tt.pk) == Some(pkp);
            if !same_value {
                rec.expect("C02", "altered-tuple-rejected", !out.is_ok(), || format!("{} scheme={} g={} | altered tuple accepted", label, scheme_name(scheme), g.name()));
            }
        } else {
            rec.expect("C02", "related-valid-tuple-accepted", out.is_ok(), || format!("{} scheme={} | valid tuple rejected: {:?}", label, scheme_name(scheme), out));
        }
    }
    let again = c.at(2, || rec.call(lib, g, Op::Verify, &[&sig, &a.pk, &msg]));
    rec.expect("C02", "honest-tuple-accepted", again.is_ok(), || format!("honest-after-{} scheme={} g={} | honest tuple rejected after an altered one was presented: {:?}", label, scheme_name(scheme), g.name(), again));
    // share verification entry points decide by the same equation
    if mode % 4 == 0 && scheme != 1 {
        let mut s32 = [0u8; 32];
        x.fill(&mut s32);
        if let Some(shares) = rec.call(lib, g, Op::Split, &[&a.sk, &u64b(2), &u64b(3), &s32]).ok() {
            let pks = rec.call(lib, g, Op::SharePk, &[&shares[0]]).first().map(|v| v.to_vec());
            let part = rec.call(lib, g, Op::ShareSign, &[&shares[0], &[scheme], &msg]).first().map(|v| v.to_vec());
            if let (Some(pks), Some(part)) = (pks, part) {
                let ok = rec.call(lib, g, Op::PkShareVerify, &[&pks, &part, &msg]);
                rec.expect("C02", "related-valid-tuple-accepted", ok.is_ok(), || format!("share scheme={} | honest share rejected: {:?}", scheme_name(scheme), ok));
                let bad = rec.call(lib, g, Op::PkShareVerify, &[&pks, &part, &t.msg]);
                let exp = ref_decision(g, &draft, &Tuple { pk: pks[1..].to_vec(), sig: refimpl::layout::tagged(part[0], &part[2..]), msg: t.msg.clone() });
                rec.expect("C02", "decision-equals-reference", bad.is_ok() == exp, || format!("share {} scheme={} | PublicKeyShare::verify says {} but CoreVerify says {}", label, scheme_name(scheme), bad.kind(), exp));
            }
        }
    }
    rec.sample(|| format!("perturbation={} scheme={} g={} msg_len={}", label, scheme_name(scheme), g.name(), msg.len()));
    c.finish(rec);
}

/// every single-bit flip of the pk and signature encodings of one honest tuple (and of a short message)
fn run_bitflip_all(plan: &Plan, lib: &dyn Lib, rec: &mut Rec) {
    let g = grp_of(plan.get("g"));
    let scheme = plan.get("scheme") as u8;
    let mut x = Xo::derive(plan.seed, &[0x519]);
    let Some(a) = party(rec, lib, g, 4 + plan.get("key_class") as u64 % 2, plan.seed) else { return };
    let msg = message(&mut x, plan.get("msg_class") as usize);
    let Some(sig) = rec.call(lib, g, Op::Sign, &[&a.sk, &[scheme], &msg]).first().map(|v| v.to_vec()) else { return };
    let draft = Tags::draft(sig_grp(g));
    let base = [a.pk.clone(), sig.clone(), msg.clone()];
    let first = rec.call(lib, g, Op::Verify, &[&sig, &a.pk, &msg]);
    rec.expect("C02", "honest-tuple-accepted", first.is_ok(), || format!("honest-before scheme={} g={} | honest tuple rejected: {:?}", scheme_name(scheme), g.name(), first));
    let sp = Pt::from_bytes(&sig[1..]);
    let pkp = Pt::from_bytes(&a.pk);
    for part in 0..3 {
        for bit in 0..base[part].len() * 8 {
            let mut t = base.clone();
            t[part][bit / 8] ^= 1 << (bit % 8);
            rec.fault("bitflip");
            let tt = Tuple { pk: t[0].clone(), sig: t[1].clone(), msg: t[2].clone() };
            let out = rec.call(lib, g, Op::Verify, &[&tt.sig, &tt.pk, &tt.msg]);
            let exp = ref_decision(g, &draft, &tt);
            rec.case(&[3, g as u64, scheme as u64, part as u64, bit as u64], true);
            rec.expect("C02", "decision-equals-reference", out.is_ok() == exp, || format!("flip part={} bit={} scheme={} g={} | verify says {} but CoreVerify says {}", part, bit, scheme_name(scheme), g.name(), out.kind(), exp));
            let same_value = exp && Pt::from_bytes(&tt.sig[1..]) == sp && tt.sig[0] == sig[0] && tt.msg == msg && Pt::from_bytes(&tt.pk) == pkp;
            if !same_value {
                rec.expect("C02", "altered-tuple-rejected", !out.is_ok(), || format!("flip part={} scheme={} g={} | bit {} flipped and still accepted", part, scheme_name(scheme), g.name(), bit));
            }
        }
    }
    rec.sample(|| format!("all single-bit flips of pk({}B) sig({}B) msg({}B) scheme={} g={}", a.pk.len(), sig.len(), msg.len(), scheme_name(scheme), g.name()));
}

// ------------------------------------------------------------------------------------------
// C05
// ------------------------------------------------------------------------------------------
fn run_tags(plan: &Plan, lib: &dyn Lib, rec: &mut Rec) {
    let mut all: Vec<(String, Vec<u8>)> = vec![];
    for g in Grp::ALL {
        let Some(d) = rec.call(lib, g, Op::Dsts, &[]).ok() else { return };
        let draft = Tags::draft(sig_grp(g));
        for (i, (name, want)) in [("basic", Some(&draft.basic)), ("aug", Some(&draft.aug)), ("pop-sig", Some(&draft.pop_sig)), ("pop-proof", Some(&draft.pop_pop)), ("elgamal", None)].iter().enumerate() {
            all.push((format!("{}:{}", g.name(), name), d[i].clone()));
            rec.case(&[5, g as u64, i as u64], true);
            if let Some(w) = want {
                rec.expect("C05", "tags-equal-draft-strings", &d[i] == *w, || format!("tag {} {} | library exposes {:?}, the draft fixes {:?}", g.name(), name, String::from_utf8_lossy(&d[i]), String::from_utf8_lossy(w)));
            }
        }
    }
    for i in 0..all.len() {
        for j in 0..i {
            rec.expect("C05", "tags-pairwise-distinct", all[i].1 != all[j].1, || format!("tags {} {} | identical: {:?}", all[i].0, all[j].0, String::from_utf8_lossy(&all[i].1)));
        }
    }
    let _ = plan;
    rec.sample(|| format!("{} tag constants enumerated: {:?}", all.len(), all.iter().map(|(n, t)| format!("{}={}", n, String::from_utf8_lossy(t))).collect::<Vec<_>>()));
}

fn run_relabel(plan: &Plan, lib: &dyn Lib, rec: &mut Rec) {
    let g = grp_of(plan.get("g"));
    let mut x = Xo::derive(plan.seed, &[0x51A]);
    let Some(a) = party(rec, lib, g, plan.get("key_class") as u64, plan.seed) else { return };
    let msg = message(&mut x, plan.get("msg_class") as usize);
    let pl = g.pk_len();
    let mut c = Courier::new(plan.seed, 2);
    let mut s32 = [0u8; 32];
    x.fill(&mut s32);
    let shares = rec.call(lib, g, Op::Split, &[&a.sk, &u64b(2), &u64b(3), &s32]).ok().unwrap_or_default();
    // points made under the SIBLING suite's tags: the other group assignment's signing tags, hashed into THIS suite's
    // signature group with this signer's key (what a peer running the other suite's identifiers over this suite's curve
    // layout produces). Every label of this suite refuses them, for the run's message and for a 32-byte digest.
    {
        let o = if g == Grp::G1 { Grp::G2 } else { Grp::G1 };
        let theirs = rec.call(lib, o, Op::Dsts, &[]).ok().unwrap_or_default();
        let mine = rec.call(lib, g, Op::Dsts, &[]).ok().unwrap_or_default();
        let digest = x.bytes(32);
        for (ti, tag) in theirs.iter().take(4).enumerate() {
            if mine.contains(tag) {
                continue;
            }
            for m in [&msg, &digest] {
                for prefixed in [false, true] {
                    let signed: Vec<u8> = if prefixed { [a.pk.as_slice(), m.as_slice()].concat() } else { m.clone() };
                    let Some(pt) = rec.call(lib, g, Op::CoreSign, &[&a.sk, &signed, tag]).first().map(|v| v.to_vec()) else { continue };
                    rec.fault("byz-sibling-suite-tag");
                    for label in 0u8..3 {
                        let sig = [&[label][..], &pt].concat();
                        let out = rec.call(lib, g, Op::Verify, &[&sig, &a.pk, m]);
                        rec.expect("C05", "foreign-tag-signature-rejected", !out.is_ok(), || format!("sibling-suite-tag #{} {:?} label={} g={} msg_len={}{} | a point signed under the other suite's tag verifies", ti, String::from_utf8_lossy(tag), scheme_name(label), g.name(), m.len(), if prefixed { " (pk || msg signed)" } else { "" }));
                    }
                    let sig = [&[2u8][..], &pt].concat();
                    let out = rec.call(lib, g, Op::MultiVerify, &[&sig, &a.pk, m]);
                    rec.expect("C05", "foreign-tag-signature-rejected", !out.is_ok(), || format!("sibling-suite-tag #{} multi-signature g={} | verifies", ti, g.name()));
                }
            }
        }
    }
    // hand-made sign-crypt ciphertexts whose payload is NOT padded to 32 bytes (a sender who knows r makes them with
    // compute_v and a signature): sealed with w under the tag of one scheme, presented under the label of another
    if let (Some((tags, _)), Some(pkp)) = (own_tags(rec, lib, g), Pt::from_bytes(&a.pk)) {
        let b = Bls::with_tags(sig_grp(g), tags.clone());
        let r = refimpl::keygen(&x.bytes(9));
        let sk_ref = refimpl::scalar_from_be(&a.sk);
        for flen in [1usize, 2, 6, 31, 33] {
            let mut frame = vec![(flen - 1) as u8];
            frame.extend(x.bytes(flen - 1));
            for from in 0u8..3 {
                let tag_from = [&tags.basic, &tags.aug, &tags.pop_sig][from as usize];
                let ct = refimpl::signcrypt_seal_framed(&b, &pkp, &frame, tag_from, &r);
                for to in 0u8..3 {
                    if to == from {
                        continue;
                    }
                    let bytes = refimpl::layout::SignCryptFields { u: ct.u.to_bytes(), v: ct.v.clone(), w: ct.w.to_bytes(), scheme: to }.build();
                    rec.fault("byz-relabel-scheme");
                    let v = rec.call(lib, g, Op::ScValid, &[&bytes]);
                    let d = rec.call(lib, g, Op::ScDecrypt, &[&bytes, &a.sk]);
                    rec.expect("C05", "relabelled-ciphertext-rejected", v.flag() != Some(true) && !matches!(d.opt_value(), Some(Some(_))), || format!("SignCryptCiphertext hand-made frame of {} bytes {}->{} g={} | sealed under one scheme's tag, valid / opened under another label: valid={:?} decrypt={:?}", flen, scheme_name(from), scheme_name(to), g.name(), v.flag(), d.opt_value().map(|o| o.is_some())));
                }
            }
        }
        let _ = sk_ref;
    }
    for from in 0u8..3 {
        let Some(sig) = rec.call(lib, g, Op::Sign, &[&a.sk, &[from], &msg]).first().map(|v| v.to_vec()) else { continue };
        let ct = rec.call(lib, g, Op::SignCrypt, &[&a.pk, &[from], &msg]).first().map(|v| v.to_vec());
        let tl = rec.call(lib, g, Op::TimeLock, &[&a.pk, &[from], &msg, b"id-1"]).first().map(|v| v.to_vec());
        // PoK is made with the message route that verifies for every scheme (pk||msg for Aug, see finding F7)
        let pmsg = if from == 1 { let mut m = a.pk.clone(); m.extend_from_slice(&msg); m } else { msg.clone() };
        let ch = rec.call(lib, g, Op::ChallengeFromHash, &[b"c05"]).first().map(|v| v.to_vec()).unwrap_or_default();
        let pok = rec.call(lib, g, Op::PokCommit, &[&pmsg, &sig]).ok().and_then(|v| rec.call(lib, g, Op::PokFinalize, &[&v[0], &v[1], &ch, &sig]).first().map(|b| (v[0].clone(), b.to_vec())));
        let pokts = rec.call(lib, g, Op::PokTsGenerate, &[&pmsg, &sig]).first().map(|v| v.to_vec());
        for to in 0u8..3 {
            if to == from {
                continue;
            }
            rec.fault("byz-relabel-scheme");
            rec.case(&[5, g as u64, from as u64, to as u64], true);
            let pair = format!("{}->{}", scheme_name(from), scheme_name(to));
            // the relay rewrites the label of each artefact in flight
            let mut relabelled = sig.clone();
            relabelled[0] = to;
            for r in c.ship(0, 1, K_RESP, 0, vec![relabelled.clone()]) {
                let out = rec.call(lib, g, Op::Verify, &[&r.parts[0], &a.pk, &msg]);
                rec.expect("C05", "relabelled-signature-rejected", !out.is_ok(), || format!("Signature {} g={} | a signature made under one scheme verifies under another", pair, g.name()));
                // the same point presented as aggregate / multi-signature under the other label
                let out = rec.call(lib, g, Op::MultiVerify, &[&r.parts[0], &a.pk, &msg]);
                rec.expect("C05", "relabelled-signature-rejected", !out.is_ok(), || format!("MultiSignature {} g={} | relabelled multi-signature verifies", pair, g.name()));
                let out = rec.call(lib, g, Op::AggVerify, &[&r.parts[0], &a.pk, &msg]);
                rec.expect("C05", "relabelled-signature-rejected", !out.is_ok(), || format!("AggregateSignature {} g={} | relabelled aggregate verifies", pair, g.name()));
            }
            // real aggregates: 2-4 signers under `from`, in the list shapes the schemes treat differently (all messages
            // distinct, ALL signers over one message, two and two), the aggregate's label rewritten to `to`, verified
            // against the very list it was made for
            {
                let n = 2 + (plan.seed as usize + to as usize) % 3;
                let signers: Vec<Party> = (0..n).filter_map(|i| party(rec, lib, g, 4 + (i as u64 % 2), plan.seed ^ (0xA66 + i as u64))).collect();
                for shape in 0..3usize {
                    let msgs: Vec<Vec<u8>> = (0..signers.len()).map(|i| { let mut m = msg.clone(); match shape { 0 => m.push(i as u8), 1 => {}, _ => m.push((i / 2) as u8) }; m }).collect();
                    let sigs: Vec<Vec<u8>> = signers.iter().zip(msgs.iter()).filter_map(|(p, m)| rec.call(lib, g, Op::Sign, &[&p.sk, &[from], m]).first().map(|v| v.to_vec())).collect();
                    if sigs.len() != signers.len() || sigs.len() < 2 {
                        continue;
                    }
                    let refs: Vec<&[u8]> = sigs.iter().map(|s| s.as_slice()).collect();
                    let Some(mut agg) = rec.call(lib, g, Op::Aggregate, &refs).first().map(|v| v.to_vec()) else { continue };
                    agg[0] = to;
                    let mut args: Vec<&[u8]> = vec![&agg];
                    for (p, m) in signers.iter().zip(msgs.iter()) {
                        args.push(&p.pk);
                        args.push(m);
                    }
                    let out = rec.call(lib, g, Op::AggVerify, &args);
                    rec.expect("C05", "relabelled-signature-rejected", !out.is_ok(), || format!("AggregateSignature-of-{} {} shape={} g={} | an aggregate made under one scheme verifies under another against its own list", signers.len(), pair, ["distinct-messages", "one-message", "two-and-two"][shape], g.name()));
                    // ... and its point presented as a multi-signature under the other label against the summed key (one message)
                    if shape == 1 {
                        let pks: Vec<&[u8]> = signers.iter().map(|p| p.pk.as_slice()).collect();
                        if let Some(mpk) = rec.call(lib, g, Op::MultiPk, &pks).first().map(|v| v.to_vec()) {
                            let out = rec.call(lib, g, Op::MultiVerify, &[&agg, &mpk, &msgs[0]]);
                            rec.expect("C05", "relabelled-signature-rejected", !out.is_ok(), || format!("MultiSignature-of-{} {} g={} | signatures of one scheme summed and relabelled verify against the summed key", signers.len(), pair, g.name()));
                        }
                    }
                }
            }
            if from != 1 && shares.len() == 3 {
                if let (Some(part), Some(pks)) = (
                    rec.call(lib, g, Op::ShareSign, &[&shares[0], &[from], &msg]).first().map(|v| v.to_vec()),
                    rec.call(lib, g, Op::SharePk, &[&shares[0]]).first().map(|v| v.to_vec()),
                ) {
                    let mut p2 = part.clone();
                    p2[0] = to;
                    let out = rec.call(lib, g, Op::PkShareVerify, &[&pks, &p2, &msg]);
                    rec.expect("C05", "relabelled-signature-rejected", !out.is_ok(), || format!("SignatureShare {} g={} | relabelled share verifies", pair, g.name()));
                }
            }
            if let Some(ct) = &ct {
                if let Some(mut f) = refimpl::layout::SignCryptFields::parse(ct, pl) {
                    f.scheme = to;
                    let b = f.build();
                    let v = rec.call(lib, g, Op::ScValid, &[&b]);
                    let d = rec.call(lib, g, Op::ScDecrypt, &[&b, &a.sk]);
                    rec.expect("C05", "relabelled-ciphertext-rejected", v.flag() == Some(false) && d.opt_value() == Some(None), || {
                        format!("SignCryptCiphertext {} g={} | relabelled ciphertext valid={:?} decrypt={:?}", pair, g.name(), v.flag(), d.opt_value().map(|o| o.is_some()))
                    });
                }
            }
            if let Some(tl) = &tl {
                // ciphertext bound to `from`; signature over the id under `to`, and the ciphertext relabelled to `to`
                let sig_to = rec.call(lib, g, Op::Sign, &[&a.sk, &[to], b"id-1"]).first().map(|v| v.to_vec()).unwrap_or_default();
                let d = rec.call(lib, g, Op::TlDecrypt, &[tl, &sig_to]);
                rec.expect("C05", "relabelled-ciphertext-rejected", d.opt_value() == Some(None), || format!("TimeCryptCiphertext {} g={} | opened with a signature of another scheme", pair, g.name()));
                if let Some(mut f) = refimpl::layout::TimeLockFields::parse(tl, pl) {
                    f.scheme = to;
                    let b = f.build();
                    let d = rec.call(lib, g, Op::TlDecrypt, &[&b, &sig_to]);
                    rec.expect("C05", "relabelled-ciphertext-rejected", d.opt_value() == Some(None), || format!("TimeCryptCiphertext-relabelled {} g={} | ciphertext relabelled to the other scheme opens with that scheme's signature", pair, g.name()));
                    let sig_from = rec.call(lib, g, Op::Sign, &[&a.sk, &[from], b"id-1"]).first().map(|v| v.to_vec()).unwrap_or_default();
                    let d = rec.call(lib, g, Op::TlDecrypt, &[&b, &sig_from]);
                    rec.expect("C05", "relabelled-ciphertext-rejected", d.opt_value() == Some(None), || format!("TimeCryptCiphertext-relabelled-orig-sig {} g={} | relabelled ciphertext opens with the original scheme's signature", pair, g.name()));
                }
            }
            if let Some((commit, pok)) = &pok {
                let mut p2 = pok.clone();
                p2[0] = to;
                let out = rec.call(lib, g, Op::PokVerify, &[&p2, &a.pk, &pmsg, &ch]);
                rec.expect("C05", "relabelled-proof-rejected", !out.is_ok(), || format!("ProofOfKnowledge {} g={} | relabelled proof verifies", pair, g.name()));
                // a commitment relabelled to another scheme must not finalize against this signature
                let mut c2 = commit.clone();
                c2[0] = to;
                let out = rec.call(lib, g, Op::PokFinalize, &[&c2, &ch, &ch, &sig]);
                rec.expect("C05", "relabelled-proof-rejected", !out.is_ok(), || format!("ProofCommitment {} g={} | commitment of one scheme finalized with a signature of another", pair, g.name()));
            }
            // a proof bound to NO scheme: made without any signature from the challenge alone (u = -y*H_to(msg), v = O, and
            // u = O with v = -y*sig_from): it must verify under no label
            if let (Some((tags, _)), Some(y), Some(sp)) = (own_tags(rec, lib, g), refimpl::scalar_from_be(&ch), Pt::from_bytes(&sig[1..])) {
                let b = Bls::with_tags(sig_grp(g), tags.clone());
                let h_to = b.hash_msg(&pmsg, tags.sig(Scheme::from_u8(to)));
                let o = sp.sub(&sp);
                for (what, u, v) in [("u=-y*H v=O", h_to.mul(&y).neg(), o.clone()), ("u=O v=-y*sig", o.clone(), sp.mul(&y).neg()), ("u=-y*H v=sig", h_to.mul(&y).neg(), sp.clone())] {
                    let forged = refimpl::layout::PokFields { tag: to, u: u.to_bytes(), v: v.to_bytes(), ts: None }.build();
                    let out = rec.call(lib, g, Op::PokVerify, &[&forged, &a.pk, &pmsg, &ch]);
                    rec.expect("C05", "relabelled-proof-rejected", !out.is_ok(), || format!("ProofOfKnowledge-forged-from-challenge {} {} g={} | a proof made without a signature of that scheme verifies", what, pair, g.name()));
                }
            }
            if let Some(p) = &pokts {
                let mut p2 = p.clone();
                p2[0] = to;
                let out = rec.call(lib, g, Op::PokTsVerify, &[&p2, &a.pk, &pmsg, &[]]);
                rec.expect("C05", "relabelled-proof-rejected", !out.is_ok(), || format!("ProofOfKnowledgeTimestamp {} g={} | relabelled proof verifies", pair, g.name()));
            }
        }
        // signature over the pk bytes vs proof of possession
        let over_pk = rec.call(lib, g, Op::Sign, &[&a.sk, &[from], &a.pk]).first().map(|v| v.to_vec()).unwrap_or_default();
        if over_pk.len() > 1 {
            let out = rec.call(lib, g, Op::PopVerify, &[&over_pk[1..], &a.pk]);
            rec.expect("C05", "signature-over-pk-is-not-a-pop", !out.is_ok(), || format!("pop {} g={} | a {} signature over the public-key bytes verifies as proof of possession", scheme_name(from), g.name(), scheme_name(from)));
        }
        if let Some(pop) = rec.call(lib, g, Op::Pop, &[&a.sk]).first().map(|v| v.to_vec()) {
            let as_sig = refimpl::layout::tagged(from, &pop);
            let out = rec.call(lib, g, Op::Verify, &[&as_sig, &a.pk, &a.pk]);
            rec.expect("C05", "pop-is-not-a-signature", !out.is_ok(), || format!("pop-as-sig {} g={} | a proof of possession verifies as a {} signature over the key bytes", scheme_name(from), g.name(), scheme_name(from)));
            // ... and presented as multi-signature / as an aggregate over the ONE-entry list [(pk, pk bytes)] (a hand-made or
            // decoded value: the constructors refuse fewer than two signatures, the verifiers take any list)
            let out = rec.call(lib, g, Op::MultiVerify, &[&as_sig, &a.pk, &a.pk]);
            rec.expect("C05", "pop-is-not-a-signature", !out.is_ok(), || format!("pop-as-multi-signature {} g={} | verifies over the key bytes", scheme_name(from), g.name()));
            let out = rec.call(lib, g, Op::AggVerify, &[&as_sig, &a.pk, &a.pk]);
            rec.expect("C05", "pop-is-not-a-signature", !out.is_ok(), || format!("pop-as-one-entry-aggregate {} g={} | a proof of possession verifies as a {} aggregate over [(pk, pk bytes)]", scheme_name(from), g.name(), scheme_name(from)));
        }
        // one-entry aggregates: the signature under its own label is what the draft's AggregateVerify accepts for n = 1 (when
        // the library takes one-entry lists at all), under the other labels it is refused
        for to in 0u8..3 {
            let mut one = sig.clone();
            one[0] = to;
            let out = rec.call(lib, g, Op::AggVerify, &[&one, &a.pk, &msg]);
            if to == from {
                if !out.is_ok() {
                    rec.probe("one-entry-aggregate-refused-under-its-own-label");
                }
            } else {
                rec.expect("C05", "relabelled-signature-rejected", !out.is_ok(), || format!("one-entry aggregate {}->{} g={} | verifies", scheme_name(from), scheme_name(to), g.name()));
            }
        }
    }
    rec.sample(|| format!("all 6 ordered scheme pairs, g={}, msg_len={}, key_class={}", g.name(), msg.len(), plan.get("key_class")));
    c.finish(rec);
}

// ------------------------------------------------------------------------------------------
// C03
// ------------------------------------------------------------------------------------------
/// C09 / C02: one process accepts the proofs (signatures over one message) of N distinct keys, one after the other — a
/// registrar, a validator set — and then offers early keys the proof of the key registered 2^k (-1, +0, +1) registrations
/// later, for every k: what a bounded table of accepted material hands out after its slots were recycled. N = 2^12 + 8
/// (quick), 2^15 + 8 (thorough).
fn run_scale(plan: &Plan, lib: &dyn Lib, rec: &mut Rec) {
    let g = grp_of(plan.get("g"));
    let n = plan.get("n").clamp(16, 1 << 17) as usize;
    let pop = plan.class == "registry-scale";
    let prop = if pop { "C09" } else { "C02" };
    let scheme = plan.get("scheme") as u8;
    // a process of its own: what the 16 simulation workers of this process register at the same time must not end up in
    // the same process-wide table (the table's slots would be recycled at other moments than the ones probed below)
    let _ = lib;
    let exe = std::env::current_exe().unwrap();
    // (the registrar works for a minute or two in the thorough tier: this worker keeps telling the watchdog that it is alive)
    let o = std::process::Command::new(&exe)
        .args(["scale-child", if pop { "pop" } else { "sig" }, &plan.get("g").to_string(), &n.to_string(), &scheme.to_string(), &plan.seed.to_string()])
        .stdout(std::process::Stdio::piped())
        .stderr(std::process::Stdio::piped())
        .spawn()
        .and_then(|mut child| {
            let started = std::time::Instant::now();
            loop {
                match child.try_wait()? {
                    Some(_) => break,
                    None if started.elapsed().as_secs() > 3600 => {
                        let _ = child.kill();
                        break;
                    }
                    None => {
                        kernel::rec::beat();
                        std::thread::sleep(std::time::Duration::from_millis(200));
                    }
                }
            }
            child.wait_with_output()
        });
    let out = match o {
        Ok(o) if o.status.success() => String::from_utf8_lossy(&o.stdout).to_string(),
        Ok(o) => {
            rec.expect(prop, "no-abort", false, || format!("scale child process g={} n={} | exited with {:?}: {}", g.name(), n, o.status.code(), String::from_utf8_lossy(&o.stderr).lines().last().unwrap_or("")));
            return;
        }
        Err(e) => {
            rec.note(format!("harness note: scale child could not be started: {}", e));
            return;
        }
    };
    rec.case(&[if pop { 9 } else { 2 }, g as u64, n as u64, 4242], true);
    let what = if pop { "proof of possession" } else { "signature" };
    let mut offered = 0u64;
    for line in out.lines() {
        let f: Vec<&str> = line.split(' ').collect();
        match f.as_slice() {
            ["OWN-REFUSED", i, when] => { rec.expect(prop, if pop { "honest-pop-verifies" } else { "honest-signature-verifies-control" }, false, || format!("scale {} g={} | key #{} of {}: its own {} is refused", when, g.name(), i, n, what)); }
            ["CROSS-ACCEPTED", i, j, d] => { rec.expect(prop, if pop { "accepted-iff-made-by-that-key" } else { "other-key-rejected" }, false, || format!("scale after {} registrations g={} | key #{} accepts the {} of key #{} (registered {} later)", n, g.name(), i, what, j, d)); }
            ["DONE", calls, offers] => {
                rec.stats.lib_calls += calls.parse::<u64>().unwrap_or(0);
                offered = offers.parse().unwrap_or(0);
                rec.expect(prop, if pop { "honest-pop-verifies" } else { "honest-signature-verifies-control" }, true, String::new);
            }
            _ => {}
        }
    }
    rec.expect(prop, "no-abort", offered > 0, || format!("scale child process g={} n={} | produced no result", g.name(), n));
    rec.sample(|| format!("{} keys registered in one process of its own, {} cross offers, g={}", n, offered, g.name()));
}

/// the registrar process of `run_scale`: `scale-child <pop|sig> <g> <n> <scheme> <seed>`
pub fn scale_child_main(args: &[String]) -> i32 {
    let env = crate::env::env();
    let lib = env.cur;
    let pop = args[0] == "pop";
    let g = grp_of(args[1].parse().unwrap_or(0));
    let n: usize = args[2].parse().unwrap_or(64);
    let scheme = [args[3].parse::<u8>().unwrap_or(0)];
    let seed: u64 = args[4].parse().unwrap_or(1);
    kernel::seams::set_entropy(Some(Xo::new(seed)));
    let msg = b"the one message every key signs".to_vec();
    let mut pks: Vec<Vec<u8>> = Vec::with_capacity(n);
    let mut proofs: Vec<Vec<u8>> = Vec::with_capacity(n);
    let mut calls = 0u64;
    let verify = |pr: &[u8], pk: &[u8]| if pop { lib.call(g, Op::PopVerify, &[pr, pk]) } else { lib.call(g, Op::Verify, &[pr, pk, &msg]) };
    for i in 0..n {
        let sk = refimpl::scalar_to_be(&refimpl::keygen(&[&seed.to_le_bytes()[..], &(i as u64).to_le_bytes()[..]].concat()));
        let Some(pk) = lib.call(g, Op::PublicKey, &[&sk]).first().map(|v| v.to_vec()) else { return 2 };
        let made = if pop { lib.call(g, Op::Pop, &[&sk]) } else { lib.call(g, Op::Sign, &[&sk, &scheme, &msg]) };
        let Some(pr) = made.first().map(|v| v.to_vec()) else { return 2 };
        if !verify(&pr, &pk).is_ok() {
            println!("OWN-REFUSED {} at-registration", i);
        }
        calls += 3;
        pks.push(pk);
        proofs.push(pr);
    }
    let mut k = 1usize;
    let mut offered = 0u64;
    while k < n {
        for d in [k.saturating_sub(1), k, k + 1] {
            for i in [0usize, 1, 2, 5, 64] {
                let j = i + d;
                if d == 0 || j >= n {
                    continue;
                }
                offered += 1;
                calls += 1;
                if verify(&proofs[j], &pks[i]).is_ok() {
                    println!("CROSS-ACCEPTED {} {} {}", i, j, d);
                }
            }
        }
        k *= 2;
    }
    for i in [0usize, 1, 2, 5, 64] {
        if i < n && !verify(&proofs[i], &pks[i]).is_ok() {
            println!("OWN-REFUSED {} after-all-registrations", i);
        }
    }
    println!("DONE {} {}", calls, offered);
    0
}

/// C03: the draft's Aggregate over VERY long lists (2^17 + 1 and more signatures of two signers, alternating): the sum
/// is a·s1 + b·s2 whatever way the library walks the list (chunks, lanes, worker threads).
fn run_long_lists(plan: &Plan, lib: &dyn Lib, rec: &mut Rec) {
    let mut xs = Xo::derive(plan.seed, &[0x10C6]);
    // the plan's size (2^k + small) and three ORDINARY sizes (no power-of-two shape): drawn from 2048..12000, 12000..40000
    let sizes = [plan.get("n").clamp(3, 1 << 21) as u64, xs.range(2048, 12000), xs.range(2048, 12000), xs.range(12000, 40000)];
    for n in sizes {
        long_list(plan, lib, rec, n);
    }
}
fn long_list(plan: &Plan, lib: &dyn Lib, rec: &mut Rec, n: u64) {
    let g = grp_of(plan.get("g"));
    let b = Bls::draft(sig_grp(g));
    let scheme = if plan.get("scheme") == 2 { Scheme::Pop } else { Scheme::Basic };
    let (k1, k2) = (refimpl::keygen(&[1, (plan.seed & 0xff) as u8]), refimpl::keygen(&[2, (plan.seed & 0xff) as u8]));
    let msg = b"one message, very many signatures".to_vec();
    let (s1, s2) = (b.sign(scheme, &k1, &msg), b.sign(scheme, &k2, &msg));
    let enc = |p: &Pt| refimpl::layout::tagged(scheme as u8, &p.to_bytes());
    let (e1, e2) = (enc(&s1), enc(&s2));
    let args: Vec<&[u8]> = (0..n).map(|i| if i % 2 == 0 { e1.as_slice() } else { e2.as_slice() }).collect();
    let want = s1.mul(&refimpl::scalar_from_u64((n + 1) / 2)).add(&s2.mul(&refimpl::scalar_from_u64(n / 2)));
    rec.case(&[3, g as u64, scheme as u64, n, 78], true);
    for op in [Op::Aggregate, Op::MultiSig] {
        let got = rec.call(lib, g, op, &args);
        rec.expect("C03", "aggregate-equals-reference", got.first() == Some(enc(&want).as_slice()), || format!("long-list {:?} scheme={} n={} g={} | the sum of {} signatures is not the draft's Aggregate: {}", op, scheme_name(scheme as u8), n, g.name(), n, match &got { Out::Ok(v) => short(&v[0]), o => format!("{:?}", o.kind()) }));
    }
    let (p1, p2) = (b.sk_to_pk(&k1).to_bytes(), b.sk_to_pk(&k2).to_bytes());
    let kargs: Vec<&[u8]> = (0..n).map(|i| if i % 2 == 0 { p1.as_slice() } else { p2.as_slice() }).collect();
    let want_pk = b.sk_to_pk(&k1).mul(&refimpl::scalar_from_u64((n + 1) / 2)).add(&b.sk_to_pk(&k2).mul(&refimpl::scalar_from_u64(n / 2)));
    let got = rec.call(lib, g, Op::MultiPk, &kargs);
    rec.expect("C03", "aggregate-equals-reference", got.first() == Some(want_pk.to_bytes().as_slice()), || format!("long-list MultiPk n={} g={} | the sum of {} keys is not a*pk1 + b*pk2", n, g.name(), n));
    rec.sample(|| format!("long list n={} scheme={} g={}", n, scheme_name(scheme as u8), g.name()));
}

fn run_interop(plan: &Plan, lib: &dyn Lib, rec: &mut Rec) {
    let g = grp_of(plan.get("g"));
    let mut x = Xo::derive(plan.seed, &[0x51B]);
    let b = Bls::draft(sig_grp(g));
    let mut c = Courier::new(plan.seed, 2);
    // KeyGen from seeds of assorted lengths
    let seed_len = *x.pick(&[0usize, 1, 16, 28, 31, 32, 33, 48, 55, 56, 63, 64, 65, 100, 119, 120, 127, 128, 255, 256, 1024, 65536]);
    let mut ikm = x.bytes(seed_len);
    // one run in five: a seed that is TEXT (what operators paste: the hex rendering of a digest, lower / upper case, with
    // a 0x prefix, base64, decimal digits, a pass phrase) — KeyGen takes the bytes as given
    if plan.seed % 5 == 0 {
        let raw = x.bytes(32 + (plan.seed as usize / 5 % 3) * 16);
        let h = kernel::plan::hex(&raw);
        ikm = match plan.seed / 5 % 6 {
            0 => h.into_bytes(),
            1 => h.to_uppercase().into_bytes(),
            2 => format!("0x{}", h).into_bytes(),
            3 => raw.iter().map(|b| b"ABCDEFGHIJKLMNOPQRSTUVWXYZabcdefghijklmnopqrstuvwxyz0123456789+/"[(*b & 63) as usize]).chain(*b"==").collect(),
            4 => raw.iter().flat_map(|b| format!("{:03}", b).into_bytes()).collect(),
            _ => b"correct horse battery staple correct horse battery staple correct horse".to_vec(),
        };
    }
    let seed_len = ikm.len();
    let sk_ref = refimpl::keygen(&ikm);
    for op in [Op::KeyFromHash, Op::KeyFromHashViaBls] {
        let out = rec.call(lib, g, op, &[&ikm]);
        rec.case(&[3, g as u64, seed_len as u64, op as u64], seed_len < 32);
        rec.expect("C03", "keygen-equals-hkdf-construction", out.first() == Some(refimpl::scalar_to_be(&sk_ref).as_slice()), || {
            format!("keygen {:?} seed_len={} g={} | library key {} differs from HKDF-SHA-256 KeyGen {}", op, seed_len, g.name(), out.first().map(short).unwrap_or_default(), short(&refimpl::scalar_to_be(&sk_ref)))
        });
    }
    // SecretKey::random(rng) = KeyGen(32 bytes drawn from the rng)
    let mut s32 = [0u8; 32];
    x.fill(&mut s32);
    // keys: edge classes and the seed-derived key
    let kc = plan.get("key_class") as u64;
    let sk_bytes = if kc == 4 { refimpl::scalar_to_be(&sk_ref) } else { key_of_class(rec, lib, g, kc, plan.seed) };
    let sk = refimpl::scalar_from_be(&sk_bytes).unwrap();
    let pk_ref = b.sk_to_pk(&sk);
    let pk = rec.call(lib, g, Op::PublicKey, &[&sk_bytes]);
    rec.expect("C03", "public-key-equals-reference", pk.first() == Some(pk_ref.to_bytes().as_slice()), || format!("pk g={} key_class={} | SkToPk differs", g.name(), kc));
    let pk_bytes = pk_ref.to_bytes();
    let msg = message(&mut x, plan.get("msg_class") as usize);
    let mut sigs_lib = vec![];
    for s in Scheme::ALL {
        let want = b.sign(s, &sk, &msg);
        let got = rec.call(lib, g, Op::Sign, &[&sk_bytes, &[s as u8], &msg]);
        rec.case(&[3, g as u64, s as u64, kc, plan.get("msg_class") as u64], kc < 4 || msg.len() > 255 || msg.is_empty());
        let want_bytes = refimpl::layout::tagged(s as u8, &want.to_bytes());
        rec.expect("C03", "signature-equals-reference", got.first() == Some(want_bytes.as_slice()), || {
            format!("sign scheme={} g={} key_class={} msg_len={} | library signature differs from the draft's CoreSign", scheme_name(s as u8), g.name(), kc, msg.len())
        });
        // mutual acceptance over the transport
        if let Some(sg) = got.first().map(|v| v.to_vec()) {
            for r in c.ship(0, 1, K_RESP, s as u64, vec![pk_bytes.clone(), sg.clone()]) {
                let ok = Pt::from_bytes(&r.parts[0]).zip(Pt::from_bytes(&r.parts[1][1..])).map(|(p, q)| b.verify(s, &p, &q, &msg)).unwrap_or(false);
                rec.expect("C03", "reference-accepts-library-signature", ok, || format!("ref-verify scheme={} g={} | the reference verifier rejects the library's signature", scheme_name(s as u8), g.name()));
            }
            sigs_lib.push(sg);
        }
        let out = rec.call(lib, g, Op::Verify, &[&want_bytes, &pk_bytes, &msg]);
        rec.expect("C03", "library-accepts-reference-signature", out.is_ok(), || format!("lib-verify scheme={} g={} | the library rejects a signature made by the reference: {:?}", scheme_name(s as u8), g.name(), out));
    }
    // a message that begins with the signer's own compressed public key (what an "already augmented?" shortcut
    // would mis-handle), and one that begins with another key's bytes
    for (what, m2) in [("own-pk-prefixed", { let mut m = pk_bytes.clone(); m.extend_from_slice(&msg); m }), ("own-pk-only", pk_bytes.clone())] {
        for s in Scheme::ALL {
            let want = refimpl::layout::tagged(s as u8, &b.sign(s, &sk, &m2).to_bytes());
            let got = rec.call(lib, g, Op::Sign, &[&sk_bytes, &[s as u8], &m2]);
            rec.case(&[3, g as u64, s as u64, what.len() as u64, 55], true);
            rec.expect("C03", "signature-equals-reference", got.first() == Some(want.as_slice()), || format!("sign {} scheme={} g={} | library signature differs from the draft's CoreSign", what, scheme_name(s as u8), g.name()));
            let out = rec.call(lib, g, Op::Verify, &[&want, &pk_bytes, &m2]);
            rec.expect("C03", "library-accepts-reference-signature", out.is_ok(), || format!("lib-verify {} scheme={} g={} | the library rejects the reference's signature: {:?}", what, scheme_name(s as u8), g.name(), out));
        }
    }
    // proof of possession
    let pop_ref = b.pop_prove(&sk);
    let pop = rec.call(lib, g, Op::Pop, &[&sk_bytes]);
    rec.expect("C03", "pop-equals-reference", pop.first() == Some(pop_ref.to_bytes().as_slice()), || format!("pop g={} key_class={} | PopProve differs from the draft", g.name(), kc));
    let out = rec.call(lib, g, Op::PopVerify, &[&pop_ref.to_bytes(), &pk_bytes]);
    rec.expect("C03", "library-accepts-reference-signature", out.is_ok(), || format!("lib-pop-verify g={} | the library rejects the reference's proof of possession", g.name()));
    if let Some(p) = pop.first() {
        let ok = Pt::from_bytes(p).map(|q| b.pop_verify(&pk_ref, &q)).unwrap_or(false);
        rec.expect("C03", "reference-accepts-library-signature", ok, || format!("ref-pop-verify g={} | the reference rejects the library's proof of possession", g.name()));
    }
    // the trait-level entry points take the domain-separation tag as an argument: (tag, message) pairs whose
    // concatenations coincide — one tag a proper prefix of the other, the message boundary shifted by the difference —
    // are different inputs to hash-to-curve (it frames the tag by its length). Back to back, both ways round.
    {
        let base_tag = b"QUUX-V01-CS02-with-".to_vec();
        let shift = x.bytes(1 + (plan.seed % 3) as usize);
        let long_tag = { let mut t = base_tag.clone(); t.extend_from_slice(&shift); t };
        let m_long = { let mut m = shift.clone(); m.extend_from_slice(&msg); m };
        let seq: [(&Vec<u8>, &Vec<u8>); 4] = [(&base_tag, &m_long), (&long_tag, &msg), (&base_tag, &m_long), (&long_tag, &msg)];
        for (k, (tag, m)) in seq.iter().enumerate() {
            let want = b.hash_msg(m, tag).mul(&sk).to_bytes();
            let got = rec.call(lib, g, Op::CoreSign, &[&sk_bytes, m, tag]);
            rec.expect("C03", "signature-equals-reference", got.first() == Some(want.as_slice()), || format!("core_sign tag-boundary-shift step {} g={} | core_sign under a {}-byte tag over a {}-byte message differs from hash_to_curve(msg, tag)*sk", k, g.name(), tag.len(), m.len()));
            // and the other pair's signature does not verify here
            let (otag, om) = seq[(k + 1) % 2];
            let other = b.hash_msg(om, otag).mul(&sk).to_bytes();
            let v = rec.call(lib, g, Op::CoreVerify, &[&pk_bytes, &other, m, tag]);
            rec.expect("C03", "library-accepts-reference-signature", !v.is_ok(), || format!("core_verify tag-boundary-shift step {} g={} | a signature made under ({}-byte tag, {}-byte message) verifies under ({}-byte tag, {}-byte message)", k, g.name(), otag.len(), om.len(), tag.len(), m.len()));
            let v = rec.call(lib, g, Op::CoreVerify, &[&pk_bytes, &want, m, tag]);
            rec.expect("C03", "library-accepts-reference-signature", v.is_ok(), || format!("core_verify own step {} g={} | the reference's signature under a caller-supplied tag is rejected: {:?}", k, g.name(), v));
        }
    }
    // aggregates: n signers, one scheme
    let n = x.range(2, 6) as usize;
    let s = *x.pick(&Scheme::ALL);
    let mut pairs = vec![];
    let mut sig_pts = vec![];
    let mut sig_bytes = vec![];
    let repeat_adjacent = x.chance(1, 3);
    // now and then the messages are a pair that collides under a cheap unkeyed 64-bit fingerprint (env::FP_COLLISIONS),
    // alternating A, B, A, ...: different messages to the draft, "the same" to a table keyed by such a fingerprint
    let fp_pairs = crate::env::fp_collision_pairs();
    let fp_pair = if !fp_pairs.is_empty() && x.chance(1, 4) { Some(fp_pairs[x.below(fp_pairs.len() as u64) as usize].clone()) } else { None };
    for i in 0..n {
        let ski = refimpl::keygen(&[i as u8, (plan.seed & 0xff) as u8, 3]);
        // (also in the Basic scheme: there the draft's AggregateVerify must refuse the list although the equation holds)
        let mi = if let Some((_, a_msg, b_msg)) = &fp_pair {
            if i % 2 == 0 { a_msg.clone() } else { b_msg.clone() }
        } else if repeat_adjacent && i > 0 && i % 2 == 1 { pairs.last().map(|(_, m): &(Pt, Vec<u8>)| m.clone()).unwrap() } else { let mut m = msg.clone(); m.push(i as u8); m };
        let sg = b.sign(s, &ski, &mi);
        let lib_sig = rec.call(lib, g, Op::Sign, &[&refimpl::scalar_to_be(&ski), &[s as u8], &mi]).first().map(|v| v.to_vec()).unwrap_or_default();
        sig_bytes.push(lib_sig);
        pairs.push((b.sk_to_pk(&ski), mi));
        sig_pts.push(sg);
    }
    let agg_ref = b.aggregate(&sig_pts);
    let args: Vec<&[u8]> = sig_bytes.iter().map(|v| v.as_slice()).collect();
    let agg = rec.call(lib, g, Op::Aggregate, &args);
    let want = refimpl::layout::tagged(s as u8, &agg_ref.to_bytes());
    rec.case(&[3, g as u64, s as u64, n as u64, repeat_adjacent as u64, 77], repeat_adjacent);
    rec.expect("C03", "aggregate-equals-reference", agg.first() == Some(want.as_slice()), || format!("aggregate scheme={} n={} g={} | Aggregate differs from the draft", scheme_name(s as u8), n, g.name()));
    let mut vargs: Vec<Vec<u8>> = vec![want.clone()];
    for (p, m) in &pairs {
        vargs.push(p.to_bytes());
        vargs.push(m.clone());
    }
    let va: Vec<&[u8]> = vargs.iter().map(|v| v.as_slice()).collect();
    let out = rec.call(lib, g, Op::AggVerify, &va);
    let exp = b.aggregate_verify(s, &pairs, &agg_ref);
    // the draft's AggregateVerify is one function of the list: also through the scheme trait with another kind of iterator
    {
        let kind = [(plan.seed % 5) as u8];
        let mut ta: Vec<&[u8]> = vec![&kind];
        ta.extend(va.iter().copied());
        let tout = rec.call(lib, g, Op::AggVerifyTrait, &ta);
        rec.expect("C03", "aggregate-verify-equals-reference", tout.is_ok() == exp, || format!("aggregate-verify via-trait-iterator-kind-{} scheme={} n={} repeated_adjacent={} g={} | the scheme trait says {}, the draft's AggregateVerify says {}", kind[0], scheme_name(s as u8), n, repeat_adjacent, g.name(), tout.kind(), exp));
    }
    rec.expect("C03", "aggregate-verify-equals-reference", out.is_ok() == exp, || format!("aggregate-verify scheme={} n={} repeated_adjacent={} g={} | library says {}, the draft's AggregateVerify says {}", scheme_name(s as u8), n, repeat_adjacent, g.name(), out.kind(), exp));
    // same-message accumulation (the draft's Aggregate of signatures / sum of keys), with a signer listed twice
    let ms = *x.pick(&[Scheme::Basic, Scheme::Pop]);
    let sk2 = refimpl::keygen(&[9, (plan.seed & 0xff) as u8]);
    let (s1, s2) = (b.sign(ms, &sk, &msg), b.sign(ms, &sk2, &msg));
    let enc = |p: &Pt| refimpl::layout::tagged(ms as u8, &p.to_bytes());
    let acc = rec.call(lib, g, Op::MultiSig, &[&enc(&s1), &enc(&s2), &enc(&s1)]);
    rec.expect("C03", "aggregate-equals-reference", acc.first() == Some(enc(&s1.add(&s2).add(&s1)).as_slice()), || format!("multi-signature repeated-signer scheme={} g={} | accumulation of [s1, s2, s1] is not the draft's Aggregate (2*s1 + s2)", scheme_name(ms as u8), g.name()));
    let pk2 = b.sk_to_pk(&sk2);
    let mpk = rec.call(lib, g, Op::MultiPk, &[&pk_bytes, &pk2.to_bytes(), &pk_bytes]);
    rec.expect("C03", "aggregate-equals-reference", mpk.first() == Some(pk_ref.add(&pk2).add(&pk_ref).to_bytes().as_slice()), || format!("multi-key repeated-signer g={} | accumulated key of [pk1, pk2, pk1] is not 2*pk1 + pk2", g.name()));
    rec.sample(|| format!("g={} key_class={} seed_len={} msg_len={} agg n={} scheme={}", g.name(), kc, seed_len, msg.len(), n, scheme_name(s as u8)));
    c.finish(rec);
}

// ------------------------------------------------------------------------------------------
// C09
// ------------------------------------------------------------------------------------------
fn run_registry(plan: &Plan, lib: &dyn Lib, rec: &mut Rec) {
    let g = grp_of(plan.get("g"));
    let k = plan.get("parties").clamp(2, 8) as usize;
    let mut x = Xo::derive(plan.seed, &[0x51C]);
    let Some((tags, _)) = own_tags(rec, lib, g) else { return };
    let b = Bls::with_tags(sig_grp(g), tags);
    let mut c = Courier::new(plan.seed, k + 1);
    install_faults(&mut c, &plan.faults);
    let registry = k;
    let mut ps = vec![];
    for i in 0..k {
        let class = if i < 4 { i as u64 } else { 4 + (i as u64 % 2) };
        let Some(p) = party(rec, lib, g, class, plan.seed.wrapping_add(i as u64)) else { return };
        let pop = rec.call(lib, g, Op::Pop, &[&p.sk]);
        let Some(pop) = pop.first().map(|v| v.to_vec()) else {
            rec.expect("C09", "pop-created", false, || format!("prove key_class={} g={} | proof_of_possession failed: {:?}", class, g.name(), pop));
            return;
        };
        // deterministic
        let again = rec.call(lib, g, Op::Pop, &[&p.sk]);
        rec.expect("C09", "pop-deterministic", again.first() == Some(pop.as_slice()), || format!("determinism key_class={} | two proofs of one key differ", class));
        ps.push((p, pop, class));
    }
    // what makes a proof valid for a key: pi == sk * H(pk) under the tree's own PoP tag
    let expected = |pk: &[u8], pop: &[u8]| -> bool {
        match (Pt::from_bytes(pk), Pt::from_bytes(pop)) {
            (Some(p), Some(q)) => !q.is_identity() && b.pop_verify(&p, &q),
            _ => false,
        }
    };
    // registration with retries over the faulty transport
    for (i, (p, pop, class)) in ps.iter().enumerate() {
        rec.step += 1;
        let mut got = false;
        for _ in 0..3 {
            for r in c.ship(i, registry, K_REG, i as u64, vec![p.pk.clone(), pop.clone()]) {
                got = true;
                let out = c.at(registry, || rec.call(lib, g, Op::PopVerify, &[&r.parts[1], &r.parts[0]]));
                let exp = expected(&r.parts[0], &r.parts[1]);
                let untouched = r.parts[0] == p.pk && r.parts[1] == *pop;
                rec.case(&[9, g as u64, *class, untouched as u64, exp as u64], !untouched);
                if untouched {
                    rec.expect("C09", "own-pop-verifies", out.is_ok(), || format!("own key_class={} g={} | honest proof of possession rejected: {:?}", class, g.name(), out));
                } else {
                    rec.probe("registration-corrupted-in-flight");
                }
                rec.expect("C09", "accepted-iff-made-by-that-key", out.is_ok() == exp, || format!("decision key_class={} g={} untouched={} | registry says {}, sk*H(pk) check says {}", class, g.name(), untouched, out.kind(), exp));
            }
            if got {
                break;
            }
            rec.probe("registration-retry");
        }
    }
    // a Byzantine registrant presents every other party's proof with its own key
    for i in 0..k {
        for j in 0..k {
            if i == j || ps[i].0.pk == ps[j].0.pk {
                continue;
            }
            rec.fault("byz-other-key");
            let out = rec.call(lib, g, Op::PopVerify, &[&ps[j].1, &ps[i].0.pk]);
            rec.case(&[9, g as u64, ps[i].2, ps[j].2, 99], true);
            rec.expect("C09", "pop-rejected-for-other-key", !out.is_ok(), || format!("cross key_classes=({},{}) g={} | proof of one key verifies for another key", ps[j].2, ps[i].2, g.name()));
        }
    }
    // perturbed proofs
    let (p, pop, class) = &ps[x.below(k as u64) as usize];
    let q = Pt::from_bytes(pop).unwrap();
    let kk = refimpl::scalar_from_u64(2 + x.below(1000));
    for (label, alt) in [("-pi", q.neg()), ("pi+G", q.add(&q.gen_like())), ("k*pi", q.mul(&kk)), ("identity", q.sub(&q)), ("2pi-pi", q.add(&q).sub(&q))] {
        rec.fault("byz-perturbed-proof");
        let bytes = alt.to_bytes();
        let out = rec.call(lib, g, Op::PopVerify, &[&bytes, &p.pk]);
        let exp = expected(&p.pk, &bytes);
        rec.case(&[9, g as u64, *class, label.len() as u64, 98], true);
        rec.expect("C09", "accepted-iff-made-by-that-key", out.is_ok() == exp, || format!("perturbed {} key_class={} g={} | registry says {}, sk*H(pk) check says {}", label, class, g.name(), out.kind(), exp));
        if alt != q {
            rec.expect("C09", "altered-pop-rejected", !out.is_ok(), || format!("perturbed {} key_class={} g={} | altered proof accepted", label, class, g.name()));
        }
    }
    // the same key's ordinary signatures over its own public-key bytes (each scheme) are other points: not proofs
    for s in 0u8..3 {
        if let Some(sg) = rec.call(lib, g, Op::Sign, &[&p.sk, &[s], &p.pk]).first().map(|v| v.to_vec()) {
            rec.fault("byz-signature-as-proof");
            let out = rec.call(lib, g, Op::PopVerify, &[&sg[1..], &p.pk]);
            let exp = expected(&p.pk, &sg[1..]);
            rec.case(&[9, g as u64, *class, s as u64, 96], true);
            rec.expect("C09", "accepted-iff-made-by-that-key", out.is_ok() == exp, || format!("own-{}-signature-over-pk key_class={} g={} | registry says {}, sk*H(pk) check says {}", scheme_name(s), class, g.name(), out.kind(), exp));
        }
    }
    // "proofs" the same key makes over its public-key bytes under the ciphersuite identifiers of EARLIER drafts and other
    // near-misses of the current tags (what a compatibility path would accept): other points, not proofs
    if let Some(skr) = refimpl::scalar_from_be(&p.sk) {
        for (ti, tag) in refimpl::historical_tags(g.sig_len() == 48).iter().enumerate() {
            let alt = b.hash_msg(&p.pk, tag).mul(&skr).to_bytes();
            rec.fault("byz-historical-tag");
            let out = rec.call(lib, g, Op::PopVerify, &[&alt, &p.pk]);
            let exp = expected(&p.pk, &alt);
            rec.case(&[9, g as u64, *class, ti as u64, 98], true);
            rec.expect("C09", "accepted-iff-made-by-that-key", out.is_ok() == exp, || format!("proof-under-tag {:?} key_class={} g={} | registry says {}, sk*H(pk) check under the library's own PoP tag says {}", String::from_utf8_lossy(tag), class, g.name(), out.kind(), exp));
        }
    }
    // the honest proof plus a point of small order (T = r*Q): other bytes, same pairing value — a decoder that
    // skips the subgroup check lets it through
    for k in 0..3u64 {
        let t = refimpl::small_order_point(g.sig_len(), plan.seed.wrapping_add(k));
        let shifted = Pt::from_bytes(pop).unwrap().add(&t).to_bytes();
        rec.fault("byz-small-order-component");
        let out = rec.call(lib, g, Op::PopVerify, &[&shifted, &p.pk]);
        rec.case(&[9, g as u64, *class, k, 97], true);
        rec.expect("C09", "altered-pop-rejected", !out.is_ok(), || format!("pi+T(small order) key_class={} g={} | the proof shifted by a small-order point (different bytes) is accepted", class, g.name()));
    }
    // a proof carrying a small-order component, presented as bytes, is a different proof: never accepted
    let off = refimpl::off_subgroup_point(g.sig_len(), plan.seed);
    let out = rec.call(lib, g, Op::PopVerify, &[&off, &p.pk]);
    rec.expect("C09", "altered-pop-rejected", !out.is_ok(), || format!("off-subgroup g={} | a point outside the subgroup accepted as proof of possession", g.name()));
    for bit in [0usize, 1, 2, 7, 8, 100, 200, 383] {
        let mut f = pop.clone();
        let bi = bit % (f.len() * 8);
        f[bi / 8] ^= 1 << (bi % 8);
        rec.fault("bitflip");
        let out = rec.call(lib, g, Op::PopVerify, &[&f, &p.pk]);
        let exp = expected(&p.pk, &f);
        rec.expect("C09", "accepted-iff-made-by-that-key", out.is_ok() == exp, || format!("bitflip {} key_class={} g={} | registry says {}, reference says {}", bi, class, g.name(), out.kind(), exp));
        if Pt::from_bytes(&f) != Some(q) {
            rec.expect("C09", "altered-pop-rejected", !out.is_ok(), || format!("bitflip {} g={} | altered proof accepted", bi, g.name()));
        }
    }
    // a registry that checks proofs LAZILY, inside the iterator it hands to the aggregate verifier (library calls nested in a
    // library call): every registrant signs a message, the registry verifies the aggregate over a list in which some
    // entries carry an altered or a foreign proof; each nested verdict must be the one the proof gets on its own
    {
        let scheme = 2u8 - (plan.seed % 3) as u8 % 3;
        let msgs: Vec<Vec<u8>> = (0..k).map(|i| format!("registrant {} signs", i).into_bytes()).collect();
        let sigs: Vec<Vec<u8>> = (0..k).filter_map(|i| rec.call(lib, g, Op::Sign, &[&ps[i].0.sk, &[scheme], &msgs[i]]).first().map(|v| v.to_vec())).collect();
        let refs: Vec<&[u8]> = sigs.iter().map(|s| s.as_slice()).collect();
        if sigs.len() == k {
            if let Some(agg) = rec.call(lib, g, Op::Aggregate, &refs).first().map(|v| v.to_vec()) {
                // proofs per entry: own, own shifted by an earlier entry's signature point, the next party's, own again ...
                let mut pops: Vec<Vec<u8>> = vec![];
                for i in 0..k {
                    let own = Pt::from_bytes(&ps[i].1).unwrap();
                    pops.push(match i % 4 {
                        1 => Pt::from_bytes(&sigs[i - 1][1..]).map(|sg| own.add(&sg).to_bytes()).unwrap_or(ps[i].1.clone()),
                        2 => ps[(i + 1) % k].1.clone(),
                        _ => ps[i].1.clone(),
                    });
                }
                let alone: Vec<u8> = (0..k).map(|i| rec.call(lib, g, Op::PopVerify, &[&pops[i], &ps[i].0.pk]).is_ok() as u8).collect();
                let mut args: Vec<&[u8]> = vec![&agg, &[1]];
                for i in 0..k {
                    args.push(&ps[i].0.pk);
                    args.push(&msgs[i]);
                    args.push(&pops[i]);
                }
                let nested = rec.call(lib, g, Op::AggVerifyReentrant, &args);
                let plain = {
                    let mut a2: Vec<&[u8]> = vec![&agg];
                    for i in 0..k {
                        a2.push(&ps[i].0.pk);
                        a2.push(&msgs[i]);
                    }
                    rec.call(lib, g, Op::AggVerify, &a2)
                };
                rec.fault("library-call-nested-in-library-call");
                let verdicts: Option<Vec<u8>> = match &nested {
                    Out::Ok(v) => v.first().cloned(),
                    Out::Rej(m) => m.split("nested verdicts ").nth(1).map(|t| t.trim_matches(|c| c == '[' || c == ']').split(',').filter_map(|x| x.trim().parse::<u8>().ok()).collect()),
                    _ => None,
                };
                rec.expect("C09", "accepted-iff-made-by-that-key", verdicts.as_deref() == Some(alone.as_slice()) || verdicts.as_ref().is_some_and(|v| v.len() < k && alone.starts_with(v)), || {
                    format!("nested-in-aggregate-verify scheme={} g={} | proofs verified from inside the iterator of aggregate_verify get {:?}, on their own {:?}", scheme_name(scheme), g.name(), verdicts, alone)
                });
                rec.expect("C09", "own-pop-verifies", nested.is_ok() == plain.is_ok() || verdicts.is_none(), || format!("nested-in-aggregate-verify scheme={} g={} | the aggregate verifies {} with lazily checked proofs and {} without", scheme_name(scheme), g.name(), nested.kind(), plain.kind()));
            }
        }
    }
    rec.sample(|| format!("g={} parties={} key classes={:?} faults={}", g.name(), k, ps.iter().map(|p| p.2).collect::<Vec<_>>(), plan.faults.len()));
    c.finish(rec);
}
