//! BYZ-IDENTITY (C04): a Byzantine party substitutes the identity point (or the zero scalar) for
//! each point-/scalar-typed field in turn — alone and together with the companion values that
//! make the pairing equation hold trivially. Oracle: never success.

use crate::courier::Courier;
use crate::driver::{Scenario, Tier};
use crate::env::*;
use crate::sc_sign::{own_tags, party};
use kernel::plan::{Plan, Step};
use kernel::rec::Rec;
use kernel::seams::Xo;
use refimpl::layout::{ElGamalFields, PokFields, SignCryptFields, TimeLockFields};
use refimpl::{Bls, Pt};
use simtypes::{Grp, Lib, Op, Out};
use std::collections::BTreeMap;

pub struct IdentSc;
pub static IDENT: IdentSc = IdentSc;

const K_BYZ: u32 = 60;

impl Scenario for IdentSc {
    fn name(&self) -> &'static str {
        "ident"
    }
    fn cfg_floor(&self) -> BTreeMap<String, i64> {
        let mut m = BTreeMap::new();
        m.insert("n".into(), 2);
        m
    }
    fn gen(&self, property: &str, class: &str, seed: u64, index: u64, tier: Tier) -> Plan {
        let mut x = Xo::derive(seed, &[0x1DE]);
        let mut p = Plan { scenario: "ident".into(), property: property.into(), seed, class: class.into(), ..Default::default() };
        p.set("g", (index % 2) as i64);
        p.set("scheme", ((index / 2) % 3) as i64);
        p.set("msg_class", pick_len_class(&mut x, false) as i64);
        p.steps.push(Step::new(class, &[index as i64]));
        if class == "agg-positions-wide" {
            // the identity entry at the positions where a narrow position counter wraps: index 255 / 256 (8 bits) in every
            // tier, 65 535 / 65 536 (16 bits) in the thorough tier only (half a minute per list)
            let wide: &[i64] = if tier == Tier::Thorough { &[254, 255, 256, 257, 1023, 1024, 2047, 2048, 3071, 3072, 4095, 4096, 6143, 6144, 8191, 8192, 65534, 65535, 65536] } else { &[254, 255, 256, 257, 1023, 2047, 3071, 4095] };
            p.set("n", wide[(index / 4 % wide.len() as u64) as usize]);
            p.set("scheme", if (index / 2) % 2 == 0 { 2 } else { 1 });
        }
        if class == "agg-positions" {
            // list length and position of the identity entry
            let n = if tier == Tier::Thorough { 2 + (index / 6 % 63) as i64 } else { *x.pick(&[2i64, 3, 4, 5, 8, 16, 33, 64]) };
            p.set("n", n);
            p.set("pos_kind", ((index / 6) % 3) as i64);
        }
        p
    }
    fn run(&self, plan: &Plan, env: &Env, rec: &mut Rec) {
        match plan.class.as_str() {
            "family" => run_family(plan, env.cur, rec),
            "agg-positions" => run_agg_positions(plan, env.cur, rec),
            "agg-positions-wide" => run_agg_positions_wide(plan, env.cur, rec),
            _ => {}
        }
    }
}

macro_rules! nv {
    ($rec:expr, $call:expr, $what:expr, $g:expr, $s:expr) => {{
        let o = $call;
        never($rec, &o, $what, $g, $s);
    }};
}

fn success(o: &Out) -> bool {
    match o {
        Out::Ok(v) => {
            // Ok(()) / Ok(value) / Some(..) / flag 1 are successes; [0] (None / invalid) is not
            !(v.len() == 1 && v[0] == [0u8])
        }
        _ => false,
    }
}

fn never(rec: &mut Rec, o: &Out, what: &str, g: Grp, scheme: u8) {
    rec.case(&[4, g as u64, scheme as u64, what.len() as u64, what.bytes().fold(0u64, |a, b| a.wrapping_mul(131).wrapping_add(b as u64))], true);
    rec.fault("byz-identity");
    rec.expect("C04", "identity-or-zero-never-accepted", !success(o), || format!("{} scheme={} g={} | returned success: {:?}", what, scheme_name(scheme), g.name(), o.kind()));
}

fn run_family(plan: &Plan, lib: &dyn Lib, rec: &mut Rec) {
    let g = grp_of(plan.get("g"));
    let scheme = plan.get("scheme") as u8;
    let (pl, sl) = (g.pk_len(), g.sig_len());
    let mut x = Xo::derive(plan.seed, &[0x1DF]);
    let Some(a) = party(rec, lib, g, 4, plan.seed) else { return };
    let Some((tags, _)) = own_tags(rec, lib, g) else { return };
    let b = Bls::with_tags(sig_grp(g), tags.clone());
    let msg = message(&mut x, plan.get("msg_class") as usize);
    let id_pk = if pl == 48 { Pt::id1() } else { Pt::id2() }.to_bytes();
    let id_sig = if sl == 48 { Pt::id1() } else { Pt::id2() }.to_bytes();
    let zero = vec![0u8; 32];
    let Some(sig) = rec.call(lib, g, Op::Sign, &[&a.sk, &[scheme], &msg]).first().map(|v| v.to_vec()) else { return };
    let osig = refimpl::layout::tagged(scheme, &id_sig);
    pairing_identities(rec, lib, g, &sig[1..], &a.pk, &id_sig, &id_pk);
    let mut c = Courier::new(plan.seed, 2);
    // everything below reaches the verifier through the transport: the substitution is made by the sending peer
    let deliver = |c: &mut Courier, parts: Vec<Vec<u8>>| -> Vec<Vec<u8>> { c.ship(0, 1, K_BYZ, 0, parts).into_iter().next().map(|a| a.parts).unwrap_or_default() };

    // --- signatures
    let p = deliver(&mut c, vec![osig.clone(), id_pk.clone(), msg.clone()]);
    if p.len() == 3 {
        nv!(rec, rec_call(rec, lib, g, Op::Verify, &[&p[0], &p[1], &p[2]]), "Signature::verify pk=O sig=O", g, scheme);
        nv!(rec, rec_call(rec, lib, g, Op::Verify, &[&sig, &p[1], &p[2]]), "Signature::verify pk=O", g, scheme);
        nv!(rec, rec_call(rec, lib, g, Op::Verify, &[&p[0], &a.pk, &p[2]]), "Signature::verify sig=O", g, scheme);
        nv!(rec, rec_call(rec, lib, g, Op::Verify, &[&p[0], &p[1], &[]]), "Signature::verify pk=O sig=O empty-msg", g, scheme);
    }
    // --- values built through the public constructors from points that were never subgroup-checked: a point T of
    // small order (r*Q for Q outside the subgroup) pairs to 1 with everything, so (pk = O, sig = T) satisfies the
    // equation although neither guard on "sig = O" fires; same with an off-subgroup companion
    {
        let t_sig = refimpl::small_order_point(sl, plan.seed).to_bytes();
        let q_sig = refimpl::off_subgroup_point(sl, plan.seed ^ 3);
        let t_pk = refimpl::small_order_point(pl, plan.seed ^ 5).to_bytes();
        for (what, sp) in [("small-order", &t_sig), ("off-subgroup", &q_sig)] {
            let ts = refimpl::layout::tagged(scheme, sp);
            nv!(rec, rec_call(rec, lib, g, Op::VerifyUnchecked, &[&[0], &ts, &id_pk, &msg]), &format!("Signature::verify pk=O sig={} (unchecked constructor)", what), g, scheme);
            nv!(rec, rec_call(rec, lib, g, Op::VerifyUnchecked, &[&[1], &ts, &id_pk, &msg]), &format!("MultiSignature::verify key=O sig={} (unchecked constructor)", what), g, scheme);
            nv!(rec, rec_call(rec, lib, g, Op::VerifyUnchecked, &[&[2], sp, &id_pk, &msg]), &format!("ProofOfPossession::verify pk=O pop={} (unchecked constructor)", what), g, scheme);
        }
        nv!(rec, rec_call(rec, lib, g, Op::VerifyUnchecked, &[&[0], &osig, &t_pk, &msg]), "Signature::verify pk=small-order sig=O (unchecked constructor)", g, scheme);
        nv!(rec, rec_call(rec, lib, g, Op::VerifyUnchecked, &[&[2], &id_sig, &t_pk, &msg]), "ProofOfPossession::verify pk=small-order pop=O (unchecked constructor)", g, scheme);
    }
    // --- multi-signature: key set {pk, -pk} accumulates to the identity; sig = O satisfies the equation
    let neg_pk = Pt::from_bytes(&a.pk).unwrap().neg().to_bytes();
    if let Some(mpk) = rec.call(lib, g, Op::MultiPk, &[&a.pk, &neg_pk]).first().map(|v| v.to_vec()) {
        nv!(rec, rec_call(rec, lib, g, Op::MultiVerify, &[&osig, &mpk, &msg]), "MultiSignature::verify key={pk,-pk} sig=O", g, scheme);
        nv!(rec, rec_call(rec, lib, g, Op::MultiVerify, &[&sig, &mpk, &msg]), "MultiSignature::verify key={pk,-pk}", g, scheme);
    }
    nv!(rec, rec_call(rec, lib, g, Op::MultiVerify, &[&osig, &a.pk, &msg]), "MultiSignature::verify sig=O", g, scheme);
    // signatures of sk and -sk over one message accumulate to the identity multi-signature
    if scheme != 1 {
        let nsk = refimpl::scalar_to_be(&(-refimpl::scalar_from_be(&a.sk).unwrap()));
        if let Some(s2) = rec.call(lib, g, Op::Sign, &[&nsk, &[scheme], &msg]).first().map(|v| v.to_vec()) {
            if let (Some(ms), Some(mpk)) = (rec.call(lib, g, Op::MultiSig, &[&sig, &s2]).first().map(|v| v.to_vec()), rec.call(lib, g, Op::MultiPk, &[&a.pk, &neg_pk]).first().map(|v| v.to_vec())) {
                nv!(rec, rec_call(rec, lib, g, Op::MultiVerify, &[&ms, &mpk, &msg]), "MultiSignature::verify accumulated-to-identity", g, scheme);
            }
        }
    }
    // --- proof of possession
    nv!(rec, rec_call(rec, lib, g, Op::PopVerify, &[&id_sig, &id_pk]), "ProofOfPossession::verify pk=O pop=O", g, scheme);
    nv!(rec, rec_call(rec, lib, g, Op::PopVerify, &[&id_sig, &a.pk]), "ProofOfPossession::verify pop=O", g, scheme);
    if let Some(pop) = rec.call(lib, g, Op::Pop, &[&a.sk]).first().map(|v| v.to_vec()) {
        nv!(rec, rec_call(rec, lib, g, Op::PopVerify, &[&pop, &id_pk]), "ProofOfPossession::verify pk=O", g, scheme);
    }
    // --- aggregate: identity aggregate over keys that cancel (same message, PoP/Aug-free construction uses pk, -pk)
    {
        let agg0 = refimpl::layout::tagged(scheme, &id_sig);
        nv!(rec, rec_call(rec, lib, g, Op::AggVerify, &[&agg0, &a.pk, &msg, &neg_pk, &msg]), "AggregateSignature::verify keys={pk,-pk} agg=O", g, scheme);
        nv!(rec, rec_call(rec, lib, g, Op::AggVerify, &[&agg0, &id_pk, &msg]), "AggregateSignature::verify pk=O agg=O", g, scheme);
        nv!(rec, rec_call(rec, lib, g, Op::AggVerify, &[&agg0, &id_pk, &msg, &id_pk, &[1, 2]]), "AggregateSignature::verify all-pk=O agg=O", g, scheme);
    }
    // --- proof of knowledge (interactive): each guard with the companion that satisfies the equation
    let pmsg = if scheme == 1 { let mut m = a.pk.clone(); m.extend_from_slice(&msg); m } else { msg.clone() };
    let h = b.hash_msg(&pmsg, tags.sig(refimpl::Scheme::from_u8(scheme)));
    let sigp = Pt::from_bytes(&sig[1..]).unwrap();
    let y = refimpl::keygen(&x.bytes(8));
    let xs = refimpl::keygen(&x.bytes(9));
    let yb = refimpl::scalar_to_be(&y);
    let mk = |u: &Pt, v: &Pt| PokFields { tag: scheme, u: u.to_bytes(), v: v.to_bytes(), ts: None }.build();
    let o_sig = sigp.sub(&sigp);
    // u = O, v = -y*sig
    nv!(rec, rec_call(rec, lib, g, Op::PokVerify, &[&mk(&o_sig, &sigp.mul(&y).neg()), &a.pk, &pmsg, &yb]), "ProofOfKnowledge::verify u=O v=-y*sig", g, scheme);
    // y = 0, u = x*H, v = -x*sig
    nv!(rec, rec_call(rec, lib, g, Op::PokVerify, &[&mk(&h.mul(&xs), &sigp.mul(&xs).neg()), &a.pk, &pmsg, &zero]), "ProofOfKnowledge::verify y=0 u=x*H v=-x*sig", g, scheme);
    // v = O, u = -y*H
    nv!(rec, rec_call(rec, lib, g, Op::PokVerify, &[&mk(&h.mul(&y).neg(), &o_sig), &a.pk, &pmsg, &yb]), "ProofOfKnowledge::verify v=O u=-y*H", g, scheme);
    // u = -y*H with a non-trivial v: the verifier's intermediate sum u + y*H is the identity
    nv!(rec, rec_call(rec, lib, g, Op::PokVerify, &[&mk(&h.mul(&y).neg(), &sigp.mul(&xs)), &a.pk, &pmsg, &yb]), "ProofOfKnowledge::verify u=-y*H (u+y*H=O) v=x*sig", g, scheme);
    nv!(rec, rec_call(rec, lib, g, Op::PokVerify, &[&mk(&h.mul(&y).neg(), &sigp), &a.pk, &pmsg, &yb]), "ProofOfKnowledge::verify u=-y*H (u+y*H=O) v=sig", g, scheme);
    // pk = O, v = O
    nv!(rec, rec_call(rec, lib, g, Op::PokVerify, &[&mk(&h.mul(&xs), &o_sig), &id_pk, &pmsg, &yb]), "ProofOfKnowledge::verify pk=O v=O", g, scheme);
    nv!(rec, rec_call(rec, lib, g, Op::PokVerify, &[&mk(&o_sig, &o_sig), &id_pk, &pmsg, &zero]), "ProofOfKnowledge::verify all-identity y=0", g, scheme);
    // timestamp variant: y = H(u || t)
    let t_now = (kernel::seams::clock_ns().unwrap_or(0) / 1_000_000) as u64;
    let yt = refimpl::pok_challenge_ts(&o_sig, t_now);
    let pts = PokFields { tag: scheme, u: o_sig.to_bytes(), v: sigp.mul(&yt).neg().to_bytes(), ts: Some(t_now) }.build();
    nv!(rec, rec_call(rec, lib, g, Op::PokTsVerify, &[&pts, &a.pk, &pmsg, &[]]), "ProofOfKnowledgeTimestamp::verify u=O v=-y*sig", g, scheme);
    let u2 = h.mul(&xs);
    let yt2 = refimpl::pok_challenge_ts(&u2, t_now);
    let pts = PokFields { tag: scheme, u: u2.to_bytes(), v: o_sig.to_bytes(), ts: Some(t_now) }.build();
    nv!(rec, rec_call(rec, lib, g, Op::PokTsVerify, &[&pts, &id_pk, &pmsg, &[]]), "ProofOfKnowledgeTimestamp::verify pk=O v=O", g, scheme);
    let _ = yt2;
    // proof generation refuses the identity signature / commitment and zero scalars
    nv!(rec, rec_call(rec, lib, g, Op::PokTsGenerate, &[&pmsg, &osig]), "ProofOfKnowledgeTimestamp::generate sig=O", g, scheme);
    let one = refimpl::scalar_to_be(&refimpl::scalar_from_u64(1));
    let commit_o = refimpl::layout::tagged(scheme, &id_sig);
    let commit_ok = refimpl::layout::tagged(scheme, &h.mul(&xs).to_bytes());
    nv!(rec, rec_call(rec, lib, g, Op::PokFinalize, &[&commit_o, &one, &yb, &sig]), "ProofCommitment::finalize commitment=O", g, scheme);
    nv!(rec, rec_call(rec, lib, g, Op::PokFinalize, &[&commit_ok, &one, &zero, &sig]), "ProofCommitment::finalize challenge=0", g, scheme);
    nv!(rec, rec_call(rec, lib, g, Op::PokFinalize, &[&commit_ok, &zero, &yb, &sig]), "ProofCommitment::finalize secret=0", g, scheme);
    nv!(rec, rec_call(rec, lib, g, Op::PokFinalize, &[&commit_ok, &one, &yb, &osig]), "ProofCommitment::finalize sig=O", g, scheme);
    // --- signcryption: (u = O, w = O) satisfies the validity pairing for any v
    if let Some(ct) = rec.call(lib, g, Op::SignCrypt, &[&a.pk, &[scheme], &msg]).first().map(|v| v.to_vec()) {
        if let Some(f) = SignCryptFields::parse(&ct, pl) {
            for (what, u, w) in [("u=O w=O", id_pk.clone(), id_sig.clone()), ("u=O", id_pk.clone(), f.w.clone()), ("w=O", f.u.clone(), id_sig.clone())] {
                let forged = SignCryptFields { u, v: f.v.clone(), w, scheme: f.scheme }.build();
                let p = deliver(&mut c, vec![forged]);
                if p.len() == 1 {
                    nv!(rec, rec_call(rec, lib, g, Op::ScValid, &[&p[0]]), &format!("SignCryptCiphertext::is_valid {}", what), g, scheme);
                    nv!(rec, rec_call(rec, lib, g, Op::ScDecrypt, &[&p[0], &a.sk]), &format!("SignCryptCiphertext::decrypt {}", what), g, scheme);
                    if let Some(k) = rec.call(lib, g, Op::ScDecKey, &[&a.sk, &p[0]]).first().map(|v| v.to_vec()) {
                        nv!(rec, rec_call(rec, lib, g, Op::DkDecrypt, &[&k, &p[0]]), &format!("SignCryptDecryptionKey::decrypt {}", what), g, scheme);
                    }
                }
            }
        }
    }
    // --- time-lock
    nv!(rec, rec_call(rec, lib, g, Op::TimeLock, &[&id_pk, &[scheme], &msg, b"id"]), "PublicKey::encrypt_time_lock pk=O", g, scheme);
    if let Some(tl) = rec.call(lib, g, Op::TimeLock, &[&a.pk, &[scheme], &msg, b"id"]).first().map(|v| v.to_vec()) {
        nv!(rec, rec_call(rec, lib, g, Op::TlDecrypt, &[&tl, &osig]), "TimeCryptCiphertext::decrypt sig=O", g, scheme);
        if let Some(mut f) = TimeLockFields::parse(&tl, pl) {
            f.u = id_pk.clone();
            let sg = rec.call(lib, g, Op::Sign, &[&a.sk, &[scheme], b"id"]).first().map(|v| v.to_vec()).unwrap_or_default();
            nv!(rec, rec_call(rec, lib, g, Op::TlDecrypt, &[&f.build(), &sg]), "TimeCryptCiphertext::decrypt u=O", g, scheme);
            nv!(rec, rec_call(rec, lib, g, Op::TlDecrypt, &[&f.build(), &osig]), "TimeCryptCiphertext::decrypt u=O sig=O", g, scheme);
        }
    }
    // a ciphertext assembled so that the pairing value is 1 (as sealing to the identity key would give): opens with sig = O unless refused
    {
        let alpha = refimpl::keygen(&x.bytes(10));
        let idp = h.sub(&h); // identity in the signature group: e(O, r*pk) = 1
        let t = refimpl::timelock_seal(&b, &Pt::from_bytes(&a.pk).unwrap(), &msg, &idp, &alpha);
        let forged = TimeLockFields { u: t.u.to_bytes(), v: t.v.to_vec(), w: t.w.clone(), scheme }.build();
        let p = deliver(&mut c, vec![forged, osig.clone()]);
        if p.len() == 2 {
            nv!(rec, rec_call(rec, lib, g, Op::TlDecrypt, &[&p[0], &p[1]]), "TimeCryptCiphertext::decrypt pairing-value-1 sig=O", g, scheme);
        }
    }
    // --- ElGamal
    nv!(rec, rec_call(rec, lib, g, Op::EgEncrypt, &[&id_pk, &a.sk]), "PublicKey::encrypt_key_el_gamal pk=O", g, scheme);
    nv!(rec, rec_call(rec, lib, g, Op::EgEncryptProof, &[&id_pk, &a.sk]), "PublicKey::encrypt_key_el_gamal_with_proof pk=O", g, scheme);
    if let Some(pr) = rec.call(lib, g, Op::EgEncryptProof, &[&a.pk, &refimpl::scalar_to_be(&xs)]).first().map(|v| v.to_vec()) {
        nv!(rec, rec_call(rec, lib, g, Op::EgProofVerify, &[&pr, &id_pk]), "ElGamalProof::verify pk=O", g, scheme);
        nv!(rec, rec_call(rec, lib, g, Op::EgVerifyDecrypt, &[&pr, &zero]), "ElGamalProof::verify_and_decrypt sk=0", g, scheme);
        if let Some(f) = ElGamalFields::parse(&pr, pl) {
            let p3 = f.proof.clone().unwrap();
            for (what, c1, c2, pp) in [
                ("c1=O", id_pk.clone(), f.c2.clone(), p3.clone()),
                ("c2=O", f.c1.clone(), id_pk.clone(), p3.clone()),
                ("c1=O c2=O", id_pk.clone(), id_pk.clone(), p3.clone()),
                ("message_proof=0", f.c1.clone(), f.c2.clone(), [zero.clone(), p3[1].clone(), p3[2].clone()]),
                ("blinder_proof=0", f.c1.clone(), f.c2.clone(), [p3[0].clone(), zero.clone(), p3[2].clone()]),
                ("challenge=0", f.c1.clone(), f.c2.clone(), [p3[0].clone(), p3[1].clone(), zero.clone()]),
                ("all-zero", id_pk.clone(), id_pk.clone(), [zero.clone(), zero.clone(), zero.clone()]),
            ] {
                let forged = ElGamalFields { c1, c2, proof: Some(pp) }.build();
                nv!(rec, rec_call(rec, lib, g, Op::EgProofVerify, &[&forged, &a.pk]), &format!("ElGamalProof::verify {}", what), g, scheme);
                nv!(rec, rec_call(rec, lib, g, Op::EgVerifyDecrypt, &[&forged, &a.sk]), &format!("ElGamalProof::verify_and_decrypt {}", what), g, scheme);
            }
        }
    }
    // trait-level verifier with a caller-supplied generator H = t*pk and blinder b = -t*m: c2 = b*pk + m*H is the
    // identity and the sigma proof is otherwise perfectly valid
    {
        let pkp = Pt::from_bytes(&a.pk).unwrap();
        let t = refimpl::keygen(&x.bytes(11));
        let m = refimpl::keygen(&x.bytes(12));
        let hgen = pkp.mul(&t);
        let blind = -(t * m);
        let r = refimpl::keygen(&x.bytes(13));
        let pr = refimpl::elgamal_prove(&b, &pkp, &hgen, &m, &blind, &r);
        if pr.c2.is_identity() {
            let args: Vec<Vec<u8>> = vec![a.pk.clone(), hgen.to_bytes(), pr.c1.to_bytes(), pr.c2.to_bytes(), refimpl::scalar_to_be(&pr.message_proof), refimpl::scalar_to_be(&pr.blinder_proof), refimpl::scalar_to_be(&pr.challenge)];
            let ar: Vec<&[u8]> = args.iter().map(|v| v.as_slice()).collect();
            nv!(rec, rec_call(rec, lib, g, Op::EgVerifyRaw, &ar), "BlsElGamal::verify_proof c2=O with consistent proof (generator t*pk, blinder -t*m)", g, scheme);
            // sanity of the construction: the same proof machinery with an ordinary blinder verifies
            let pr2 = refimpl::elgamal_prove(&b, &pkp, &hgen, &m, &r, &t);
            let args: Vec<Vec<u8>> = vec![a.pk.clone(), hgen.to_bytes(), pr2.c1.to_bytes(), pr2.c2.to_bytes(), refimpl::scalar_to_be(&pr2.message_proof), refimpl::scalar_to_be(&pr2.blinder_proof), refimpl::scalar_to_be(&pr2.challenge)];
            let ar: Vec<&[u8]> = args.iter().map(|v| v.as_slice()).collect();
            let ok = rec.call(lib, g, Op::EgVerifyRaw, &ar);
            if !ok.is_ok() {
                rec.note(format!("harness note: reference proof with a custom generator does not verify at trait level: {:?}", ok));
            } else {
                rec.probe("custom-generator-proof-construction-verified");
            }
        }
    }
    // --- the zero scalar can neither be imported from bytes nor used to sign / prove / partially sign
    for s in 0u8..3 {
        nv!(rec, rec_call(rec, lib, g, Op::Sign, &[&zero, &[s], &msg]), "SecretKey::sign sk=0", g, s);
    }
    nv!(rec, rec_call(rec, lib, g, Op::Pop, &[&zero]), "SecretKey::proof_of_possession sk=0", g, scheme);
    let mut zshare = vec![1u8];
    zshare.extend_from_slice(&[0u8; 32]);
    for s in [0u8, 2] {
        nv!(rec, rec_call(rec, lib, g, Op::ShareSign, &[&zshare, &[s], &msg]), "SecretKeyShare::sign share=0", g, s);
    }
    nv!(rec, rec_call(rec, lib, g, Op::SkFromBe, &[&zero]), "SecretKey::from_be_bytes zero", g, scheme);
    nv!(rec, rec_call(rec, lib, g, Op::SkFromLe, &[&zero]), "SecretKey::from_le_bytes zero", g, scheme);
    nv!(rec, recode(rec, lib, g, simtypes::Ty::SecretKey, simtypes::Codec::Bytes, simtypes::Codec::Bytes, &zero), "SecretKey::try_from zero", g, scheme);
    let mut ez = vec![if g == Grp::G1 { 1u8 } else { 2 }];
    ez.extend_from_slice(&zero);
    nv!(rec, rec_call(rec, lib, g, Op::EnumFromBe, &[&ez]), "SecretKeyEnum::from_be_bytes zero", g, scheme);
    nv!(rec, rec_call(rec, lib, g, Op::EnumFromLe, &[&ez]), "SecretKeyEnum::from_le_bytes zero", g, scheme);
    rec.sample(|| format!("identity / zero substitution family, scheme={} g={} msg_len={}", scheme_name(scheme), g.name(), msg.len()));
    c.finish(rec);
}

fn rec_call(rec: &mut Rec, lib: &dyn Lib, g: Grp, op: Op, args: &[&[u8]]) -> Out {
    rec.call(lib, g, op, args)
}

/// a valid aggregate with an identity-key entry inserted at each list position, n in 2..=64
/// One signer's pair (pk, m) listed n times (allowed outside the Basic scheme; the aggregate is n times its signature)
/// and the identity key appended with that same message / its own message: the identity entry sits at INDEX n.
fn run_agg_positions_wide(plan: &Plan, lib: &dyn Lib, rec: &mut Rec) {
    let g = grp_of(plan.get("g"));
    let scheme = plan.get("scheme").clamp(1, 2) as u8;
    let n = plan.get("n").clamp(2, 70_000) as usize;
    let pl = g.pk_len();
    let id_pk = if pl == 48 { Pt::id1() } else { Pt::id2() }.to_bytes();
    let Some(p) = party(rec, lib, g, 4, plan.seed) else { return };
    let m = b"one pair, many times".to_vec();
    let Some(sig) = rec.call(lib, g, Op::Sign, &[&p.sk, &[scheme], &m]).first().map(|v| v.to_vec()) else { return };
    let Some(sp) = Pt::from_bytes(&sig[1..]) else { return };
    let agg = refimpl::layout::tagged(scheme, &sp.mul(&refimpl::scalar_from_u64(n as u64)).to_bytes());
    for kind in 0..2 {
        let idm = if kind == 0 { m.clone() } else { b"identity entry with its own message".to_vec() };
        let mut a: Vec<&[u8]> = Vec::with_capacity(2 * n + 3);
        a.push(&agg);
        for _ in 0..n {
            a.push(&p.pk);
            a.push(&m);
        }
        // sanity of the construction: the list without the identity entry verifies
        if kind == 0 && n <= 300 {
            let ok = rec.call(lib, g, Op::AggVerify, &a);
            rec.expect("C04", "wide-list-construction", ok.is_ok(), || format!("wide n={} scheme={} | the honest list of n equal pairs does not verify: {:?}", n, scheme_name(scheme), ok));
        }
        a.push(&id_pk);
        a.push(&idm);
        let out = rec.call(lib, g, Op::AggVerify, &a);
        rec.case(&[4, g as u64, scheme as u64, n as u64, kind as u64, 78], true);
        rec.fault("byz-identity");
        rec.expect("C04", "identity-or-zero-never-accepted", !success(&out), || format!("AggregateSignature::verify identity-key-at-index-{} kind={} scheme={} g={} | a valid aggregate list with an identity public key appended as entry {} was accepted", n, kind, scheme_name(scheme), g.name(), n + 1));
    }
    // MANY identity keys in one list (a count, a flag byte or a bitmap of offenders that wraps): 2, 255, 256, 257 and 512
    // identity entries among a few honest pairs whose aggregate is valid for the honest entries — at the end, at the start
    // and interleaved; with the identity entries' own message and with the honest message
    if n <= 300 {
        let honest = 1 + (plan.seed % 3) as usize;
        let agg_h = refimpl::layout::tagged(scheme, &sp.mul(&refimpl::scalar_from_u64(honest as u64)).to_bytes());
        let idm = b"identity entry with its own message".to_vec();
        for count in [2usize, 255, 256, 257, 512] {
            for layout in 0..3 {
                let mut a: Vec<&[u8]> = Vec::with_capacity(2 * (count + honest) + 1);
                a.push(&agg_h);
                let (hpk, hm): (&[u8], &[u8]) = (&p.pk, &m);
                fn push_h<'a>(a: &mut Vec<&'a [u8]>, pk: &'a [u8], m: &'a [u8]) { a.push(pk); a.push(m); }
                match layout {
                    0 => { for _ in 0..honest { push_h(&mut a, hpk, hm); } for _ in 0..count { a.push(&id_pk); a.push(&idm); } }
                    1 => { for _ in 0..count { a.push(&id_pk); a.push(&m); } for _ in 0..honest { push_h(&mut a, hpk, hm); } }
                    _ => {
                        let step = count / honest.max(1) + 1;
                        let mut placed = 0;
                        for i in 0..count {
                            if i % step == 0 && placed < honest { push_h(&mut a, hpk, hm); placed += 1; }
                            a.push(&id_pk);
                            a.push(&idm);
                        }
                        while placed < honest { push_h(&mut a, hpk, hm); placed += 1; }
                    }
                }
                let out = rec.call(lib, g, Op::AggVerify, &a);
                rec.case(&[4, g as u64, scheme as u64, count as u64, layout as u64, 79], true);
                rec.fault("byz-identity");
                rec.expect("C04", "identity-or-zero-never-accepted", !success(&out), || format!("AggregateSignature::verify {}-identity-keys layout={} scheme={} g={} | a list of {} honest pairs (aggregate valid for them) and {} identity public keys was accepted", count, layout, scheme_name(scheme), g.name(), honest, count));
            }
        }
    }
    rec.sample(|| format!("scheme={} g={} identity key at index {} of a list of equal pairs", scheme_name(scheme), g.name(), n));
}

/// the trait-level pairing product over lists in which every pair, or some, contain the identity: the product is the
/// identity of the target group and splitting a list in two never changes the product (the twin back end must say the same)
fn pairing_identities(rec: &mut Rec, lib: &dyn Lib, g: Grp, sig: &[u8], pk: &[u8], id_sig: &[u8], id_pk: &[u8]) {
    for (what, list) in [
        ("all-identity-pairs", vec![id_sig, id_pk, id_sig, id_pk]),
        ("every-pair-has-an-identity-member", vec![id_sig, pk, sig, id_pk]),
        ("real-pair-then-identity-padding", vec![sig, pk, id_sig, id_pk, id_sig, id_pk]),
        ("identity-padding-then-real-pair", vec![id_sig, id_pk, sig, pk]),
        ("single-identity-pair", vec![id_sig, id_pk]),
    ] {
        let o = rec.call(lib, g, Op::PairingRaw, &list);
        let all_id = !what.contains("real-pair");
        if let Some(v) = o.clone().ok() {
            rec.expect("C04", "pairing-of-identities-is-the-identity", (v[0] == [1u8]) == all_id && v[1] == [1u8], || format!("Pairing::pairing {} g={} | product is the identity: {:?} (expected {}), split product equals whole: {:?}", what, g.name(), v[0], all_id, v[1]));
        }
    }
}

fn run_agg_positions(plan: &Plan, lib: &dyn Lib, rec: &mut Rec) {
    let g = grp_of(plan.get("g"));
    let scheme = plan.get("scheme") as u8;
    let n = plan.get("n").clamp(2, 64) as usize;
    let mut x = Xo::derive(plan.seed, &[0x1E0]);
    let pl = g.pk_len();
    let id_pk = if pl == 48 { Pt::id1() } else { Pt::id2() }.to_bytes();
    let base = message(&mut x, plan.get("msg_class") as usize);
    let mut list: Vec<(Vec<u8>, Vec<u8>)> = vec![];
    let mut sigs = vec![];
    for i in 0..n {
        let Some(p) = party(rec, lib, g, 4 + (i as u64 % 2), plan.seed.wrapping_add(i as u64)) else { return };
        let mut m = base.clone();
        // under Aug/PoP a few signers share one message (the shape in which an identity key can hide behind another key)
        if scheme == 0 || i % 3 != 1 {
            m.extend_from_slice(&(i as u16).to_be_bytes());
        }
        let Some(s) = rec.call(lib, g, Op::Sign, &[&p.sk, &[scheme], &m]).first().map(|v| v.to_vec()) else { return };
        sigs.push(s);
        list.push((p.pk, m));
    }
    let args: Vec<&[u8]> = sigs.iter().map(|v| v.as_slice()).collect();
    let Some(agg) = rec.call(lib, g, Op::Aggregate, &args).first().map(|v| v.to_vec()) else { return };
    let positions: Vec<usize> = match plan.get("pos_kind") {
        0 => vec![0, n],
        1 => vec![n / 2, (n / 2 + 1).min(n)],
        _ => vec![x.below(n as u64 + 1) as usize, n],
    };
    for pos in positions {
        for kind in 0..3 {
            let m = match kind {
                0 => b"identity entry with its own message".to_vec(),
                1 => list[pos.min(n - 1)].1.clone(),          // the message of a neighbour
                _ => list[x.below(n as u64) as usize].1.clone(), // the message of some other signer
            };
            let mut l = list.clone();
            l.insert(pos, (id_pk.clone(), m));
            let mut a: Vec<&[u8]> = vec![&agg];
            for (pk, m) in &l {
                a.push(pk);
                a.push(m);
            }
            let out = rec.call(lib, g, Op::AggVerify, &a);
            rec.case(&[4, g as u64, scheme as u64, n as u64, pos as u64, kind as u64, 77], true);
            rec.fault("byz-identity");
            rec.expect("C04", "identity-or-zero-never-accepted", !success(&out), || {
                format!("AggregateSignature::verify identity-key-in-list kind={} scheme={} g={} | n={} position={}: a valid aggregate with an identity public key inserted was accepted", kind, scheme_name(scheme), g.name(), n, pos)
            });
        }
    }
    rec.sample(|| format!("scheme={} g={} n={} identity key inserted at first/middle/last/random positions with own, neighbour's and another signer's message", scheme_name(scheme), g.name(), n));
}
