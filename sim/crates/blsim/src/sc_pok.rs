//! POK-CLOCK — prover and verifier with their own wall clocks (skew, jumps, freezes), network
//! delay vs timeout, replayed (late duplicate) proofs, and a Byzantine relay altering one
//! component. Decides C10 with an explicit clock reference model.

use crate::driver::{Scenario, Tier};
use crate::env::*;
use kernel::plan::{Plan, Step};
use kernel::rec::Rec;
use kernel::seams::Xo;
use kernel::sim::{App, Input, Msg, NetAction, NetFault, NodeId, Sim, EPOCH_NS, MS, SEC};
use refimpl::layout::PokFields;
use refimpl::Pt;
use simtypes::{Codec, Grp, Lib, Op, Out};
use std::collections::BTreeMap;

pub struct PokClock;
pub static POK: PokClock = PokClock;

const K_COMMIT: u32 = 10;
const K_CHALLENGE: u32 = 11;
const K_PROOF: u32 = 12;
const K_TSPROOF: u32 = 13;

const PROVER: NodeId = 0;
const VERIFIER: NodeId = 1;

pub const TIMEOUTS: [Option<u64>; 9] = [None, Some(0), Some(1), Some(3), Some(10), Some(1000), Some(60_000), Some(1 << 63), Some(u64::MAX)];

impl Scenario for PokClock {
    fn name(&self) -> &'static str {
        "pok"
    }
    fn cfg_floor(&self) -> BTreeMap<String, i64> {
        let mut m = BTreeMap::new();
        m.insert("msg_class".into(), 1);
        m.insert("key_class".into(), 4);
        m.insert("skew_p_ms".into(), 0);
        m
    }
    fn gen(&self, property: &str, class: &str, seed: u64, index: u64, _tier: Tier) -> Plan {
        let mut x = Xo::derive(seed, &[0x90C]);
        let mut p = Plan { scenario: "pok".into(), property: property.into(), seed, class: class.into(), ..Default::default() };
        p.set("g", (index % 2) as i64);
        p.set("scheme", ((index / 2) % 3) as i64);
        p.set("key_class", x.below(6) as i64);
        p.set("msg_class", pick_len_class(&mut x, false) as i64);
        // for the augmentation scheme: 0 = the signed message as-is, 1 = pk || msg passed as the message (see F7)
        p.set("aug_route", x.below(2) as i64);
        p.set("skew_p_ms", if x.chance(1, 2) { 0 } else { x.range(0, 7_200_000) as i64 - 3_600_000 });
        match class {
            "interactive" | "interactive-tamper" => {
                p.set("variant", 0);
                // 0..2: the library's three challenge sources; 3..9: challenges in an arithmetic relation with the
                // commitment secret x the prover drew (y = x, x+1, x-1, 2x) or at edge / limb-pattern values
                p.set("challenge_kind", if x.chance(2, 3) { x.below(3) as i64 } else { x.range(3, 9) as i64 });
                if class == "interactive-tamper" {
                    // a third of the runs: the jointly crafted pair (mode 16), otherwise one of the single-component modes
                    let mode = if x.chance(1, 3) { 16 } else { x.below(N_RELAY_I) as i64 };
                    p.faults.push(Step::new("relay", &[mode, x.below(1 << 16) as i64]));
                }
                if x.chance(1, 4) {
                    p.faults.push(Step::new("dup", &[K_PROOF as i64, 0]));
                }
            }
            _ => {
                p.set("variant", 1);
                p.set("work_tick_us", if x.chance(1, 3) { std::env::var("VERIF_WORK_TICK_US").ok().and_then(|v| v.parse().ok()).unwrap_or(400) } else { 0 });
                let ti = ((index / 6) % TIMEOUTS.len() as u64) as usize;
                p.set("timeout_idx", ti as i64);
                if x.chance(1, 10) {
                    p.set("timeout_idx", 99);
                    p.set("timeout_rand", (x.next() >> x.below(60)) as i64);
                }
                // where the elapsed time should land relative to the timeout (ns granularity):
                // 0 before, 1 just before the boundary, 2 inside the don't-care millisecond, 3 just after, 4 well after,
                // 5 negative (verifier clock behind the prover / timestamp in the future), 6 whatever the network gives
                let pos = match class {
                    "ts-future" => 5,
                    // 7: a very old proof whose age is a whole number of 2^32 (2^33, 2^34) milliseconds plus less than the timeout
                    // (49.7 days and a bit: what an age kept in 32 bits makes of it)
                    _ => *x.pick(&[0, 0, 1, 1, 2, 3, 3, 4, 6, 6, 7]),
                };
                p.set("pos", pos);
                p.set("jitter_ns", x.below(1_000_000) as i64);
                p.set("future_ms", match x.below(4) { 0 => 1, 1 => 5, 2 => x.range(1, 5000) as i64, _ => x.range(1, 3_600_000) as i64 });
                if class == "ts-tamper" {
                    p.faults.push(Step::new("relay", &[x.below(N_RELAY_T) as i64, x.below(1 << 16) as i64]));
                }
                if class == "ts-replay" || x.chance(1, 5) {
                    // a duplicate delivered late; in between the verifier's clock may jump or freeze
                    p.faults.push(Step::new("latedup", &[K_TSPROOF as i64, 0, x.range(1, 120_000) as i64]));
                    match x.below(4) {
                        0 => p.faults.push(Step::new("clock_jump", &[VERIFIER as i64, x.range(30, 500) as i64, x.range(1, 100_000) as i64])),
                        1 => p.faults.push(Step::new("clock_jump", &[VERIFIER as i64, x.range(30, 500) as i64, -(x.range(1, 100_000) as i64)])),
                        2 => p.faults.push(Step::new("clock_freeze", &[VERIFIER as i64, x.range(30, 500) as i64])),
                        _ => {}
                    }
                }
                if x.chance(1, 6) {
                    p.faults.push(Step::new("delay", &[K_TSPROOF as i64, 0, x.range(1, 5000) as i64]));
                }
            }
        }
        p
    }

    fn run(&self, plan: &Plan, env: &Env, rec: &mut Rec) {
        run_pok(plan, env.cur, rec);
    }
}

const N_RELAY_I: u64 = 17;
const N_RELAY_T: u64 = 26;

struct World<'a> {
    lib: &'a dyn Lib,
    g: Grp,
    rec: &'a mut Rec,
    plan: &'a Plan,
    scheme: u8,
    sk: Vec<u8>,
    pk: Vec<u8>,
    other_pk: Vec<u8>,
    msg: Vec<u8>,    // what the signature is over
    pmsg: Vec<u8>,   // what is passed to generate/verify as the message
    sig: Vec<u8>,
    // prover volatile state
    secret: Option<Vec<u8>>,
    commitment: Option<Vec<u8>>,
    // verifier volatile state
    challenge: Option<Vec<u8>>,
    first_ts_delivery_done: bool,
    ts_deliveries: u32,
    relay: Option<(i64, i64)>,
    prover_clock_at_generate: i128,
}

fn timeout_of(plan: &Plan) -> Option<u64> {
    let i = plan.get("timeout_idx");
    if i == 99 {
        Some(plan.get("timeout_rand") as u64)
    } else {
        TIMEOUTS[(i as usize) % TIMEOUTS.len()]
    }
}

impl<'a> World<'a> {
    /// the PoK verification equation, evaluated by the reference arithmetic with the tree's own tags
    fn ref_accepts(&mut self, proof: &[u8], pk: &[u8], msg: &[u8], challenge: &[u8]) -> bool {
        let Some(f) = PokFields::parse(proof, self.g.sig_len()) else { return false };
        let Some(dsts) = self.rec.call(self.lib, self.g, Op::Dsts, &[]).ok() else { return false };
        let (Some(u), Some(v), Some(pkp), Some(y)) = (Pt::from_bytes(&f.u), Pt::from_bytes(&f.v), Pt::from_bytes(pk), refimpl::scalar_from_be(challenge)) else { return false };
        if f.tag > 2 { return false; }
        let b = refimpl::Bls::draft(sig_grp(self.g));
        refimpl::pok_verify(&b, &u, &v, &pkp, &y, msg, &dsts[f.tag as usize])
    }
    fn tag(&self) -> u8 {
        self.scheme
    }
    fn sig_point(&self) -> Option<Pt> {
        Pt::from_bytes(&self.sig[1..])
    }
    /// Byzantine relay on a proof in flight. Returns (altered bytes, altered pk, altered msg, altered challenge, label, value_changed)
    fn relay_apply(&mut self, mode: i64, salt: i64, proof: &[u8], challenge: Option<&[u8]>) -> (Vec<u8>, Vec<u8>, Vec<u8>, Option<Vec<u8>>, &'static str) {
        let sl = self.g.sig_len();
        let mut f = PokFields::parse(proof, sl).expect("own proof parses");
        let mut pk = self.pk.clone();
        let mut msg = self.pmsg.clone();
        let mut ch = challenge.map(|c| c.to_vec());
        let u = Pt::from_bytes(&f.u);
        let v = Pt::from_bytes(&f.v);
        let k = refimpl::scalar_from_u64(2 + (salt as u64 % 97));
        let label: &'static str;
        match mode {
            0 => { f.u = u.unwrap().neg().to_bytes(); label = "u-neg"; }
            1 => { let p = u.unwrap(); f.u = p.add(&p.gen_like()).to_bytes(); label = "u-plus-G"; }
            2 => { f.u = u.unwrap().mul(&k).to_bytes(); label = "u-times-k"; }
            3 => { f.v = v.unwrap().neg().to_bytes(); label = "v-neg"; }
            4 => { let p = v.unwrap(); f.v = p.add(&p.gen_like()).to_bytes(); label = "v-plus-G"; }
            5 => { f.v = v.unwrap().mul(&k).to_bytes(); label = "v-times-k"; }
            6 => { std::mem::swap(&mut f.u, &mut f.v); label = "u-v-swapped"; }
            7 => { pk = self.other_pk.clone(); label = "pk-other"; }
            8 => { let p = Pt::from_bytes(&pk).unwrap(); pk = p.add(&p.gen_like()).to_bytes(); label = "pk-plus-G"; }
            9 => { pk = Pt::from_bytes(&pk).unwrap().neg().to_bytes(); label = "pk-neg"; }
            10 => {
                if msg.is_empty() { msg.push(1); } else { let i = (salt as usize) % (msg.len() * 8); msg[i / 8] ^= 1 << (i % 8); }
                label = "msg-bitflip";
            }
            11 => { msg.push((salt & 0xff) as u8); label = "msg-extended"; }
            12 => {
                if msg.is_empty() { msg.push(0); } else { msg.truncate(msg.len() - 1); }
                label = "msg-truncated";
            }
            13 => { f.tag = (f.tag + 1 + (salt as u8 % 2)) % 3; label = "scheme-relabelled"; }
            14 => {
                // another challenge (interactive) / timestamp + 1 (timestamp variant)
                match (&mut ch, &mut f.ts) {
                    (Some(c), _) => { let l = c.len() - 1; c[l] ^= 1 + (salt as u8 & 0x7e); label = "challenge-other"; }
                    (None, Some(t)) => { *t = t.wrapping_add(1); label = "ts-plus-1"; }
                    _ => { label = "none"; }
                }
            }
            15 => {
                match (&mut ch, &mut f.ts) {
                    (Some(c), _) => { *c = refimpl::scalar_to_be(&refimpl::keygen(&salt.to_le_bytes())); label = "challenge-fresh"; }
                    (None, Some(t)) => { *t = t.wrapping_sub(1); label = "ts-minus-1"; }
                    _ => { label = "none"; }
                }
            }
            16 if challenge.is_some() => {
                // BOTH components crafted jointly from what a prover knows: u' = alpha*u + beta*H(m), v' = gamma*v + delta*sig
                // with coefficients from {0, 1, -1, 2, y, -y, y+1, 1-y}; each stays at its honest value (1, 0, 1, 0) half
                // of the time. Whether the pair is valid is decided by the reference equation.
                let y = refimpl::scalar_from_be(challenge.unwrap()).unwrap_or(refimpl::scalar_from_u64(3));
                let one = refimpl::scalar_from_u64(1);
                let zero = refimpl::scalar_from_u64(0);
                let set = [zero, one, -one, one + one, y, -y, y + one, one - y];
                let mut xr = Xo::derive(self.plan.seed ^ salt as u64, &[0xA19]);
                let pick = |xr: &mut Xo, honest: refimpl::RefScalar| if xr.chance(1, 2) { honest } else { set[xr.below(8) as usize] };
                let named = [
                    (zero, -y, zero, zero),       // u = -y*H, v = O: both pairing arguments degenerate
                    (zero, zero, zero, -y),       // u = O, v = -y*sig: satisfies the equation with an identity commitment
                    (zero, -y, zero, one),        // u = -y*H (intermediate sum is the identity), v = sig
                    (zero, -y, one, zero),        // u = -y*H with the honest v
                    (zero, one - y, zero, -one),  // a VALID fresh proof (x = 1 - y)
                    (zero, one, zero, -(one + y)), // a VALID fresh proof (x = 1)
                    (one, y, one, y),             // u + y*H, v + y*sig: invalid
                    (one, one, one, -one),        // a VALID shift of the honest proof (x + 1)
                ];
                let (al, be, ga, de) = if xr.chance(1, 2) { named[xr.below(named.len() as u64) as usize] } else { (pick(&mut xr, one), pick(&mut xr, zero), pick(&mut xr, one), pick(&mut xr, zero)) };
                let dsts = self.rec.call(self.lib, self.g, Op::Dsts, &[]).ok().unwrap_or_default();
                let b = refimpl::Bls::draft(sig_grp(self.g));
                if let (Some(up), Some(vp), Some(sp), Some(dst)) = (u, v, self.sig_point(), dsts.get(f.tag as usize)) {
                    let a = b.hash_msg(&msg, dst);
                    f.u = up.mul(&al).add(&a.mul(&be)).to_bytes();
                    f.v = vp.mul(&ga).add(&sp.mul(&de)).to_bytes();
                }
                label = "u-and-v-crafted-jointly";
            }
            16 => { f.ts = Some(0); label = "ts-zero"; }
            17 => { f.ts = Some(1u64 << 63); label = "ts-2^63"; }
            18 => { f.ts = Some(u64::MAX); label = "ts-max"; }
            19 => { f.ts = Some(u64::MAX - (salt as u64 % 1000)); label = "ts-near-max"; }
            20 => { f.ts = Some((salt as u64) << 20); label = "ts-random"; }
            21 => { f.ts = f.ts.map(|t| t + 1 + (salt as u64 % 100_000)); label = "ts-future"; }
            22 => { f.ts = f.ts.map(|t| t.saturating_sub(1 + (salt as u64 % 100_000))); label = "ts-past"; }
            23 => { f.ts = Some(i64::MAX as u64 / 1_000_000 + (salt as u64 % 5)); label = "ts-duration-edge"; }
            24 => { f.ts = Some(u64::MAX / 1000 + (salt as u64 % 3)); label = "ts-secs-edge"; }
            _ => { f.ts = f.ts.map(|t| t ^ (1 << (salt as u64 % 64))); label = "ts-bitflip"; }
        }
        (f.build(), pk, msg, ch, label)
    }

    fn verify_ts_at_delivery(&mut self, sim: &mut Sim, proof_bytes: &[u8], pk: &[u8], pmsg: &[u8], tampered: Option<&'static str>, honest: &[u8]) {
        let sl = self.g.sig_len();
        let Some(f) = PokFields::parse(proof_bytes, sl) else { return };
        let Some(t) = f.ts else { return };
        let timeout = timeout_of(self.plan);
        // bias the verifier's clock on the first delivery so that elapsed time lands where the plan asks
        if !self.first_ts_delivery_done {
            self.first_ts_delivery_done = true;
            let pos = self.plan.get("pos");
            let hf = PokFields::parse(honest, sl).unwrap();
            let ht = hf.ts.unwrap() as i128;
            let jitter = self.plan.get("jitter_ns") as i128;
            let target_e: Option<i128> = match (pos, timeout) {
                (5, _) => Some(-(self.plan.get("future_ms") as i128) * 1_000_000 + jitter),
                (_, None) => None,
                (7, Some(tt)) if tt < (1u64 << 31) => Some(((1i128 << (32 + jitter.rem_euclid(3))) + (tt as i128) / 2) * 1_000_000 + jitter.rem_euclid(1000)),
                (_, Some(tt)) if tt >= (1u64 << 40) => match pos {
                    0 | 1 | 2 | 3 | 4 => Some(jitter + (pos as i128) * 1_000_000_000),
                    _ => None,
                },
                (0, Some(tt)) => Some(((tt as i128) * 1_000_000 / 2).max(0) + jitter.min((tt as i128) * 1_000_000 / 2)),
                (1, Some(tt)) => Some(((tt as i128) * 1_000_000 - 1 - (jitter % 1000)).max(0)),
                (2, Some(tt)) => Some((tt as i128) * 1_000_000 + jitter),
                (3, Some(tt)) => Some((tt as i128 + 1) * 1_000_000 + (jitter % 1000)),
                (4, Some(tt)) => Some((tt as i128 + 1) * 1_000_000 + 1_000_000_000 + jitter),
                _ => None,
            };
            if let Some(e) = target_e {
                let want_clock = ht * 1_000_000 + e;
                let cur = sim.local_clock_ns(VERIFIER);
                sim.nodes[VERIFIER].skew_ns += want_clock - cur;
                sim.nodes[VERIFIER].frozen_at = None;
                sim.stats.fault("clock-skew");
                kernel::seams::set_clock_ns(Some(sim.local_clock_ns(VERIFIER)));
            }
        }
        self.ts_deliveries += 1;
        if self.ts_deliveries > 1 {
            self.rec.probe("late-duplicate-verified-again");
        }
        let cv = sim.local_clock_ns(VERIFIER);
        let e_ns: i128 = cv - (t as i128) * 1_000_000;
        let targ: Vec<u8> = timeout.map(|v| v.to_le_bytes().to_vec()).unwrap_or_default();
        // "time flows with work": in a part of the runs every heap allocation inside the library call advances the
        // verifier's clock by 400 us (a pairing-heavy call does a few milliseconds of work over a handful of allocations). The statement is about the age of the proof when it is PRESENTED: a verifier that
        // reads its clock only after doing the work sees the proof older than it was (and may time it out); one that
        // reads it on entry sees exactly the age the model uses.
        let tick_ns = self.plan.get("work_tick_us").max(0) as u64 * 1000;
        kernel::seams::set_work_tick_ns(tick_ns);
        if tick_ns != 0 {
            self.rec.fault("time-flows-with-work");
        }
        let out = self.rec.call(self.lib, self.g, Op::PokTsVerify, &[proof_bytes, pk, pmsg, &targ]);
        kernel::seams::set_work_tick_ns(0);
        // ---- reference model ----
        #[derive(Debug, PartialEq)]
        enum Exp { Accept, Reject, Either }
        let time_verdict = match timeout {
            None => Exp::Accept,
            Some(tt) => {
                let tt = tt as i128;
                if e_ns < 0 { Exp::Either } else if e_ns < tt * 1_000_000 { Exp::Accept } else if e_ns >= (tt + 1) * 1_000_000 { Exp::Reject } else { Exp::Either }
            }
        };
        if e_ns < 0 { self.rec.probe("verifier-clock-behind-timestamp"); }
        if let Some(tt) = timeout {
            let d = e_ns - (tt as i128) * 1_000_000;
            if d.abs() <= 1_000_000 { self.rec.probe("elapsed-within-1ms-of-timeout"); }
            if d >= 0 && d < 1_000_000 { self.rec.probe("elapsed-inside-dont-care-millisecond"); }
        }
        let aug_plain = self.scheme == 1 && self.plan.get("aug_route") == 0;
        let exp = if tampered.is_some() { Exp::Reject } else if aug_plain {
            // F7: see known findings — completeness is asserted (and fails) for this route
            if time_verdict == Exp::Reject { Exp::Reject } else { time_verdict }
        } else { time_verdict };
        let tclass = match timeout { None => 0u64, Some(0) => 1, Some(v) if v < 100 => 2, Some(v) if v < (1 << 40) => 3, _ => 4 };
        let eclass = if e_ns < 0 { 0u64 } else if exp == Exp::Accept { 1 } else if exp == Exp::Either { 2 } else { 3 };
        self.rec.case(&[10, self.g as u64, self.scheme as u64, tclass, eclass, tampered.map(|s| s.len() as u64 + s.as_bytes()[0] as u64 * 31 + s.as_bytes()[s.len()-1] as u64 * 7).unwrap_or(0), self.ts_deliveries as u64], tampered.is_some() || eclass != 1);
        let sch = scheme_name(self.scheme);
        let route = self.plan.get("aug_route");
        let desc = || format!("scheme={} route={} g={} timeout={:?} elapsed_ns={} ts={} tamper={:?} outcome={:?}", sch, route, self.g.name(), timeout, e_ns, t, tampered, out);
        // never abort, for any timestamp and any clock relation
        let site = if let Out::Panic(m) = &out { kernel::rec::panic_site(m) } else { String::new() };
        self.rec.expect("C10", "ts-verify-never-aborts", !out.is_panic(), || format!("abort at {} | {}", site, desc()));
        if out.is_panic() { return; }
        match exp {
            Exp::Accept => { self.rec.expect("C10", "ts-proof-accepted-in-time", out.is_ok(), || format!("accept scheme={} route={} | {}", sch, route, desc())); }
            Exp::Reject => {
                let inv = if tampered.is_some() { "ts-altered-proof-rejected" } else { "ts-expired-proof-rejected" };
                self.rec.expect("C10", inv, !out.is_ok(), || format!("{} | {}", tampered.unwrap_or("expired"), desc()));
            }
            Exp::Either => { self.rec.probe("dont-care-band"); }
        }
    }
}

impl<'a> App for World<'a> {
    fn on_input(&mut self, sim: &mut Sim, node: NodeId, input: Input) {
        self.rec.step += 1;
        let variant = self.plan.get("variant");
        match input {
            Input::Start if node == PROVER => {
                if variant == 0 {
                    let out = self.rec.call(self.lib, self.g, Op::PokCommit, &[&self.pmsg.clone(), &self.sig.clone()]);
                    let Some(v) = out.clone().ok() else {
                        self.rec.expect("C10", "pok-complete", false, || format!("commit | ProofCommitment::generate failed: {:?}", out));
                        return;
                    };
                    self.commitment = Some(v[0].clone());
                    self.secret = Some(v[1].clone());
                    sim.send(PROVER, VERIFIER, Msg { kind: K_COMMIT, corr: 0, parts: vec![v[0].clone()] });
                } else {
                    self.prover_clock_at_generate = sim.local_clock_ns(PROVER);
                    let out = self.rec.call(self.lib, self.g, Op::PokTsGenerate, &[&self.pmsg.clone(), &self.sig.clone()]);
                    let Some(pb) = out.first().map(|b| b.to_vec()) else {
                        self.rec.expect("C10", "pok-complete", false, || format!("generate | ProofOfKnowledgeTimestamp::generate failed: {:?}", out));
                        return;
                    };
                    // the timestamp is the prover's wall clock in ms
                    if let Some(f) = PokFields::parse(&pb, self.g.sig_len()) {
                        let want = (self.prover_clock_at_generate / 1_000_000) as u64;
                        self.rec.expect("C10", "timestamp-is-generation-time", f.ts == Some(want), || format!("ts | proof carries {:?}, prover clock is {} ms", f.ts, want));
                    }
                    sim.send(PROVER, VERIFIER, Msg { kind: K_TSPROOF, corr: 0, parts: vec![pb] });
                }
            }
            Input::Msg { msg, .. } => match (msg.kind, node) {
                (K_COMMIT, VERIFIER) => {
                    if self.challenge.is_some() { return; }
                    let ck = self.plan.get("challenge_kind");
                    let out = match ck {
                        0 => self.rec.call(self.lib, self.g, Op::ChallengeNew, &[]),
                        1 => self.rec.call(self.lib, self.g, Op::ChallengeFromHash, &[&self.plan.seed.to_le_bytes()]),
                        2 => {
                            let mut s = [0u8; 32];
                            Xo::derive(self.plan.seed, &[0xC4A1]).fill(&mut s);
                            self.rec.call(self.lib, self.g, Op::ChallengeRandom, &[&s])
                        }
                        k => {
                            // "for every challenge": also the ones no honest verifier would draw except by a 2^-255 accident
                            let xs = self.secret.as_deref().and_then(refimpl::scalar_from_be).unwrap_or(refimpl::scalar_from_u64(7));
                            let one = refimpl::scalar_from_u64(1);
                            let y = match k {
                                3 => xs,
                                4 => xs + one,
                                5 => xs - one,
                                6 => xs + xs,
                                7 => one,
                                8 => refimpl::scalar_neg_u64(1),
                                _ => refimpl::scalar_from_be(&crate::env::limb_key(self.plan.seed % crate::env::LIMB_KEYS)).unwrap_or(one),
                            };
                            self.rec.probe("challenge-related-to-commitment-secret-or-edge");
                            Out::Ok(vec![refimpl::scalar_to_be(&y)])
                        }
                    };
                    let Some(c) = out.first().map(|b| b.to_vec()) else { return };
                    self.challenge = Some(c.clone());
                    sim.send(VERIFIER, PROVER, Msg { kind: K_CHALLENGE, corr: 0, parts: vec![c] });
                }
                (K_CHALLENGE, PROVER) => {
                    let (Some(c), Some(x)) = (self.commitment.clone(), self.secret.clone()) else { return };
                    // between step 1 and step 3 the prover is a process that may be restarted: it parked its commitment secret (and
                    // the commitment) in a drawn codec and reads them back now; the challenge came over the wire in a drawn codec
                    const SCALAR_CODECS: [Codec; 14] = [Codec::Bytes, Codec::BytesVec, Codec::BytesRefVec, Codec::BytesBox, Codec::Bare, Codec::Json, Codec::Be, Codec::Le, Codec::JsonReader, Codec::JsonValue, Codec::TreeBin, Codec::TreeBinLend, Codec::TreeHr, Codec::TreeBinMap];
                    let mut cx = Xo::derive(self.plan.seed, &[0x9A4C]);
                    let (park, wire) = (SCALAR_CODECS[cx.below(14) as usize], SCALAR_CODECS[cx.below(14) as usize]);
                    let through = |rec: &mut Rec, lib: &dyn Lib, g: Grp, ty: simtypes::Ty, cd: Codec, v: &[u8]| -> Result<Vec<u8>, String> {
                        let e = crate::env::recode(rec, lib, g, ty, Codec::Bytes, cd, v).first().map(|b| b.to_vec()).ok_or_else(|| format!("cannot be written as {}", cd.name()))?;
                        crate::env::recode(rec, lib, g, ty, cd, Codec::Bytes, &e).first().map(|b| b.to_vec()).ok_or_else(|| format!("written as {} cannot be read back", cd.name()))
                    };
                    let zero = |v: &[u8]| v.iter().all(|b| *b == 0);
                    let x = if zero(&x) { x } else {
                        match through(self.rec, self.lib, self.g, simtypes::Ty::ProofCommitmentSecret, park, &x) {
                            Ok(b) => {
                                self.rec.expect("C10", "pok-complete", b == x, || format!("parked-secret codec={} | the commitment secret parked between step 1 and step 3 came back as another value", park.name()));
                                b
                            }
                            Err(why) => {
                                self.rec.expect("C10", "pok-complete", false, || format!("parked-secret codec={} | the holder cannot complete the protocol: its commitment secret {}", park.name(), why));
                                return;
                            }
                        }
                    };
                    let y_in = msg.parts[0].clone();
                    let y = if zero(&y_in) || y_in.len() != 32 { y_in } else {
                        match through(self.rec, self.lib, self.g, simtypes::Ty::ProofCommitmentChallenge, wire, &y_in) {
                            Ok(b) => {
                                self.rec.expect("C10", "pok-complete", b == y_in, || format!("challenge-on-the-wire codec={} | the challenge reached the prover as another value", wire.name()));
                                b
                            }
                            Err(why) => {
                                self.rec.expect("C10", "pok-complete", false, || format!("challenge-on-the-wire codec={} | the holder cannot complete the protocol: the challenge {}", wire.name(), why));
                                return;
                            }
                        }
                    };
                    let c = match through(self.rec, self.lib, self.g, simtypes::Ty::ProofCommitment, if matches!(park, Codec::Be | Codec::Le) { Codec::Bare } else { park }, &c) {
                        Ok(b) => b,
                        Err(why) => {
                            self.rec.expect("C10", "pok-complete", false, || format!("parked-commitment codec={} | {}", park.name(), why));
                            return;
                        }
                    };
                    self.rec.case(&[13, self.g as u64, park as u64, wire as u64], true);
                    let out = self.rec.call(self.lib, self.g, Op::PokFinalize, &[&c, &x, &y, &self.sig.clone()]);
                    let Some(pb) = out.first().map(|b| b.to_vec()) else {
                        self.rec.expect("C10", "pok-complete", false, || format!("finalize | ProofCommitment::finalize failed: {:?}", out));
                        return;
                    };
                    sim.send(PROVER, VERIFIER, Msg { kind: K_PROOF, corr: 0, parts: vec![pb] });
                }
                (K_PROOF, VERIFIER) => {
                    let Some(ch) = self.challenge.clone() else { return };
                    let honest = msg.parts[0].clone();
                    let aug_plain = self.scheme == 1 && self.plan.get("aug_route") == 0;
                    let sch = scheme_name(self.scheme);
                    let route = self.plan.get("aug_route");
                    // honest proof verifies for this pk, message and challenge
                    let out = self.rec.call(self.lib, self.g, Op::PokVerify, &[&honest, &self.pk.clone(), &self.pmsg.clone(), &ch]);
                    self.rec.case(&[11, self.g as u64, self.scheme as u64, route as u64, self.plan.get("challenge_kind") as u64], false);
                    self.rec.expect("C10", "pok-complete", out.is_ok(), || format!("verify scheme={} route={} | honest interactive proof rejected: {:?}", sch, route, out));
                    // structural check against the reference equation (algebra only, tree's own behaviour is what counts)
                    if let Some((mode, salt)) = self.relay {
                        let (pb, pk, pm, c2, label) = self.relay_apply(mode, salt, &honest, Some(&ch));
                        if label != "none" && !label.starts_with("ts-") {
                            sim.stats.fault("byz-relay");
                            let out = self.rec.call(self.lib, self.g, Op::PokVerify, &[&pb, &pk, &pm, c2.as_deref().unwrap_or(&ch)]);
                            self.rec.case(&[12, self.g as u64, self.scheme as u64, mode as u64], true);
                            let _ = aug_plain;
                            // independent decision: the verification equation evaluated by `ref` under the tree's own tag.
                            // An algebraically related tuple that IS valid (e.g. u and v swapped under the key 1, whose
                            // public key is the generator) is not required to be rejected.
                            let related_valid = self.ref_accepts(&pb, &pk, &pm, c2.as_deref().unwrap_or(&ch));
                            if related_valid {
                                self.rec.probe("altered-tuple-valid-by-the-equation");
                                if label == "u-and-v-crafted-jointly" {
                                    self.rec.expect("C10", "valid-crafted-pair-accepted", out.is_ok(), || format!("{} scheme={} | a pair that satisfies the verification equation (no identity component) was rejected: {:?}", label, sch, out));
                                }
                            } else {
                                self.rec.expect("C10", "altered-proof-rejected", !out.is_ok(), || format!("{} scheme={} | altered interactive proof accepted", label, sch));
                            }
                            self.rec.expect("C10", "verify-never-aborts", !out.is_panic(), || format!("abort {} | {:?}", label, out));
                        }
                    }
                }
                (K_TSPROOF, VERIFIER) => {
                    let honest = msg.parts[0].clone();
                    // untampered copy
                    let pk = self.pk.clone();
                    let pm = self.pmsg.clone();
                    self.verify_ts_at_delivery(sim, &honest, &pk, &pm, None, &honest);
                    if let Some((mode, salt)) = self.relay {
                        let (pb, pk2, pm2, _, label) = self.relay_apply(mode, salt, &honest, None);
                        if label != "none" && !label.starts_with("challenge") {
                            sim.stats.fault("byz-relay");
                            self.verify_ts_at_delivery(sim, &pb, &pk2, &pm2, Some(label), &honest);
                        }
                    }
                }
                _ => {}
            },
            _ => {}
        }
    }
}

fn run_pok(plan: &Plan, lib: &dyn Lib, rec: &mut Rec) {
    let g = grp_of(plan.get("g"));
    let scheme = plan.get("scheme") as u8;
    let sk = key_of_class(rec, lib, g, plan.get("key_class") as u64, plan.seed);
    let other_sk = key_of_class(rec, lib, g, 4, plan.seed ^ 0xFFFF);
    let pk = rec.call(lib, g, Op::PublicKey, &[&sk]).first().map(|b| b.to_vec()).unwrap_or_default();
    let other_pk = rec.call(lib, g, Op::PublicKey, &[&other_sk]).first().map(|b| b.to_vec()).unwrap_or_default();
    let mut x = Xo::derive(plan.seed, &[0x90D]);
    let msg = message(&mut x, plan.get("msg_class") as usize);
    let out = rec.call(lib, g, Op::Sign, &[&sk, &[scheme], &msg]);
    let Some(sig) = out.first().map(|b| b.to_vec()) else {
        rec.expect("C10", "sign-ok", false, || format!("signing failed: {:?}", out));
        return;
    };
    let pmsg = if scheme == 1 && plan.get("aug_route") == 1 {
        let mut m = pk.clone();
        m.extend_from_slice(&msg);
        m
    } else {
        msg.clone()
    };
    let mut sim = Sim::new(plan.seed, 2);
    sim.nodes[PROVER].skew_ns = plan.get("skew_p_ms") as i128 * 1_000_000 + (x.below(1_000_000) as i128);
    sim.nodes[VERIFIER].skew_ns = if x.chance(1, 2) { 0 } else { x.range(0, 10_000_000) as i128 - 5_000_000 };
    let mut relay = None;
    for f in &plan.faults {
        match f.k.as_str() {
            "relay" => relay = Some((f.arg(0), f.arg(1))),
            "dup" => sim.net_faults.push(NetFault { kind: f.arg(0) as u32, src: -1, dst: -1, nth: f.arg(1) as u64, action: NetAction::Dup }),
            "latedup" => sim.net_faults.push(NetFault { kind: f.arg(0) as u32, src: -1, dst: -1, nth: f.arg(1) as u64, action: NetAction::LateDup(f.arg(2) as u64 * MS) }),
            "delay" => sim.net_faults.push(NetFault { kind: f.arg(0) as u32, src: -1, dst: -1, nth: f.arg(1) as u64, action: NetAction::Delay(f.arg(2) as u64 * MS) }),
            "clock_jump" => sim.schedule_clock_step(f.arg(1) as u64 * MS, f.arg(0) as usize % 2, f.arg(2) as i128 * 1_000_000),
            "clock_freeze" => sim.schedule_clock_freeze(f.arg(1) as u64 * MS, f.arg(0) as usize % 2, true),
            _ => {}
        }
    }
    let _ = (EPOCH_NS, SEC);
    let mut w = World {
        lib,
        g,
        rec,
        plan,
        scheme,
        sk,
        pk,
        other_pk,
        msg,
        pmsg,
        sig,
        secret: None,
        commitment: None,
        challenge: None,
        first_ts_delivery_done: false,
        ts_deliveries: 0,
        relay,
        prover_clock_at_generate: 0,
    };
    let _ = (w.tag(), w.sig_point(), &w.sk, &w.msg);
    sim.start_all();
    sim.run(&mut w, 3_600 * SEC, 10_000);
    let (dl, sch) = (w.ts_deliveries, scheme_name(scheme));
    w.rec.sample(|| format!("variant={} scheme={} timeout={:?} pos={} deliveries={}", plan.get("variant"), sch, timeout_of(plan), plan.get("pos"), dl));
    w.rec.absorb_sim(&sim);
}
