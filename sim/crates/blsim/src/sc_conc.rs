//! CONCURRENT-CALLERS — several caller threads of ONE party process use the library at the same time, under a
//! thread scheduler the simulator owns (kernel::conc).
//!
//! blsful is stateless today, so the sequential model of every call is a pure function: *a call returns what it
//! returns when it runs alone*. That makes the check a linearizability check against the smallest possible model —
//! every concurrent history must give every caller its sequential result — and it makes the oracle independent of
//! the interleaving, so it cannot raise an alarm on a tree without shared state, whatever the schedule.
//!
//! Workload: the property's own scenario class runs first, sequentially, with a recorder on (`Rec::trace`): that
//! yields a few hundred real calls of that property's kind (honest, tampered, Byzantine — whatever the class does)
//! together with their sequential results, and that run's own oracles apply as always. Then `sessions` sessions are
//! built from the trace: 2–4 caller threads with 1–3 calls each (biased towards threads doing the SAME operation with
//! different arguments — a cache keyed too coarsely shows there), executed
//!   (a) once with the threads strictly one after the other in a drawn order (also measures the events per thread),
//!   (b) under the plan's preemptions: `(thread, event at permille p of that thread's events, instruction offset)`,
//!   (c) in a quarter of the runs, free-running from a barrier, 12 repetitions per thread (not replayable).
//! Every result is compared with the trace. Class `conc-fresh` (C20) has no trace: all threads make the same
//! randomized call with the same arguments and every exposed value must be pairwise distinct across the session.

use crate::driver::{Scenario, Tier};
use crate::env::Env;
use kernel::conc::{self, Call, Preempt};
use kernel::plan::{Plan, Step};
use kernel::rec::{is_randomized, Rec, Traced};
use kernel::seams::Xo;
use simtypes::{Grp, Lib, Op, Out};
use std::collections::BTreeMap;

pub struct ConcSc;
pub static CONC: ConcSc = ConcSc;

/// class name -> (scenario, class) that supplies the calls
fn inner_of(class: &str, index: u64) -> Option<(&'static dyn Scenario, &'static str)> {
    use crate::*;
    Some(match class {
        // every other run: identity keys at drawn positions of otherwise correct aggregates
        "conc-ident" if index % 2 == 1 => (&sc_ident::IDENT, "agg-positions"),
        "conc-sign" => (&sc_sign::SIGN, "retry-restart"),
        "conc-tamper" => (&sc_sign::SIGN, "tamper"),
        "conc-interop" => (&sc_sign::SIGN, "interop"),
        "conc-relabel" => (&sc_sign::SIGN, "relabel"),
        "conc-registry" => (&sc_sign::SIGN, "registry"),
        "conc-ident" => (&sc_ident::IDENT, "family"),
        "conc-agg" => (&sc_agg::AGG, "agg-direct"),
        "conc-multi" => (&sc_agg::AGG, "multi-direct"),
        "conc-thresh" => (&sc_thresh::THRESH, "clean"),
        "conc-pok" => (&sc_pok::POK, "interactive"),
        "conc-pok-ts" => (&sc_pok::POK, "ts-clock"),
        "conc-sc" => (&sc_crypt::CRYPT, "sc-roundtrip"),
        "conc-sc-tamper" => (&sc_crypt::CRYPT, "sc-tamper"),
        "conc-td" => (&sc_crypt::CRYPT, "td-protocol"),
        "conc-tl" => (&sc_crypt::CRYPT, "tl-beacon"),
        "conc-eg" => (&sc_crypt::CRYPT, "eg-tally"),
        "conc-eg-tamper" => (&sc_crypt::CRYPT, "eg-proof-tamper"),
        "conc-tl-tamper" => (&sc_crypt::CRYPT, "tl-tamper"),
        "conc-vault" => (&sc_codec::CODEC, "vault"),
        "conc-byz-encoder" => (&sc_codec::CODEC, "byz-encoder"),
        "conc-hostile" => (&sc_codec::CODEC, "hostile-decoders"),
        _ => return None,
    })
}

const FRESH_OPS: [Op; 9] = [Op::KeyNew, Op::ChallengeNew, Op::SignCrypt, Op::TimeLock, Op::EgEncrypt, Op::EgEncryptProof, Op::PokCommit, Op::PokTsGenerate, Op::SplitEntropy];

impl Scenario for ConcSc {
    fn name(&self) -> &'static str {
        "conc"
    }
    fn cfg_floor(&self) -> BTreeMap<String, i64> {
        BTreeMap::new()
    }
    fn gen(&self, property: &str, class: &str, seed: u64, index: u64, tier: Tier) -> Plan {
        let mut x = Xo::derive(seed, &[0xC04C]);
        let mut p = Plan { scenario: "conc".into(), property: property.into(), seed, class: class.into(), ..Default::default() };
        p.set("index", index as i64);
        p.set("tier", if tier == Tier::Thorough { 1 } else { 0 });
        p.set("free", if x.chance(1, 4) { 1 } else { 0 });
        let sessions = if tier == Tier::Thorough { 6 } else { 4 };
        for s in 0..sessions {
            let threads = x.range(2, 4) as i64;
            // [threads, calls per thread, selection seed, same-operation bias?]
            p.steps.push(Step::new("session", &[threads, x.range(1, 3) as i64, (x.next() >> 1) as i64, x.chance(3, 5) as i64]));
            for _ in 0..x.range(1, 3) {
                let steps = if x.chance(1, 2) { 0 } else { x.range(1, 140) as i64 };
                p.faults.push(Step::new("preempt", &[s as i64, x.below(threads as u64) as i64, x.below(1000) as i64, steps]));
            }
        }
        p
    }
    fn run(&self, plan: &Plan, env: &Env, rec: &mut Rec) {
        if plan.class == "conc-fresh" {
            return run_fresh(plan, env, rec);
        }
        let Some((inner, inner_class)) = inner_of(&plan.class, plan.get("index") as u64) else { return };
        let tier = if plan.get("tier") == 1 { Tier::Thorough } else { Tier::Quick };
        // two sequential runs of the inner class (other seed, other index): two keys, often two schemes or groups, in one trace
        rec.trace = Some(vec![]);
        for k in 0..2u64 {
            let inner_plan = inner.gen(&plan.property, inner_class, plan.seed ^ (k * 0x9E37), plan.get("index") as u64 + 7 * k, tier);
            inner.run(&inner_plan, env, rec);
        }
        let trace: Vec<Traced> = rec.trace.take().unwrap_or_default().into_iter().filter(|t| t.lib == env.cur.name() && !(t.op == Op::PokTsVerify && t.tick != 0)).collect();
        if trace.len() < 2 {
            rec.probe("trace-too-short-for-a-session");
            return;
        }
        let lib: &'static dyn Lib = env.cur;
        for (si, st) in plan.steps.iter().enumerate().filter(|(_, s)| s.k == "session") {
            let (n, per, sel, same) = (st.arg(0).clamp(2, 4) as usize, st.arg(1).clamp(1, 3) as usize, st.arg(2) as u64, st.arg(3) != 0);
            let mut x = Xo::new(sel);
            // the anchor call: any call of the trace, or (one time in three) a verification that was REFUSED when made alone —
            // a refusal is what a shared "pending" slot, a verdict memo or a coalesced request most easily loses
            let refused: Vec<usize> = (0..trace.len()).filter(|i| trace[*i].out.is_rej() && format!("{:?}", trace[*i].op).contains("Verify")).collect();
            let anchor = if !refused.is_empty() && x.chance(1, 3) { refused[x.below(refused.len() as u64) as usize] } else { x.below(trace.len() as u64) as usize };
            let same_op: Vec<usize> = (0..trace.len()).filter(|i| trace[*i].op == trace[anchor].op && *i != anchor).collect();
            // ... and among those, the calls that ask about the SAME material: they share most arguments with the anchor (the same
            // key and message under another scheme label, the same list with another aggregate) — what a memo keyed by part of
            // a request confuses
            let shared = |i: usize| trace[i].args.iter().zip(trace[anchor].args.iter()).filter(|(a, b)| a.len() >= 16 && a == b).count();
            let most = same_op.iter().map(|i| shared(*i)).filter(|k| *k < trace[anchor].args.len()).max().unwrap_or(0);
            let related: Vec<usize> = if most == 0 { vec![] } else { same_op.iter().copied().filter(|i| shared(*i) == most && trace[*i].args != trace[anchor].args).collect() };
            let mut picks: Vec<Vec<usize>> = vec![];
            for t in 0..n {
                let mut mine = vec![];
                for c in 0..per {
                    // thread 0 starts with the anchor call; the others start — when the session is biased — with the SAME
                    // operation on other arguments, or (one time in three) with the very same call: two callers asking the
                    // same question at once is what a verdict memo or a "pending" slot gets wrong
                    let i = if t == 0 && c == 0 {
                        anchor
                    } else if same && c == 0 && (same_op.is_empty() || x.chance(1, 3)) {
                        anchor
                    } else if same && c == 0 && !related.is_empty() && x.chance(1, 2) {
                        related[x.below(related.len() as u64) as usize]
                    } else if same && c == 0 {
                        same_op[x.below(same_op.len() as u64) as usize]
                    } else {
                        x.below(trace.len() as u64) as usize
                    };
                    mine.push(i);
                }
                picks.push(mine);
            }
            // FRESH INPUTS (a third of the sessions): the message argument of every call that has one gets a suffix this process
            // has never seen, another one in every execution — the callers meet whatever per-input state a tree keeps (a memo
            // of hashed messages, of prepared keys) COLD and at the same time. What each call returns alone is then computed
            // afterwards, sequentially, on this thread.
            let fresh = Xo::new(sel ^ 0xF2E5).chance(1, 3);
            let msg_arg = |op: Op| -> Option<usize> {
                match op {
                    Op::Sign | Op::ShareSign | Op::Verify | Op::PkShareVerify | Op::SigShareVerify | Op::SignCrypt | Op::TimeLock | Op::CoreVerify | Op::MultiVerify => Some(2),
                    Op::CoreSign => Some(1),
                    Op::PokCommit | Op::PokTsGenerate => Some(0),
                    _ => None,
                }
            };
            let build_x = |exec: u64| -> Vec<Vec<Call>> {
                picks
                    .iter()
                    .map(|m| {
                        m.iter()
                            .map(|i| {
                                let mut args = trace[*i].args.clone();
                                if fresh {
                                    if let Some(p) = msg_arg(trace[*i].op) {
                                        let suffix = (plan.seed ^ sel ^ exec.wrapping_mul(0x9E37_79B9)).to_le_bytes();
                                        if let Some(a) = args.get_mut(p) {
                                            a.extend_from_slice(&suffix);
                                        }
                                        if trace[*i].op == Op::TimeLock {
                                            // the round identifier too: a ciphertext for a round nobody has sealed to before
                                            if let Some(a) = args.get_mut(3) {
                                                a.extend_from_slice(&suffix);
                                            }
                                        }
                                    }
                                }
                                Call { lib, g: trace[*i].g, op: trace[*i].op, args, clock: trace[*i].clock, route: trace[*i].route }
                            })
                            .collect()
                    })
                    .collect()
            };
            let exec_ctr = std::cell::Cell::new(0u64);
            let last_calls: std::cell::RefCell<Vec<Vec<Call>>> = std::cell::RefCell::new(vec![]);
            let build = || -> Vec<Vec<Call>> {
                exec_ctr.set(exec_ctr.get() + 1);
                *last_calls.borrow_mut() = build_x(exec_ctr.get());
                build_x(exec_ctr.get())
            };
            let check = |rec: &mut Rec, outs: &[Vec<Out>], how: &str| {
                let calls = last_calls.borrow();
                for (t, m) in picks.iter().enumerate() {
                    for (r, got) in outs[t].iter().enumerate() {
                        let e = &trace[m[r % m.len()]];
                        // the sequential answer: recorded (inputs as traced) or computed now (fresh inputs)
                        let alone: Out = if fresh && msg_arg(e.op).is_some() {
                            let c = &calls[t][r % m.len()];
                            let prev = kernel::seams::clock_ns();
                            kernel::seams::set_clock_ns(c.clock);
                            let refs: Vec<&[u8]> = c.args.iter().map(|a| a.as_slice()).collect();
                            let o = c.lib.call_routed(c.g, c.op, &refs, c.route);
                            kernel::seams::set_clock_ns(prev);
                            o
                        } else {
                            e.out.clone()
                        };
                        let same = if is_randomized(e.op) {
                            got.kind() == alone.kind()
                        } else {
                            match (got, &alone) {
                                (Out::Ok(a), Out::Ok(b)) => a == b,
                                (Out::Rej(_), Out::Rej(_)) => true,
                                (Out::Panic(_), Out::Panic(_)) => true,
                                _ => false,
                            }
                        };
                        rec.expect(&plan.property, "concurrent-callers-get-sequential-results", same, || {
                            format!("{:?} {}{} g={} | thread {} of {} (call #{}): alone the call returns {}, among concurrent callers {}; the other threads run {:?}", e.op, how, if fresh { " fresh-inputs" } else { "" }, e.g.name(), t, n, r, brief(&alone), brief(got), picks.iter().enumerate().filter(|(j, _)| *j != t).map(|(_, m)| m.iter().map(|i| trace[*i].op).collect::<Vec<_>>()).collect::<Vec<_>>())
                        });
                    }
                }
            };
            // (a) one after the other, in a drawn order: the events per thread
            let dry = conc::run_controlled(&build(), plan.seed ^ (si as u64) << 8, &[]);
            check(rec, &dry.outs, "serial-order");
            // (b) the plan's preemptions
            let pre: Vec<Preempt> = plan
                .faults
                .iter()
                .filter(|f| f.k == "preempt" && f.arg(0) as usize == si && (f.arg(1) as usize) < n)
                .map(|f| {
                    let t = f.arg(1) as usize;
                    Preempt { thread: t, event: 1 + (dry.events[t].saturating_sub(1)) * (f.arg(2).clamp(0, 999) as u64) / 1000, steps: f.arg(3).clamp(0, 400) as u32 }
                })
                .collect();
            let run = conc::run_controlled(&build(), plan.seed ^ ((si as u64) << 8) ^ 0xB, &pre);
            check(rec, &run.outs, "preempted");
            rec.schedule = kernel::sim::digest_bytes(rec.schedule, &run.order_digest.to_le_bytes());
            *rec.stats.faults.entry("thread-preempted-at-event").or_insert(0) += pre.iter().filter(|p| p.steps == 0).count() as u64;
            *rec.stats.faults.entry("thread-preempted-at-instruction-offset").or_insert(0) += pre.iter().filter(|p| p.steps != 0).count() as u64;
            *rec.stats.probes.entry("baton-hand-overs").or_insert(0) += run.switches + dry.switches;
            *rec.stats.probes.entry("lock-waits-turned-into-yields").or_insert(0) += run.lock_waits;
            *rec.stats.probes.entry("single-steps").or_insert(0) += run.single_steps;
            *rec.stats.probes.entry("caller-thread-events").or_insert(0) += run.events.iter().sum::<u64>();
            *rec.stats.probes.entry("events-at-atomic-instructions-of-the-library").or_insert(0) += run.atomic_events + dry.atomic_events;
            match kernel::atomics::state() {
                "armed" => {}
                "disassembler-unavailable" => rec.probe("atomic-instruction-seam-unavailable(no-objdump)"),
                _ => rec.probe("atomic-instruction-seam-unavailable(address-check)"),
            }
            rec.case(&[77, trace[anchor].op as u64, n as u64, per as u64, same as u64, run.switches.min(6)], run.switches > (n as u64 - 1));
            // (b') for the first session of the run, and for every session in which callers ask about the same material
            // (the very same call, or a related one): a SYSTEMATIC sweep with one preemption — every event of every thread in
            // turn (strided so that a run stays below ~120 executions): the other threads run while the preempted one is parked
            // at that event. One preemption at every possible event is what finds most ordering bugs in practice.
            let contended = picks.iter().skip(1).any(|m| m[0] == anchor || related.contains(&m[0]));
            if si == 0 || contended {
                let total: u64 = dry.events.iter().sum();
                let stride = (total / 120).max(1);
                let mut fired = 0u64;
                for t in 0..n {
                    let mut e = 1 + (plan.seed % stride);
                    while e <= dry.events[t] {
                        let r = conc::run_controlled(&build(), plan.seed ^ e ^ ((t as u64) << 40), &[Preempt { thread: t, event: e, steps: 0 }]);
                        check(rec, &r.outs, "one-preemption-sweep");
                        fired += r.preempts_fired;
                        e += stride;
                    }
                }
                *rec.stats.faults.entry("thread-preempted-at-event(sweep)").or_insert(0) += fired;
            }
            // (b'') every other session in which the callers start with the same operation: one preemption BEFORE each atomic
            // instruction the library executed in the serial run (lock acquisitions and releases, counters) — usually a
            // handful of executions, none on a tree without shared state
            else if same {
                let mut fired = 0u64;
                for t in 0..n {
                    for e in dry.atomic_at.get(t).cloned().unwrap_or_default().into_iter().take(40) {
                        let r = conc::run_controlled(&build(), plan.seed ^ e ^ ((t as u64) << 40) ^ 0xA70, &[Preempt { thread: t, event: e, steps: 0 }]);
                        check(rec, &r.outs, "one-preemption-at-atomic-instruction");
                        fired += r.preempts_fired;
                    }
                }
                *rec.stats.faults.entry("thread-preempted-at-atomic-instruction(sweep)").or_insert(0) += fired;
            }
            // (c) free-running (not replayable; sound because the oracle does not depend on the interleaving)
            if plan.get("free") == 1 && si == 0 {
                let outs = conc::run_free(&build(), plan.seed ^ 0xF, 12);
                check(rec, &outs, "free-running");
                rec.fault("free-running-session");
            }
        }
        // (d) a worker that makes its last calls while it is being torn down (from the destructor of a thread-local of its
        // own, registered before or after its first use of the library)
        if plan.seed % 3 == 0 {
            let mut x = Xo::derive(plan.seed, &[0x7EA2]);
            // half of the time all four calls are the same operation (per-thread state of that operation is set up by the
            // calls made normally and is gone, or going, when the last two are made)
            let first = x.below(trace.len() as u64) as usize;
            let alike: Vec<usize> = (0..trace.len()).filter(|i| trace[*i].op == trace[first].op).collect();
            let same_op = x.chance(1, 2);
            let picks: Vec<usize> = (0..4).map(|k| if k == 0 { first } else if same_op { alike[x.below(alike.len() as u64) as usize] } else { x.below(trace.len() as u64) as usize }).collect();
            let calls: Vec<Call> = picks.iter().map(|i| Call { lib, g: trace[*i].g, op: trace[*i].op, args: trace[*i].args.clone(), clock: trace[*i].clock, route: trace[*i].route }).collect();
            let early = x.chance(1, 2);
            let outs = conc::run_at_thread_exit(calls, 2, early, plan.seed);
            rec.fault("call-made-during-thread-teardown");
            for (r, got) in outs.iter().enumerate() {
                let e = &trace[picks[r]];
                let same = match got {
                    None => false,
                    Some(got) if is_randomized(e.op) => got.kind() == e.out.kind(),
                    Some(got) => match (got, &e.out) {
                        (Out::Ok(a), Out::Ok(b)) => a == b,
                        (Out::Rej(_), Out::Rej(_)) => true,
                        (Out::Panic(_), Out::Panic(_)) => true,
                        _ => false,
                    },
                };
                rec.expect(&plan.property, "concurrent-callers-get-sequential-results", same, || {
                    format!("{:?} at-thread-exit g={} | call #{} ({}): alone the call returns {}, made {} it returns {}", e.op, e.g.name(), r, if r >= 2 { if early { "from a destructor registered before the thread's first library call" } else { "from a destructor registered after the thread's first library call" } } else { "before the teardown" }, brief(&e.out), if r >= 2 { "during thread teardown" } else { "normally" }, got.as_ref().map(brief).unwrap_or_else(|| "nothing (no result arrived)".into()))
                });
            }
        }
        // (e) a STALLED caller (one run in eight): one caller is parked in the middle of an honest verification while another
        // caller of the process gets a lot of work done — F verifications under F keys the process has never seen (F = 140,
        // 300; thorough also 1100: just above the capacities a bounded table of per-key material would plausibly have).
        // The parked caller is resumed afterwards and must get what it gets alone. One execution per event of the parked
        // call (strided to at most 16).
        if plan.get("index") % 8 == 3 {
            let victim = trace.iter().position(|t| matches!(t.op, Op::Verify | Op::PopVerify) && t.out.is_ok() && t.args.iter().map(|a| a.len()).sum::<usize>() < 4096);
            if let Some(vi) = victim {
                let v = &trace[vi];
                let floods: &[usize] = if tier == Tier::Thorough { &[140, 300, 1100] } else { &[140, 300] };
                let f = floods[(plan.seed % floods.len() as u64) as usize];
                // the flood's material, made sequentially beforehand
                let scheme = if v.op == Op::Verify { [v.args[0].first().copied().unwrap_or(0).min(2)] } else { [2u8] };
                let mut flood: Vec<Call> = Vec::with_capacity(f);
                for i in 0..f {
                    let ikm = [&b"stalled-caller-flood"[..], &plan.seed.to_le_bytes(), &(i as u64).to_le_bytes()].concat();
                    let Some(sk) = lib.call(v.g, Op::KeyFromHash, &[&ikm]).first().map(|b| b.to_vec()) else { break };
                    let Some(pk) = lib.call(v.g, Op::PublicKey, &[&sk]).first().map(|b| b.to_vec()) else { break };
                    let args = if v.op == Op::Verify {
                        let m = v.args[2].clone();
                        let Some(sg) = lib.call(v.g, Op::Sign, &[&sk, &scheme, &m]).first().map(|b| b.to_vec()) else { break };
                        vec![sg, pk, m]
                    } else {
                        let Some(pp) = lib.call(v.g, Op::Pop, &[&sk]).first().map(|b| b.to_vec()) else { break };
                        vec![pp, pk]
                    };
                    flood.push(Call { lib, g: v.g, op: v.op, args, clock: v.clock, route: 0 });
                }
                let mk = |flood: &Vec<Call>| -> Vec<Vec<Call>> {
                    vec![
                        vec![Call { lib, g: v.g, op: v.op, args: v.args.clone(), clock: v.clock, route: v.route }],
                        flood.iter().map(|c| Call { lib, g: c.g, op: c.op, args: c.args.clone(), clock: c.clock, route: c.route }).collect(),
                    ]
                };
                if flood.len() == f {
                    // events of the victim's call (the victim runs first, alone)
                    let dry = conc::run_controlled(&vec![mk(&flood).remove(0)], plan.seed ^ 0x57A1, &[]);
                    let ev = dry.events.first().copied().unwrap_or(0);
                    let stride = (ev / 16).max(1);
                    let mut e = 1 + plan.seed % stride;
                    let mut execs = 0u64;
                    while e <= ev {
                        let r = conc::run_controlled_from(&mk(&flood), plan.seed ^ e ^ 0x57A11, &[Preempt { thread: 0, event: e, steps: 0 }], Some(0));
                        execs += 1;
                        let got = r.outs[0].first();
                        let same = matches!((got, &v.out), (Some(Out::Ok(a)), Out::Ok(b)) if a == b);
                        rec.expect(&plan.property, "concurrent-callers-get-sequential-results", same, || format!("{:?} stalled-caller g={} | parked at its event {} of {} while another caller made {} verifications under fresh keys: alone the call returns {}, resumed it returns {}", v.op, v.g.name(), e, ev, f, brief(&v.out), got.map(brief).unwrap_or_default()));
                        let bad = r.outs[1].iter().filter(|o| !o.is_ok()).count();
                        rec.expect(&plan.property, "concurrent-callers-get-sequential-results", bad == 0, || format!("{:?} stalled-caller g={} | {} of the {} honest verifications made while another caller was parked were refused", v.op, v.g.name(), bad, f));
                        e += stride;
                    }
                    *rec.stats.faults.entry("caller-stalled-mid-call-while-others-work").or_insert(0) += execs;
                    *rec.stats.probes.entry("events-at-atomic-instructions-of-the-library").or_insert(0) += dry.atomic_events;
                }
            }
        }
        rec.sample(|| format!("{} traced calls of class {}; {} sessions", trace.len(), inner_class, plan.steps.len()));
    }
}

fn brief(o: &Out) -> String {
    match o {
        Out::Ok(v) => format!("Ok({})", v.iter().map(|b| crate::env::short(b)).collect::<Vec<_>>().join(",")),
        Out::Rej(s) => format!("Err({})", s),
        Out::Panic(s) => format!("ABORT({})", s),
    }
}

/// C20 under interleaved callers: every thread makes the same randomized call; nothing any of them exposes may repeat.
fn run_fresh(plan: &Plan, env: &Env, rec: &mut Rec) {
    let lib: &'static dyn Lib = env.cur;
    let idx = plan.get("index") as usize;
    let g = if idx % 2 == 0 { Grp::G1 } else { Grp::G2 };
    let op = FRESH_OPS[(idx / 2) % FRESH_OPS.len()];
    // fixed inputs, made sequentially
    let sk = rec.call(lib, g, Op::KeyFromHash, &[b"conc-fresh-key"]).first().map(|b| b.to_vec()).unwrap_or_default();
    let pk = rec.call(lib, g, Op::PublicKey, &[&sk]).first().map(|b| b.to_vec()).unwrap_or_default();
    let sig = rec.call(lib, g, Op::Sign, &[&sk, &[0], b"m"]).first().map(|b| b.to_vec()).unwrap_or_default();
    let eight = |v: u64| v.to_le_bytes().to_vec();
    let args: Vec<Vec<u8>> = match op {
        Op::KeyNew | Op::ChallengeNew => vec![],
        Op::SignCrypt => vec![pk.clone(), vec![0], b"same message".to_vec()],
        Op::TimeLock => vec![pk.clone(), vec![0], b"same message".to_vec(), b"id".to_vec()],
        Op::EgEncrypt | Op::EgEncryptProof => vec![pk.clone(), sk.clone()],
        Op::PokCommit | Op::PokTsGenerate => vec![b"m".to_vec(), sig.clone()],
        _ => vec![sk.clone(), eight(2), eight(3)],
    };
    // everything any call of this run exposes, across all its sessions: caller threads of one session end before those of the
    // next are created (a thread-per-request service), and nothing may repeat from one generation of threads to the next
    let mut seen: BTreeMap<Vec<u8>, (usize, &'static str, usize, usize)> = BTreeMap::new();
    for (si, st) in plan.steps.iter().enumerate().filter(|(_, s)| s.k == "session") {
        let (n, per) = (st.arg(0).clamp(2, 4) as usize, st.arg(1).clamp(1, 3) as usize);
        let build = || -> Vec<Vec<Call>> { (0..n).map(|_| (0..per).map(|_| Call { lib, g, op, args: args.clone(), clock: Some(kernel::sim::EPOCH_NS), route: 0 }).collect()).collect() };
        let dry = conc::run_controlled(&build(), plan.seed ^ (si as u64) << 8, &[]);
        let pre: Vec<Preempt> = plan
            .faults
            .iter()
            .filter(|f| f.k == "preempt" && f.arg(0) as usize == si && (f.arg(1) as usize) < n)
            .map(|f| {
                let t = f.arg(1) as usize;
                Preempt { thread: t, event: 1 + (dry.events[t].saturating_sub(1)) * (f.arg(2).clamp(0, 999) as u64) / 1000, steps: f.arg(3).clamp(0, 400) as u32 }
            })
            .collect();
        let run = conc::run_controlled(&build(), plan.seed ^ ((si as u64) << 8) ^ 0xB, &pre);
        let mut sets = vec![("serial-order", dry.outs), ("preempted", run.outs)];
        if plan.get("free") == 1 && si == 0 {
            sets.push(("free-running", conc::run_free(&build(), plan.seed ^ 0xF, 12)));
            rec.fault("free-running-session");
        }
        for (how, outs) in sets {
            // everything a call returns is an ephemeral here (ciphertext points and masks, commitments, secrets, keys, challenges, share values)
            for (t, os) in outs.iter().enumerate() {
                for (r, o) in os.iter().enumerate() {
                    rec.expect("C20", "randomized-call-succeeds", o.is_ok(), || format!("{:?} {} g={} | thread {} call #{}: {}", op, how, g.name(), t, r, brief(o)));
                    if let Out::Ok(parts) = o {
                        for part in parts {
                            // a value is "exposed" when it is long enough to be a point or a scalar; whole-output equality covers the rest
                            for chunk in part.chunks(32).filter(|c| c.len() == 32 && c.iter().any(|b| *b != 0)) {
                                let me = (si, how, t, r);
                                let prev = seen.insert(chunk.to_vec(), me);
                                let clash = prev.filter(|p| *p != me);
                                rec.expect("C20", "ephemerals-never-repeat", clash.is_none() || is_public_constant(chunk, &pk, &sk, &sig, &args), || {
                                    format!("{:?} {} g={} | a 32-byte run of the output of thread {} call #{} (session {}) equals one of (session, mode, thread, call) {:?}: {}", op, how, g.name(), t, r, si, clash, crate::env::short(chunk))
                                });
                            }
                        }
                    }
                }
            }
        }
        rec.schedule = kernel::sim::digest_bytes(rec.schedule, &run.order_digest.to_le_bytes());
        *rec.stats.probes.entry("baton-hand-overs").or_insert(0) += run.switches;
        *rec.stats.probes.entry("single-steps").or_insert(0) += run.single_steps;
        *rec.stats.faults.entry("thread-preempted-at-event").or_insert(0) += pre.iter().filter(|p| p.steps == 0).count() as u64;
        *rec.stats.faults.entry("thread-preempted-at-instruction-offset").or_insert(0) += pre.iter().filter(|p| p.steps != 0).count() as u64;
        rec.case(&[78, op as u64, g as u64, n as u64, per as u64], true);
    }
}

/// 32-byte runs that legitimately repeat: parts of the inputs echoed in the output (none of the randomized operations
/// echoes its key material, but a scheme byte / length prefix may share a chunk with one)
fn is_public_constant(chunk: &[u8], pk: &[u8], sk: &[u8], sig: &[u8], args: &[Vec<u8>]) -> bool {
    let within = |hay: &[u8]| hay.windows(chunk.len()).any(|w| w == chunk);
    within(pk) || within(sk) || within(sig) || args.iter().any(|a| within(a))
}
