//! Courier — a thin layer over the simulator for scenarios whose party logic is linear:
//! `ship` moves byte strings from one node to another through the fault-injecting transport
//! and hands back every copy that arrives (none, one, or several; possibly corrupted), in
//! arrival order; `at` runs a party step under that node's clock and entropy device.

use kernel::rec::Rec;
use kernel::sim::{App, Input, Msg, NetAction, NetFault, NodeId, Sim, MS, SEC};

pub struct Courier {
    pub sim: Sim,
}
struct Collector {
    got: Vec<(NodeId, NodeId, Msg, u64)>,
    restarted: Vec<NodeId>,
}
impl App for Collector {
    fn on_input(&mut self, sim: &mut Sim, node: NodeId, input: Input) {
        match input {
            Input::Msg { src, msg } => self.got.push((src, node, msg, sim.now)),
            Input::Restarted => self.restarted.push(node),
            _ => {}
        }
    }
}

#[derive(Clone, Debug)]
pub struct Arrived {
    pub parts: Vec<Vec<u8>>,
    #[allow(dead_code)]
    pub at: u64,
}

impl Courier {
    pub fn new(seed: u64, nodes: usize) -> Courier {
        Courier { sim: Sim::new(seed, nodes) }
    }
    pub fn fault(&mut self, kind: u32, nth: u64, action: NetAction) {
        self.sim.net_faults.push(NetFault { kind, src: -1, dst: -1, nth, action });
    }
    /// Send `parts` and run the simulation until the network is quiet (at most `horizon` of
    /// simulated time); returns every copy delivered to `dst`.
    pub fn ship(&mut self, src: NodeId, dst: NodeId, kind: u32, corr: u64, parts: Vec<Vec<u8>>) -> Vec<Arrived> {
        self.sim.send(src, dst, Msg { kind, corr, parts });
        self.settle(dst, kind)
    }
    pub fn settle(&mut self, dst: NodeId, kind: u32) -> Vec<Arrived> {
        let mut col = Collector { got: vec![], restarted: vec![] };
        let until = self.sim.now + 600 * SEC;
        self.sim.run(&mut col, until, 100_000);
        col.got.into_iter().filter(|(_, d, m, _)| *d == dst && m.kind == kind).map(|(_, _, m, at)| Arrived { parts: m.parts, at }).collect()
    }
    /// let simulated time pass (timers, scheduled crashes, clock steps fire)
    pub fn pass(&mut self, ns: u64) {
        let mut col = Collector { got: vec![], restarted: vec![] };
        let until = self.sim.now + ns;
        self.sim.run(&mut col, until, 100_000);
        self.sim.now = self.sim.now.max(until);
    }
    pub fn at<T>(&mut self, node: NodeId, f: impl FnOnce() -> T) -> T {
        self.sim.as_node(node, |_| f())
    }
    pub fn up(&self, node: NodeId) -> bool {
        self.sim.nodes[node].up
    }
    pub fn finish(self, rec: &mut Rec) {
        rec.absorb_sim(&self.sim);
    }
}

/// Install the generic transport faults of a plan's fault script (`drop`/`dup`/`delay`/`latedup`/
/// `bitflip`/`truncate`/`extend` with a = [kind, nth, x, y]) and node faults (`crash`/`restart`
/// with a = [node, at_ms, torn]).
pub fn install_faults(c: &mut Courier, faults: &[kernel::plan::Step]) {
    for f in faults {
        let a = |i| f.arg(i);
        match f.k.as_str() {
            "drop" => c.fault(a(0) as u32, a(1) as u64, NetAction::Drop),
            "dup" => c.fault(a(0) as u32, a(1) as u64, NetAction::Dup),
            "delay" => c.fault(a(0) as u32, a(1) as u64, NetAction::Delay(a(2) as u64 * MS)),
            "latedup" => c.fault(a(0) as u32, a(1) as u64, NetAction::LateDup(a(2) as u64 * MS)),
            "bitflip" => c.fault(a(0) as u32, a(1) as u64, NetAction::BitFlip { part: a(2) as usize, bit: a(3) as usize }),
            "truncate" => c.fault(a(0) as u32, a(1) as u64, NetAction::Truncate { part: a(2) as usize, len: a(3) as usize }),
            "extend" => c.fault(a(0) as u32, a(1) as u64, NetAction::Extend { part: a(2) as usize, extra: f.data(0) }),
            "crash" => {
                if (a(0) as usize) < c.sim.nodes.len() {
                    c.sim.schedule_crash(a(1) as u64 * MS, a(0) as usize, a(2) as u8)
                }
            }
            "restart" => {
                if (a(0) as usize) < c.sim.nodes.len() {
                    c.sim.schedule_restart(a(1) as u64 * MS, a(0) as usize)
                }
            }
            _ => {}
        }
    }
}
