//! THRESH — dealer, n signers with durable key shares, a combiner; loss / duplication /
//! reordering / partition, signer crash and restart with torn or lost writes, Byzantine
//! signers. Decides C08 (signature shares), and hosts the share-flow halves of C12 (decryption
//! shares), C13 (beacon) and C14 (tally) through `Payload`.

use crate::driver::{Scenario, Tier};
use crate::env::*;
use kernel::plan::{Plan, Step};
use kernel::rec::Rec;
use kernel::seams::Xo;
use kernel::sim::{App, Input, Msg, NetAction, NetFault, NodeId, Sim, MS};
use simtypes::{Codec, Grp, Lib, Op, Ty};
use std::collections::BTreeMap;

pub struct Thresh;
pub static THRESH: Thresh = Thresh;

const K_SHARE: u32 = 1;
const K_SHARE_ACK: u32 = 2;
const K_PUB: u32 = 3;
const K_REQ: u32 = 4;
const K_PARTIAL: u32 = 5;

const T_SYNC: u64 = 1;
const T_RETRY_DEAL: u64 = 2;
const T_ROUND: u64 = 3;

const ROUND_PERIOD: u64 = 400 * MS;
const MAX_RETRY_ROUNDS: u64 = 3;

fn codec_of(i: i64) -> Codec {
    match i {
        1 => Codec::Bare,
        2 => Codec::Json,
        _ => Codec::Bytes,
    }
}

impl Scenario for Thresh {
    fn name(&self) -> &'static str {
        "thresh"
    }
    fn cfg_floor(&self) -> BTreeMap<String, i64> {
        let mut m = BTreeMap::new();
        m.insert("rounds".into(), 1);
        m.insert("msg_class".into(), 1);
        m.insert("wire".into(), 0);
        m.insert("disk".into(), 0);
        m
    }
    fn gen(&self, property: &str, class: &str, seed: u64, index: u64, tier: Tier) -> Plan {
        let mut x = Xo::derive(seed, &[0x7E5]);
        let mut p = Plan { scenario: "thresh".into(), property: property.into(), seed, class: class.into(), ..Default::default() };
        p.set("g", x.below(2) as i64);
        p.set("scheme", if x.chance(1, 2) { 0 } else { 2 });
        p.set("key_class", x.below(6) as i64);
        p.set("msg_class", pick_len_class(&mut x, false) as i64);
        p.set("wire", x.below(3) as i64);
        p.set("disk", x.below(3) as i64);
        p.set("rounds", x.range(1, 3) as i64);
        p.set("dedup", 1);
        p.set("verify", 1);
        match class {
            "subsets" => {
                // exhaustive: index enumerates (g, scheme, t, n) with n <= 7
                let mut combos = vec![];
                for g in 0..2 {
                    for s in [0, 2] {
                        for n in 2..=7 {
                            for t in 2..=n {
                                combos.push((g, s, t, n));
                            }
                        }
                    }
                }
                let (g, s, t, n) = combos[(index as usize) % combos.len()];
                p.set("g", g);
                p.set("scheme", s);
                p.set("t", t);
                p.set("n", n);
                p.set("msg_class", (index % 5) as i64);
                p.steps.push(Step::new("subsets", &[]));
                return p;
            }
            "large" => {
                let picks: [(i64, i64); 10] = [(2, 255), (9, 255), (255, 255), (128, 255), (13, 25), (10, 255), (21, 40), (64, 64), (3, 200), (9, 240)];
                let (t, n) = if (index as usize) < picks.len() && tier == Tier::Thorough || index < 4 {
                    picks[(index as usize) % picks.len()]
                } else {
                    let n = x.range(8, 255) as i64;
                    (x.range(2, n as u64) as i64, n)
                };
                p.set("t", t);
                p.set("n", n);
                p.steps.push(Step::new("large", &[x.next() as i64 & 0xffff]));
                return p;
            }
            "extremes" => {
                // the largest committees with every threshold 2..=40: the subsets drawn by `large` include exactly t shares
                // with one identifier at one end of 1..=n and t-1 crowded at the other (products of identifier
                // differences are largest there: where fixed-width Lagrange arithmetic overflows first)
                p.set("g", (index % 2) as i64);
                // every t in 2..=40, then thresholds around the 64 / 128 / 255 marks (fixed-size tables, batch sizes, u8 limits)
                const HIGH_T: [i64; 13] = [41, 63, 64, 65, 66, 100, 127, 128, 129, 200, 253, 254, 255];
                let ti = (index / 2) % 52;
                p.set("t", if ti < 39 { 2 + ti as i64 } else { HIGH_T[(ti - 39) as usize] });
                let n_ext: i64 = if (index / 104) % 2 == 0 { 255 } else { 254 };
                p.set("n", n_ext);
                p.set("t", p.get("t").min(n_ext));
                p.steps.push(Step::new("large", &[x.next() as i64 & 0xffff]));
                return p;
            }
            "dealer-shapes" => {
                p.set("g", (index % 2) as i64);
                p.set("scheme", if (index / 2) % 2 == 0 { 0 } else { 2 });
                p.steps.push(Step::new("dealer-shapes", &[(index / 4) as i64]));
                return p;
            }
            "params" => {
                p.steps.push(Step::new("params", &[]));
                return p;
            }
            _ => {}
        }
        let n = if x.chance(1, 8) { x.range(8, 12) } else { x.range(2, 7) } as i64;
        let t = x.range(2, n as u64) as i64;
        p.set("t", t);
        p.set("n", n);
        let comb = (n + 1) as i64;
        for r in 0..p.get("rounds") {
            p.steps.push(Step::new("round", &[r, x.below(1 << 20) as i64]));
        }
        if class == "faulty" || class == "byzantine" {
            let nf = x.range(1, 6);
            for _ in 0..nf {
                match x.below(10) {
                    0 | 1 => p.faults.push(Step::new("drop", &[*x.pick(&[K_SHARE, K_SHARE_ACK, K_REQ, K_PARTIAL]) as i64, -1, -1, x.below(4) as i64])),
                    2 => p.faults.push(Step::new("dup", &[*x.pick(&[K_SHARE, K_PARTIAL, K_REQ]) as i64, -1, -1, x.below(4) as i64])),
                    3 => p.faults.push(Step::new("delay", &[K_PARTIAL as i64, -1, comb, x.below(4) as i64, x.range(50, 900) as i64])),
                    4 => p.faults.push(Step::new("latedup", &[K_PARTIAL as i64, -1, comb, x.below(3) as i64, x.range(300, 1500) as i64])),
                    5 | 6 => {
                        // crash a signer around the time its share is written (between write and sync)
                        let node = x.range(1, n as u64) as i64;
                        let at = if x.chance(1, 2) { x.range(1, 40) } else { x.range(40, 1200) } as i64;
                        p.faults.push(Step::new("crash", &[node, at, x.below(3) as i64]));
                        p.faults.push(Step::new("restart", &[node, at + x.range(5, 500) as i64]));
                    }
                    7 => {
                        let mask = x.range(1, (1u64 << (n + 2)) - 2) as i64;
                        let at = x.range(1, 800) as i64;
                        p.faults.push(Step::new("partition", &[mask, at]));
                        p.faults.push(Step::new("heal", &[at + x.range(50, 700) as i64]));
                    }
                    8 => p.faults.push(Step::new("stall", &[x.range(1, n as u64) as i64, x.range(1, 600) as i64, x.range(50, 600) as i64])),
                    _ => p.faults.push(Step::new("drop", &[K_PARTIAL as i64, -1, comb, x.below(6) as i64])),
                }
            }
        }
        if class == "byzantine" {
            p.set("dedup", x.below(2) as i64);
            p.set("verify", x.below(2) as i64);
            let nb = x.range(1, 2);
            for _ in 0..nb {
                p.faults.push(Step::new("byz", &[x.range(1, n as u64) as i64, x.below(8) as i64]));
            }
        }
        p
    }

    fn run(&self, plan: &Plan, env: &Env, rec: &mut Rec) {
        let g = grp_of(plan.get("g"));
        let lib = env.cur;
        match plan.steps.first().map(|s| s.k.as_str()) {
            Some("subsets") => return run_subsets(plan, lib, g, rec, true),
            Some("large") => return run_subsets(plan, lib, g, rec, false),
            Some("params") => return run_params(plan, lib, g, rec),
            Some("dealer-shapes") => return run_dealer_shapes(plan, lib, g, rec),
            _ => {}
        }
        run_protocol(plan, lib, g, rec, Payload::Sign);
    }
}

/// What the signers are asked to produce with their key share.
#[derive(Clone, Copy, PartialEq, Eq, Debug)]
pub enum Payload {
    Sign,
}

pub struct Deal {
    pub sk: Vec<u8>,
    pub pk: Vec<u8>,
    pub shares: Vec<Vec<u8>>,
    pub pk_shares: Vec<Vec<u8>>,
}

pub fn deal(rec: &mut Rec, lib: &dyn Lib, g: Grp, key_class: u64, t: u64, n: u64, seed: u64) -> Option<Deal> {
    let sk = key_of_class(rec, lib, g, key_class, seed);
    let pk = rec.call(lib, g, Op::PublicKey, &[&sk]).first()?.to_vec();
    let mut s32 = [0u8; 32];
    Xo::derive(seed, &[0x5917]).fill(&mut s32);
    let shares = rec.call(lib, g, Op::Split, &[&sk, &u64b(t), &u64b(n), &s32]).ok()?;
    let mut pk_shares = vec![];
    for s in &shares {
        pk_shares.push(rec.call(lib, g, Op::SharePk, &[s]).first()?.to_vec());
    }
    Some(Deal { sk, pk, shares, pk_shares })
}

struct Cluster<'a> {
    lib: &'a dyn Lib,
    g: Grp,
    rec: &'a mut Rec,
    n: usize,
    t: usize,
    scheme: u8,
    wire: Codec,
    disk: Codec,
    dedup: bool,
    verify: bool,
    deal: Deal,
    msgs: Vec<Vec<u8>>,
    expected: Vec<Vec<u8>>, // whole-key signature per round
    // dealer
    acked: Vec<bool>,
    deal_retries: u64,
    // signers (volatile state, index 1..=n)
    share_mem: Vec<Option<Vec<u8>>>,
    byz: BTreeMap<usize, i64>,
    // combiner
    pub_known: Option<(Vec<u8>, Vec<Vec<u8>>)>,
    collected: Vec<Vec<(u8, Vec<u8>)>>, // per round: (id, sigshare) in arrival order
    combined: Vec<Option<Vec<u8>>>,
    round_started_at: Vec<u64>,
    retry_round: Vec<u64>,
    rounds_total: usize,
    next_round: usize,
    combined_at: Vec<u64>,
    now_hint: u64,
}

impl<'a> Cluster<'a> {
    fn comb(&self) -> NodeId {
        self.n + 1
    }
    fn wire_out(&mut self, ty: Ty, b: &[u8]) -> Vec<u8> {
        if self.wire == Codec::Bytes {
            return b.to_vec();
        }
        match recode(self.rec, self.lib, self.g, ty, Codec::Bytes, self.wire, b) {
            simtypes::Out::Ok(v) => v[0].clone(),
            o => {
                self.rec.expect("C08", "share-transport", false, || format!("encode {} to {} failed: {:?}", ty.name(), self.wire.name(), o));
                b.to_vec()
            }
        }
    }
    fn wire_in(&mut self, ty: Ty, b: &[u8]) -> Option<Vec<u8>> {
        if self.wire == Codec::Bytes {
            return Some(b.to_vec());
        }
        recode(self.rec, self.lib, self.g, ty, self.wire, Codec::Bytes, b).first().map(|x| x.to_vec())
    }
    fn send_share(&mut self, sim: &mut Sim, i: usize) {
        let b = self.deal.shares[i - 1].clone();
        let w = self.wire_out(Ty::SecretKeyShare, &b);
        sim.send(0, i, Msg { kind: K_SHARE, corr: i as u64, parts: vec![w] });
    }
    fn load_share(&mut self, sim: &mut Sim, node: usize) {
        self.share_mem[node] = None;
        if let Some(d) = sim.nodes[node].disk.read("share") {
            match recode(self.rec, self.lib, self.g, Ty::SecretKeyShare, self.disk, Codec::Bytes, &d) {
                simtypes::Out::Ok(v) => {
                    // a reloaded share must be the dealt share or be refused; never something else
                    let ok = v[0] == self.deal.shares[node - 1];
                    self.rec.expect("C08", "durable-share-intact", ok, || {
                        format!("signer {} reloaded a share that decodes but differs from the dealt one: {}", node, short(&v[0]))
                    });
                    self.share_mem[node] = Some(v[0].clone());
                }
                _ => {
                    self.rec.probe("torn-share-refused-at-reload");
                }
            }
        }
    }
    fn start_round(&mut self, sim: &mut Sim, r: usize) {
        self.round_started_at[r] = sim.now;
        let msg = self.msgs[r].clone();
        for i in 1..=self.n {
            sim.send(self.comb(), i, Msg { kind: K_REQ, corr: r as u64, parts: vec![vec![self.scheme], msg.clone()] });
        }
        sim.timer(self.comb(), ROUND_PERIOD, T_ROUND + ((r as u64) << 8));
    }
    fn try_combine(&mut self, r: usize) {
        if self.combined[r].is_some() {
            return;
        }
        let mut set: Vec<(u8, Vec<u8>)> = vec![];
        for (id, s) in &self.collected[r] {
            if self.dedup && set.iter().any(|(i, _)| i == id) {
                continue;
            }
            set.push((*id, s.clone()));
        }
        let distinct: std::collections::BTreeSet<u8> = set.iter().map(|(i, _)| *i).collect();
        if distinct.len() < self.t {
            return;
        }
        if distinct.len() == self.t {
            self.rec.probe("combine-with-exactly-t");
        }
        let has_dup = set.len() != distinct.len();
        let has_zero = set.iter().any(|(id, _)| *id == 0);
        let mixed = set.iter().any(|(_, s)| s[0] != set[0].1[0]);
        let sl = self.g.sig_len();
        let invalid_payload = set.iter().any(|(_, s)| s.len() != 2 + sl || refimpl::classify_point(&s[2..]) != refimpl::PointClass::Valid && refimpl::classify_point(&s[2..]) != refimpl::PointClass::Identity);
        let args: Vec<&[u8]> = set.iter().map(|(_, s)| s.as_slice()).collect();
        let out = self.rec.call(self.lib, self.g, Op::SigFromShares, &args);
        let idl: Vec<u8> = set.iter().map(|x| x.0).collect();
        if has_dup || has_zero || mixed || invalid_payload {
            if has_dup {
                self.rec.probe("duplicate-id-reached-combine");
                self.rec.expect("C08", "duplicate-ids-error", !out.is_ok(), || format!("dup-id | from_shares accepted a set with a repeated identifier: ids {:?}", idl));
            }
            if has_zero {
                self.rec.probe("zero-id-reached-combine");
                self.rec.expect("C08", "zero-id-error", !out.is_ok(), || format!("zero-id | from_shares accepted a zero identifier: ids {:?}", idl));
            }
            if mixed {
                self.rec.probe("mixed-scheme-reached-combine");
                self.rec.expect("C08", "mixed-scheme-error", !out.is_ok(), || format!("mixed | from_shares accepted shares of different schemes: ids {:?}", idl));
            }
            if invalid_payload {
                self.rec.probe("invalid-payload-reached-combine");
                self.rec.expect("C08", "invalid-payload-error", !out.is_ok(), || format!("payload | from_shares accepted a share whose payload is not a subgroup point: ids {:?}", idl));
            }
            return;
        }
        let all_honest = set.iter().all(|(id, s)| self.honest_partial(r, *id) == Some(s.clone()));
        if all_honest {
            let exp = self.expected[r].clone();
            let good = out.first() == Some(exp.as_slice());
            let (t, n) = (self.t, self.n);
            self.rec.expect("C08", "combine-exact", good, || {
                format!("from_shares | t={} n={} ids={:?}: recombined signature differs from the whole-key signature: got {:?}", t, n, idl, out.kind())
            });
            if good {
                self.combined[r] = Some(exp);
                self.combined_at[r] = self.now_hint;
            }
        } else {
            self.rec.probe("byzantine-share-in-combine-set");
            if let Some(v) = out.first() {
                if v == self.expected[r].as_slice() {
                    self.combined[r] = Some(v.to_vec());
                    self.combined_at[r] = self.now_hint;
                }
            }
        }
    }
    fn honest_partial(&mut self, r: usize, id: u8) -> Option<Vec<u8>> {
        let i = id as usize;
        if i == 0 || i > self.n {
            return None;
        }
        let sh = self.deal.shares[i - 1].clone();
        let m = self.msgs[r].clone();
        self.rec.call(self.lib, self.g, Op::ShareSign, &[&sh, &[self.scheme], &m]).first().map(|x| x.to_vec())
    }
}

impl<'a> App for Cluster<'a> {
    fn on_input(&mut self, sim: &mut Sim, node: NodeId, input: Input) {
        self.rec.step += 1;
        self.now_hint = sim.now;
        let comb = self.comb();
        match input {
            Input::Start => {
                if node == 0 {
                    for i in 1..=self.n {
                        self.send_share(sim, i);
                    }
                    let pk = self.deal.pk.clone();
                    let mut parts = vec![self.wire_out(Ty::PublicKey, &pk)];
                    for i in 0..self.n {
                        let b = self.deal.pk_shares[i].clone();
                        parts.push(self.wire_out(Ty::PublicKeyShare, &b));
                    }
                    sim.send(0, comb, Msg { kind: K_PUB, corr: 0, parts });
                    sim.timer(0, 150 * MS, T_RETRY_DEAL);
                } else if node == comb {
                    sim.timer(comb, 250 * MS, T_ROUND + (0xffu64 << 8));
                }
            }
            Input::Restarted => {
                if node >= 1 && node <= self.n {
                    self.load_share(sim, node);
                    self.rec.probe("signer-restarted");
                }
            }
            Input::Timer { tag } => {
                if node == 0 && tag == T_RETRY_DEAL {
                    self.deal_retries += 1;
                    let mut pending = false;
                    for i in 1..=self.n {
                        if !self.acked[i] {
                            pending = true;
                            self.send_share(sim, i);
                        }
                    }
                    if self.pub_known.is_none() {
                        pending = true;
                        let pk = self.deal.pk.clone();
                        let mut parts = vec![self.wire_out(Ty::PublicKey, &pk)];
                        for i in 0..self.n {
                            let b = self.deal.pk_shares[i].clone();
                            parts.push(self.wire_out(Ty::PublicKeyShare, &b));
                        }
                        sim.send(0, comb, Msg { kind: K_PUB, corr: 0, parts });
                    }
                    if pending && self.deal_retries < 40 {
                        sim.timer(0, 150 * MS, T_RETRY_DEAL);
                    }
                } else if node >= 1 && node <= self.n && tag == T_SYNC {
                    sim.nodes[node].disk.sync();
                    sim.send(node, 0, Msg { kind: K_SHARE_ACK, corr: node as u64, parts: vec![] });
                } else if node == comb && (tag & 0xff) == T_ROUND {
                    let r = (tag >> 8) as usize;
                    if r == 0xff {
                        // kick off: rounds are started one after another
                        if self.rounds_total > 0 {
                            self.next_round = 1;
                            self.start_round(sim, 0);
                        }
                        return;
                    }
                    if self.combined[r].is_none() {
                        self.retry_round[r] += 1;
                        if self.retry_round[r] < 40 {
                            let msg = self.msgs[r].clone();
                            for i in 1..=self.n {
                                let have = self.collected[r].iter().any(|(id, _)| *id as usize == i);
                                if !have {
                                    sim.send(comb, i, Msg { kind: K_REQ, corr: r as u64, parts: vec![vec![self.scheme], msg.clone()] });
                                }
                            }
                            sim.timer(comb, ROUND_PERIOD, T_ROUND + ((r as u64) << 8));
                        }
                    }
                    if self.next_round < self.rounds_total && (self.combined[r].is_some() || self.retry_round[r] >= 2) && self.next_round == r + 1 {
                        let nr = self.next_round;
                        self.next_round += 1;
                        self.start_round(sim, nr);
                    }
                }
            }
            Input::Msg { src, msg } => match msg.kind {
                K_SHARE if node >= 1 && node <= self.n => {
                    if self.share_mem[node].is_some() {
                        // already installed (duplicate / retry): just re-ack if durable
                        if !sim.nodes[node].disk.has_pending() {
                            sim.send(node, 0, Msg { kind: K_SHARE_ACK, corr: node as u64, parts: vec![] });
                        }
                        return;
                    }
                    let Some(b) = self.wire_in(Ty::SecretKeyShare, &msg.parts[0]) else {
                        let untouched = msg.parts[0] == self.wire_out(Ty::SecretKeyShare, &self.deal.shares[node - 1].clone());
                        self.rec.expect("C08", "share-transport", !untouched, || format!("signer {} cannot decode its own untouched share from {}", node, self.wire.name()));
                        return;
                    };
                    let d = match recode(self.rec, self.lib, self.g, Ty::SecretKeyShare, Codec::Bytes, self.disk, &b) {
                        simtypes::Out::Ok(v) => v[0].clone(),
                        _ => return,
                    };
                    sim.nodes[node].disk.write("share", &d);
                    self.share_mem[node] = Some(b);
                    // sync happens a little later: a crash can land between write and sync
                    sim.timer(node, 10 * MS, T_SYNC);
                }
                K_SHARE_ACK if node == 0 => {
                    self.acked[src] = true;
                }
                K_PUB if node == comb => {
                    let mut ok = true;
                    let pk = self.wire_in(Ty::PublicKey, &msg.parts[0]);
                    let mut pks = vec![];
                    for p in &msg.parts[1..] {
                        match self.wire_in(Ty::PublicKeyShare, p) {
                            Some(b) => pks.push(b),
                            None => ok = false,
                        }
                    }
                    if let (Some(pk), true) = (pk, ok) {
                        self.pub_known = Some((pk, pks));
                    }
                }
                K_REQ if node >= 1 && node <= self.n => {
                    let r = msg.corr as usize;
                    let Some(share) = self.share_mem[node].clone() else {
                        self.rec.probe("request-to-signer-without-share");
                        return;
                    };
                    let scheme = msg.parts[0][0];
                    let mut m = msg.parts[1].clone();
                    let mut sh = share.clone();
                    let mode = self.byz.get(&node).copied();
                    let mut sc = scheme;
                    match mode {
                        Some(0) => {
                            // another participant's key share
                            let other = if node == self.n { 1 } else { node + 1 };
                            sh = self.deal.shares[other - 1].clone();
                            self.rec.fault("byz-other-participant");
                        }
                        Some(1) => {
                            m.push(0x21);
                            self.rec.fault("byz-other-message");
                        }
                        Some(2) => {
                            sc = if scheme == 0 { 2 } else { 0 };
                            self.rec.fault("byz-relabel-scheme");
                        }
                        _ => {}
                    }
                    let out = self.rec.call(self.lib, self.g, Op::ShareSign, &[&sh, &[sc], &m]);
                    let Some(mut part) = out.first().map(|x| x.to_vec()) else {
                        self.rec.expect("C08", "partial-sign-ok", mode.is_some(), || format!("honest signer {} could not sign: {:?}", node, out));
                        return;
                    };
                    match mode {
                        Some(3) => {
                            // payload that is not a subgroup point
                            let off = refimpl::off_subgroup_point(self.g.sig_len(), node as u64);
                            part.truncate(2);
                            part.extend_from_slice(&off);
                            self.rec.fault("byz-off-subgroup");
                        }
                        Some(4) => {
                            part[1] = 0;
                            self.rec.fault("byz-zero-id");
                        }
                        Some(5) => {
                            part[1] = if node == 1 { 2 } else { 1 };
                            self.rec.fault("byz-dup-id");
                        }
                        Some(6) => {
                            let bad = refimpl::off_curve_point(self.g.sig_len(), node as u64);
                            part.truncate(2);
                            part.extend_from_slice(&bad);
                            self.rec.fault("byz-off-curve");
                        }
                        Some(7) => {
                            part[0] = if part[0] == 0 { 2 } else { 0 };
                            self.rec.fault("byz-relabel-tag");
                        }
                        _ => {}
                    }
                    let w = self.wire_out_lenient(Ty::SignatureShare, &part);
                    sim.send(node, comb, Msg { kind: K_PARTIAL, corr: r as u64, parts: vec![vec![node as u8], w] });
                }
                K_PARTIAL if node == comb => {
                    let r = msg.corr as usize;
                    if r >= self.rounds_total || self.combined[r].is_some() {
                        return;
                    }
                    let Some(part) = self.wire_in(Ty::SignatureShare, &msg.parts[1]) else { return };
                    if part.len() < 2 {
                        return;
                    }
                    let id = part[1];
                    let honest = self.honest_partial(r, msg.parts[0][0]);
                    let is_honest = honest.as_deref() == Some(part.as_slice());
                    if let Some((_, pks)) = self.pub_known.clone() {
                        // share verification, decided against the checker's ground truth
                        let claimed = msg.parts[0][0] as usize;
                        if claimed >= 1 && claimed <= self.n {
                            let m = self.msgs[r].clone();
                            let v1 = self.rec.call(self.lib, self.g, Op::PkShareVerify, &[&pks[claimed - 1], &part, &m]);
                            let v2 = self.rec.call(self.lib, self.g, Op::SigShareVerify, &[&part, &pks[claimed - 1], &m]);
                            self.rec.case(&[1, is_honest as u64, self.byz.get(&claimed).copied().unwrap_or(-1) as u64, self.scheme as u64, self.g as u64], !is_honest);
                            if is_honest {
                                self.rec.expect("C08", "partial-verifies-own", v1.is_ok() && v2.is_ok(), || {
                                    format!("own | honest partial of signer {} rejected by its own public-key share: {:?} / {:?}", claimed, v1, v2)
                                });
                                // and against no other participant's
                                let other = if claimed == self.n { 1 } else { claimed + 1 };
                                let v3 = self.rec.call(self.lib, self.g, Op::PkShareVerify, &[&pks[other - 1], &part, &m]);
                                self.rec.expect("C08", "partial-rejects-other", !v3.is_ok(), || {
                                    format!("other | partial of signer {} verified against signer {}'s public-key share", claimed, other)
                                });
                            } else if matches!(self.byz.get(&claimed), Some(2) | Some(4) | Some(5)) {
                                // a share honestly made under ANOTHER scheme is a valid share of that scheme, and a share
                                // whose identifier label alone was changed still carries the participant's own point:
                                // the statement asks for rejection against *other participants'* key shares only.
                                self.rec.probe("byzantine-share-verdict-not-constrained");
                            } else {
                                self.rec.expect("C08", "bad-partial-rejected", !v1.is_ok() && !v2.is_ok(), || {
                                    format!("byz mode {:?} | altered partial from signer {} verified: {} / {}", self.byz.get(&claimed), claimed, v1.kind(), v2.kind())
                                });
                            }
                            if self.verify && !(v1.is_ok() && v2.is_ok()) {
                                return;
                            }
                        }
                    } else if self.verify {
                        return; // cannot verify yet; will be re-requested
                    }
                    if self.dedup && self.collected[r].iter().any(|(i, _)| *i == id) {
                        self.rec.probe("duplicate-partial-ignored");
                        return;
                    }
                    self.collected[r].push((id, part));
                    self.try_combine(r);
                }
                _ => {}
            },
        }
    }
}
impl<'a> Cluster<'a> {
    /// Byzantine payloads may not be encodable in a structured codec; fall back to bytes-in-bytes.
    fn wire_out_lenient(&mut self, ty: Ty, b: &[u8]) -> Vec<u8> {
        if self.wire == Codec::Bytes {
            return b.to_vec();
        }
        match recode(self.rec, self.lib, self.g, ty, Codec::Bytes, self.wire, b) {
            simtypes::Out::Ok(v) => v[0].clone(),
            _ => b.to_vec(),
        }
    }
}

fn apply_faults(plan: &Plan, sim: &mut Sim, rec: &mut Rec) -> BTreeMap<usize, i64> {
    let mut byz = BTreeMap::new();
    for f in &plan.faults {
        let a = |i| f.arg(i);
        match f.k.as_str() {
            "drop" => sim.net_faults.push(NetFault { kind: a(0) as u32, src: a(1), dst: a(2), nth: a(3) as u64, action: NetAction::Drop }),
            "dup" => sim.net_faults.push(NetFault { kind: a(0) as u32, src: a(1), dst: a(2), nth: a(3) as u64, action: NetAction::Dup }),
            "delay" => sim.net_faults.push(NetFault { kind: a(0) as u32, src: a(1), dst: a(2), nth: a(3) as u64, action: NetAction::Delay(a(4) as u64 * MS) }),
            "latedup" => sim.net_faults.push(NetFault { kind: a(0) as u32, src: a(1), dst: a(2), nth: a(3) as u64, action: NetAction::LateDup(a(4) as u64 * MS) }),
            "crash" => {
                if (a(0) as usize) < sim.nodes.len() {
                    sim.schedule_crash(a(1) as u64 * MS, a(0) as usize, a(2) as u8)
                }
            }
            "restart" => {
                if (a(0) as usize) < sim.nodes.len() {
                    sim.schedule_restart(a(1) as u64 * MS, a(0) as usize)
                }
            }
            "partition" => sim.schedule_partition(a(1) as u64 * MS, a(0) as u64),
            "heal" => sim.schedule_heal(a(0) as u64 * MS),
            "stall" => {
                if (a(0) as usize) < sim.nodes.len() {
                    sim.schedule_stall(a(1) as u64 * MS, a(0) as usize, a(2) as u64 * MS)
                }
            }
            "byz" => {
                byz.insert(a(0) as usize, a(1));
            }
            _ => rec.note(format!("unknown fault kind {}", f.k)),
        }
    }
    byz
}

pub fn run_protocol(plan: &Plan, lib: &dyn Lib, g: Grp, rec: &mut Rec, _payload: Payload) {
    let n = plan.get("n").clamp(2, 60) as usize;
    let t = plan.get("t").clamp(2, n as i64) as usize;
    let scheme = plan.get("scheme") as u8;
    let Some(d) = deal(rec, lib, g, plan.get("key_class") as u64, t as u64, n as u64, plan.seed) else {
        rec.expect("C08", "split-ok", false, || format!("split | split({}, {}) of an honest key failed", t, n));
        return;
    };
    let mut x = Xo::derive(plan.seed, &[0x4D56]);
    let rounds: Vec<&Step> = plan.steps.iter().filter(|s| s.k == "round").collect();
    let mut msgs = vec![];
    let mut expected = vec![];
    for s in &rounds {
        let mut mx = Xo::derive(plan.seed, &[0x4D53, s.arg(1) as u64]);
        let m = message(&mut mx, plan.get("msg_class") as usize);
        let e = rec.call(lib, g, Op::Sign, &[&d.sk, &[scheme], &m]);
        match e.first() {
            Some(b) => expected.push(b.to_vec()),
            None => {
                rec.expect("C08", "whole-key-sign-ok", false, || format!("whole-key signing failed: {:?}", e));
                return;
            }
        }
        msgs.push(m);
    }
    let _ = x.next();
    let mut sim = Sim::new(plan.seed, n + 2);
    let byz = apply_faults(plan, &mut sim, rec);
    let nr = msgs.len();
    let mut c = Cluster {
        lib,
        g,
        rec,
        n,
        t,
        scheme,
        wire: codec_of(plan.get("wire")),
        disk: codec_of(plan.get("disk")),
        dedup: plan.get("dedup") != 0,
        verify: plan.get("verify") != 0,
        deal: d,
        msgs,
        expected,
        acked: vec![false; n + 2],
        deal_retries: 0,
        share_mem: vec![None; n + 2],
        byz,
        pub_known: None,
        collected: vec![vec![]; nr],
        combined: vec![None; nr],
        round_started_at: vec![0; nr],
        retry_round: vec![0; nr],
        rounds_total: nr,
        next_round: 0,
        combined_at: vec![0; nr],
        now_hint: 0,
    };
    sim.start_all();
    let finished = sim.run(&mut c, 120_000 * MS, 200_000);
    let class_clean = plan.class == "clean";
    // bounded liveness: all faults are over by now; with >= t honest signers up and holding a share the
    // combiner must have the exact signature within MAX_RETRY_ROUNDS retry rounds after the last fault.
    let honest_ready = (1..=n).filter(|i| sim.nodes[*i].up && c.share_mem[*i].is_some() && !c.byz.contains_key(i)).count();
    let byz_n = c.byz.len();
    let mut all_done = true;
    for r in 0..nr {
        if c.combined[r].is_none() {
            all_done = false;
        }
    }
    let (t_, n_) = (c.t, c.n);
    let byz_detectable = c.byz.values().all(|m| matches!(m, 0 | 1 | 3 | 6 | 7));
    let live_applicable = finished && honest_ready >= t_ && c.dedup && (byz_n == 0 || (c.verify && byz_detectable));
    if live_applicable {
        c.rec.probe("liveness-checked");
        // quiet point: the last scripted fault (incl. its duration) or the last transport fault that fired
        let mut quiet = sim.last_fault_at;
        for f in &plan.faults {
            let end = match f.k.as_str() {
                "crash" | "restart" | "partition" => f.arg(1) as u64 * MS,
                "heal" => f.arg(0) as u64 * MS,
                "stall" => (f.arg(1) + f.arg(2)) as u64 * MS,
                _ => 0,
            };
            quiet = quiet.max(end);
        }
        let slack = 250 * MS + (MAX_RETRY_ROUNDS + 1) * ROUND_PERIOD + 2 * 150 * MS;
        let mut ok = all_done;
        let mut late = vec![];
        if all_done {
            let mut prev_done = 0u64;
            for r in 0..nr {
                let base = quiet.max(c.round_started_at[r]).max(prev_done);
                if c.combined_at[r] > base + slack {
                    ok = false;
                    late.push((r, c.combined_at[r] / MS, base / MS));
                }
                prev_done = c.combined_at[r];
            }
        }
        let retries: Vec<u64> = c.retry_round.clone();
        c.rec.expect("C08", "bounded-liveness", ok, || {
            format!(
                "liveness | t={} n={} ready={} done={} retries={:?} quiet_ms={} late={:?}: combiner did not obtain the exact signature within {} retry rounds once faults stopped",
                t_, n_, honest_ready, all_done, retries, quiet / MS, late, MAX_RETRY_ROUNDS
            )
        });
    } else {
        c.rec.probe("liveness-not-applicable");
    }
    if class_clean {
        c.rec.expect("C08", "clean-run-completes", all_done, || format!("clean | fault-free run did not produce all {} signatures", nr));
    }
    let sample_ids: Vec<Vec<u8>> = c.collected.iter().map(|v| v.iter().map(|x| x.0).collect()).collect();
    c.rec.case(&[2, g as u64, scheme as u64, t as u64, n as u64, plan.faults.len() as u64, sim.schedule_digest], !plan.faults.is_empty());
    c.rec.sample(|| format!("t={} n={} arrival ids per round={:?} done={}", t, n, sample_ids, all_done));
    c.rec.absorb_sim(&sim);

    // end-of-run sweeps over what the signers hold *durably* (after all crashes): key and pk recombination
    let durable: Vec<(usize, Vec<u8>)> = (1..=n)
        .filter_map(|i| {
            let d = sim.nodes[i].disk.durable_get("share")?.clone();
            let b = recode(c.rec, lib, g, Ty::SecretKeyShare, c.disk, Codec::Bytes, &d);
            b.first().map(|v| (i, v.to_vec()))
        })
        .collect();
    if durable.len() >= t {
        let mut xs = Xo::derive(plan.seed, &[0x5AB5]);
        let mut pick = durable.clone();
        xs.shuffle(&mut pick);
        pick.truncate(t + xs.below((durable.len() - t + 1) as u64) as usize);
        let args: Vec<&[u8]> = pick.iter().map(|(_, b)| b.as_slice()).collect();
        let out = c.rec.call(lib, g, Op::Combine, &args);
        let sk = c.deal.sk.clone();
        c.rec.expect("C08", "key-recombine", out.first() == Some(sk.as_slice()), || {
            format!("key | t={} n={} ids={:?}: durable shares do not recombine to the key: {:?}", t, n, pick.iter().map(|x| x.0).collect::<Vec<_>>(), out.kind())
        });
    }
}

/// all subsets of all sizes (n <= 7), or sampled subsets for large n: direct calls on dealt shares
fn run_subsets(plan: &Plan, lib: &dyn Lib, g: Grp, rec: &mut Rec, exhaustive: bool) {
    let n = plan.get("n") as usize;
    let t = plan.get("t") as usize;
    let scheme = plan.get("scheme") as u8;
    let Some(d) = deal(rec, lib, g, plan.get("key_class") as u64, t as u64, n as u64, plan.seed) else {
        rec.expect("C08", "split-ok", false, || format!("split | split({}, {}) of an honest key failed", t, n));
        return;
    };
    let mut x = Xo::derive(plan.seed, &[0x5B5]);
    let m = message(&mut x, plan.get("msg_class") as usize);
    let whole = rec.call(lib, g, Op::Sign, &[&d.sk, &[scheme], &m]);
    let Some(whole) = whole.first().map(|b| b.to_vec()) else {
        rec.expect("C08", "whole-key-sign-ok", false, || "whole-key signing failed".into());
        return;
    };
    let mut partials = vec![];
    for s in &d.shares {
        let o = rec.call(lib, g, Op::ShareSign, &[s, &[scheme], &m]);
        match o.first() {
            Some(b) => partials.push(b.to_vec()),
            None => {
                rec.expect("C08", "partial-sign-ok", false, || format!("partial signing failed: {:?}", o));
                return;
            }
        }
    }
    // identifiers are 1..=n and distinct
    let ids: Vec<u8> = d.shares.iter().map(|s| s[0]).collect();
    let mut sorted = ids.clone();
    sorted.sort();
    sorted.dedup();
    rec.expect("C08", "identifiers-distinct-nonzero", sorted.len() == n && !ids.contains(&0), || format!("ids | split produced identifiers {:?}", ids));
    // each partial verifies against its own pk share and no other
    let pairs_to_check = if exhaustive { n } else { 6.min(n) };
    for k in 0..pairs_to_check {
        let i = if exhaustive { k } else { x.below(n as u64) as usize };
        let v = rec.call(lib, g, Op::PkShareVerify, &[&d.pk_shares[i], &partials[i], &m]);
        rec.expect("C08", "partial-verifies-own", v.is_ok(), || format!("own | partial {} of ({},{}) rejected by own pk share: {:?}", i + 1, t, n, v));
        let j = if exhaustive { (k + 1) % n } else { (i + 1 + x.below((n - 1) as u64) as usize) % n };
        if j != i {
            let v = rec.call(lib, g, Op::PkShareVerify, &[&d.pk_shares[j], &partials[i], &m]);
            rec.expect("C08", "partial-rejects-other", !v.is_ok(), || format!("other | partial {} verified against pk share {}", i + 1, j + 1));
            // same identifier but another participant's point
            let mut forged = d.pk_shares[j].clone();
            forged[0] = d.pk_shares[i][0];
            let v = rec.call(lib, g, Op::PkShareVerify, &[&forged, &partials[i], &m]);
            rec.expect("C08", "partial-rejects-other", !v.is_ok(), || format!("other | partial {} verified against pk share {} relabelled with its identifier", i + 1, j + 1));
        }
        // scheme label and message changed together: participant i's honest partial over (its key-share point || m)
        // under this scheme, relabelled MessageAugmentation and presented for m — i never signed m under any scheme
        if k < 2 {
            let pm = { let mut v = d.pk_shares[i][1..].to_vec(); v.extend_from_slice(&m); v };
            if let Some(mut forged) = rec.call(lib, g, Op::ShareSign, &[&d.shares[i], &[scheme], &pm]).first().map(|b| b.to_vec()) {
                forged[0] = 1;
                let v = rec.call(lib, g, Op::PkShareVerify, &[&d.pk_shares[i], &forged, &m]);
                rec.expect("C08", "relabelled-partial-rejected", !v.is_ok(), || format!("relabel+prefix | a {} partial of participant {} over key-share||m was accepted as a MessageAugmentation partial over m", scheme, i + 1));
                // and the honest partial over m relabelled MessageAugmentation
                let mut relabelled = partials[i].clone();
                relabelled[0] = 1;
                let v = rec.call(lib, g, Op::PkShareVerify, &[&d.pk_shares[i], &relabelled, &m]);
                rec.expect("C08", "relabelled-partial-rejected", !v.is_ok(), || format!("relabel | the honest partial of participant {} was accepted under the MessageAugmentation label", i + 1));
            }
        }
    }
    let mut subsets: Vec<Vec<usize>> = vec![];
    if exhaustive {
        for mask in 0u32..(1 << n) {
            subsets.push((0..n).filter(|i| mask >> i & 1 == 1).collect());
        }
    } else {
        let want = 10;
        for k in 0..want {
            let size = match k {
                0 => t,
                1 => t.saturating_sub(1),
                2 => n,
                3 => (t + 1).min(n),
                _ => x.range(1, n as u64) as usize,
            };
            let mut idx: Vec<usize> = (0..n).collect();
            if k == 4 || k == 5 {
                // exactly t shares: one identifier at one end, t-1 crowded at the other end
                let mut both: Vec<usize> = if k == 4 { std::iter::once(0).chain(n - (t - 1)..n).collect() } else { std::iter::once(n - 1).chain(0..t - 1).collect() };
                both.dedup();
                subsets.push(both);
                continue;
            }
            match k % 3 {
                0 => x.shuffle(&mut idx),
                1 => idx.reverse(), // highest identifiers first
                _ => {}
            }
            idx.truncate(size);
            subsets.push(idx);
        }
    }
    for sub in subsets {
        let mut order = sub.clone();
        if x.chance(1, 2) {
            x.shuffle(&mut order);
        }
        let k = order.len();
        let sig_args: Vec<&[u8]> = order.iter().map(|i| partials[*i].as_slice()).collect();
        let pk_args: Vec<&[u8]> = order.iter().map(|i| d.pk_shares[*i].as_slice()).collect();
        let sk_args: Vec<&[u8]> = order.iter().map(|i| d.shares[*i].as_slice()).collect();
        let so = rec.call(lib, g, Op::SigFromShares, &sig_args);
        let po = rec.call(lib, g, Op::PkFromShares, &pk_args);
        let ko = rec.call(lib, g, Op::Combine, &sk_args);
        rec.case(&[3, g as u64, scheme as u64, t as u64, n as u64, k as u64, order.iter().fold(0u64, |a, i| a.wrapping_mul(257).wrapping_add(*i as u64 + 1))], k != n);
        let idl: Vec<usize> = order.iter().map(|i| i + 1).collect();
        if k >= t {
            if k == t {
                rec.probe("subset-exactly-t");
            }
            rec.expect("C08", "combine-exact", so.first() == Some(whole.as_slice()), || {
                format!("Signature::from_shares | t={} n={} ids={:?}: differs from whole-key signature: {:?}", t, n, idl, so.kind())
            });
            rec.expect("C08", "pk-recombine", po.first() == Some(d.pk.as_slice()), || {
                format!("PublicKey::from_shares | t={} n={} ids={:?}: differs from the public key: {:?}", t, n, idl, po.kind())
            });
            rec.expect("C08", "key-recombine", ko.first() == Some(d.sk.as_slice()), || {
                format!("SecretKey::combine | t={} n={} ids={:?}: differs from the key: {:?}", t, n, idl, ko.kind())
            });
        } else {
            if k + 1 == t {
                rec.probe("subset-t-minus-1");
            }
            rec.expect("C08", "below-threshold", so.first() != Some(whole.as_slice()), || {
                format!("sig | t={} n={} ids={:?}: fewer than t partials produced the whole-key signature", t, n, idl)
            });
            rec.expect("C08", "below-threshold", po.first() != Some(d.pk.as_slice()), || {
                format!("pk | t={} n={} ids={:?}: fewer than t pk shares produced the public key", t, n, idl)
            });
            rec.expect("C08", "below-threshold", ko.first() != Some(d.sk.as_slice()), || {
                format!("key | t={} n={} ids={:?}: fewer than t shares produced the key", t, n, idl)
            });
            if k <= 1 {
                rec.expect("C08", "malformed-sets-error", !so.is_ok() && !po.is_ok() && !ko.is_ok(), || {
                    format!("size-{} | empty/single share set accepted: sig {:?} pk {:?} key {:?}", k, so.kind(), po.kind(), ko.kind())
                });
            }
        }
    }
    malformed_sets(rec, lib, g, &d, &partials, scheme, &m, &mut x);
    rec.sample(|| format!("(t,n)=({},{}) scheme={} g={} subsets exhaustive={}", t, n, scheme, g.name(), exhaustive));
}

fn malformed_sets(rec: &mut Rec, lib: &dyn Lib, g: Grp, d: &Deal, partials: &[Vec<u8>], scheme: u8, m: &[u8], x: &mut Xo) {
    let n = partials.len();
    // duplicated identifier (same share twice, among others)
    let a = x.below(n as u64) as usize;
    let mut set: Vec<&[u8]> = partials.iter().map(|p| p.as_slice()).collect();
    set.insert(x.below(n as u64 + 1) as usize, partials[a].as_slice());
    let o = rec.call(lib, g, Op::SigFromShares, &set);
    rec.expect("C08", "duplicate-ids-error", !o.is_ok(), || format!("dup-id | Signature::from_shares accepted a duplicated share (position of dup varies)"));
    let mut set: Vec<&[u8]> = d.pk_shares.iter().map(|p| p.as_slice()).collect();
    set.push(d.pk_shares[a].as_slice());
    let o = rec.call(lib, g, Op::PkFromShares, &set);
    rec.expect("C08", "duplicate-ids-error", !o.is_ok(), || "dup-id | PublicKey::from_shares accepted a duplicated share".to_string());
    let mut set: Vec<&[u8]> = d.shares.iter().map(|p| p.as_slice()).collect();
    set.push(d.shares[a].as_slice());
    let o = rec.call(lib, g, Op::Combine, &set);
    rec.expect("C08", "duplicate-ids-error", !o.is_ok(), || "dup-id | SecretKey::combine accepted a duplicated share".to_string());
    // same identifier, different payload
    let b = (a + 1) % n;
    let mut forged = partials[b].clone();
    forged[1] = partials[a][1];
    let mut set: Vec<&[u8]> = partials.iter().map(|p| p.as_slice()).collect();
    set.push(&forged);
    let o = rec.call(lib, g, Op::SigFromShares, &set);
    rec.expect("C08", "duplicate-ids-error", !o.is_ok(), || "dup-id | from_shares accepted two different shares with one identifier".to_string());
    // ... the same for key shares and public-key shares (what a set mixed from two dealings of one key looks like: one
    // participant's identifier with two different values), the second copy at a drawn position, in the full set and in a
    // set of just two entries
    let mut fs = d.shares[b].clone();
    fs[0] = d.shares[a][0];
    let mut fp = d.pk_shares[b].clone();
    fp[0] = d.pk_shares[a][0];
    for small in [false, true] {
        let mut set: Vec<&[u8]> = if small { vec![d.shares[a].as_slice()] } else { d.shares.iter().map(|p| p.as_slice()).collect() };
        set.insert(x.below(set.len() as u64 + 1) as usize, &fs);
        let o = rec.call(lib, g, Op::Combine, &set);
        rec.expect("C08", "duplicate-ids-error", !o.is_ok(), || format!("dup-id | SecretKey::combine accepted two different shares with one identifier (set of {}): {}", set.len(), o.kind()));
        let mut set: Vec<&[u8]> = if small { vec![d.pk_shares[a].as_slice()] } else { d.pk_shares.iter().map(|p| p.as_slice()).collect() };
        set.insert(x.below(set.len() as u64 + 1) as usize, &fp);
        let o = rec.call(lib, g, Op::PkFromShares, &set);
        rec.expect("C08", "duplicate-ids-error", !o.is_ok(), || format!("dup-id | PublicKey::from_shares accepted two different shares with one identifier (set of {})", set.len()));
    }
    // zero identifier
    let mut z = partials[a].clone();
    z[1] = 0;
    let mut set: Vec<&[u8]> = partials.iter().enumerate().filter(|(i, _)| *i != a).map(|(_, p)| p.as_slice()).collect();
    set.insert(x.below(set.len() as u64 + 1) as usize, &z);
    let o = rec.call(lib, g, Op::SigFromShares, &set);
    rec.expect("C08", "zero-id-error", !o.is_ok(), || "zero-id | Signature::from_shares accepted a zero identifier".to_string());
    let mut zp = d.pk_shares[a].clone();
    zp[0] = 0;
    let mut set: Vec<&[u8]> = d.pk_shares.iter().enumerate().filter(|(i, _)| *i != a).map(|(_, p)| p.as_slice()).collect();
    set.push(&zp);
    let o = rec.call(lib, g, Op::PkFromShares, &set);
    rec.expect("C08", "zero-id-error", !o.is_ok(), || "zero-id | PublicKey::from_shares accepted a zero identifier".to_string());
    let mut zs = d.shares[a].clone();
    zs[0] = 0;
    let mut set: Vec<&[u8]> = d.shares.iter().enumerate().filter(|(i, _)| *i != a).map(|(_, p)| p.as_slice()).collect();
    set.push(&zs);
    let o = rec.call(lib, g, Op::Combine, &set);
    rec.expect("C08", "zero-id-error", !o.is_ok(), || "zero-id | SecretKey::combine accepted a zero identifier".to_string());
    // mixed schemes: the foreign share at every position in turn
    let other_scheme = if scheme == 0 { 2 } else { 0 };
    for pos in 0..n {
        let o = rec.call(lib, g, Op::ShareSign, &[&d.shares[pos], &[other_scheme], m]);
        let Some(foreign) = o.first().map(|b| b.to_vec()) else { continue };
        let set: Vec<&[u8]> = (0..n).map(|i| if i == pos { foreign.as_slice() } else { partials[i].as_slice() }).collect();
        let o = rec.call(lib, g, Op::SigFromShares, &set);
        rec.expect("C08", "mixed-scheme-error", !o.is_ok(), || format!("mixed | from_shares accepted a set of {} with a foreign-scheme share at position {}", n, pos));
    }
    // two-and-two
    if n >= 4 {
        let mut owned: Vec<Vec<u8>> = vec![];
        for i in 0..n {
            let s = if i < n / 2 { scheme } else { other_scheme };
            if let Some(b) = rec.call(lib, g, Op::ShareSign, &[&d.shares[i], &[s], m]).first() {
                owned.push(b.to_vec());
            }
        }
        let set: Vec<&[u8]> = owned.iter().map(|v| v.as_slice()).collect();
        let o = rec.call(lib, g, Op::SigFromShares, &set);
        rec.expect("C08", "mixed-scheme-error", !o.is_ok(), || "mixed | from_shares accepted a half/half mixed-scheme set".to_string());
    }
    // augmentation shares are refused at signing
    let o = rec.call(lib, g, Op::ShareSign, &[&d.shares[0], &[1], m]);
    rec.expect("C08", "aug-partial-refused", !o.is_ok(), || "aug | SecretKeyShare::sign produced a MessageAugmentation share".to_string());
    // payload that is not a subgroup point must be reported at use
    for (which, bad) in [(0, refimpl::off_subgroup_point(g.sig_len(), 7)), (1, refimpl::off_curve_point(g.sig_len(), 9))] {
        let mut f = partials[a][..2].to_vec();
        f.extend_from_slice(&bad);
        let set: Vec<&[u8]> = (0..n).map(|i| if i == a { f.as_slice() } else { partials[i].as_slice() }).collect();
        let o = rec.call(lib, g, Op::SigFromShares, &set);
        rec.expect("C08", "invalid-payload-error", !o.is_ok(), || format!("payload-{} | from_shares accepted a share whose payload is not a subgroup point", which));
    }
}

/// Share sets of UNUSUAL BUT VALID sharing polynomials, dealt by the reference dealer in the library's own share
/// layout (learnt from a share the library dealt): two participants holding the same value (f(i) = f(j)), a
/// polynomial whose top coefficient is zero, a constant polynomial (every share equals the key), coefficients
/// at 1 / r-1. A random dealer produces these with probability ~2^-255 each; they are valid share sets all the
/// same, and every recombination must give exactly the whole-key results.
fn run_dealer_shapes(plan: &Plan, lib: &dyn Lib, g: Grp, rec: &mut Rec) {
    use refimpl::{scalar_from_be, scalar_from_u64, scalar_neg_u64, scalar_to_be};
    let scheme = plan.get("scheme") as u8;
    let mut x = Xo::derive(plan.seed, &[0x7D5]);
    let shape = plan.steps.first().map(|s| s.arg(0)).unwrap_or(0) as u64 % 7;
    // learn the layout: identifier byte + 32-byte value, big- or little-endian
    let Some(probe) = deal(rec, lib, g, 4, 2, 3, plan.seed) else { return };
    let parse = |sh: &[u8], le: bool| -> Option<(u8, refimpl::RefScalar)> {
        if sh.len() != 33 {
            return None;
        }
        let mut v = sh[1..].to_vec();
        if le {
            v.reverse();
        }
        Some((sh[0], scalar_from_be(&v)?))
    };
    let sk_s = scalar_from_be(&probe.sk).unwrap();
    let mut layout_le = None;
    for le in [false, true] {
        if let (Some((i1, v1)), Some((i2, v2))) = (parse(&probe.shares[0], le), parse(&probe.shares[1], le)) {
            if let Some(l) = refimpl::lagrange_at_zero(&[i1, i2]) {
                if l[0] * v1 + l[1] * v2 == sk_s {
                    layout_le = Some(le);
                }
            }
        }
    }
    let Some(le) = layout_le else {
        rec.probe("share-layout-not-recognised");
        return;
    };
    let build = |id: u8, v: &refimpl::RefScalar| -> Vec<u8> {
        let mut b = scalar_to_be(v);
        if le {
            b.reverse();
        }
        let mut out = vec![id];
        out.extend(b);
        out
    };
    let sk = key_of_class(rec, lib, g, 4 + x.below(2), plan.seed ^ 0xD5);
    let s0 = scalar_from_be(&sk).unwrap();
    let rnd = |x: &mut Xo| refimpl::keygen(&x.bytes(16));
    // (t, n, coefficients a1..a_{t-1}, label)
    let (t, n, coef, label): (usize, usize, Vec<refimpl::RefScalar>, &str) = match shape {
        0 => {
            // f(2) = f(5): 3 a1 + 21 a2 + 117 a3 = 0
            let (a2, a3) = (rnd(&mut x), rnd(&mut x));
            let a1 = -(scalar_from_u64(7) * a2 + scalar_from_u64(39) * a3);
            (4, 7, vec![a1, a2, a3], "two participants hold equal values (f(2)=f(5))")
        }
        1 => (3, 5, vec![rnd(&mut x), scalar_from_u64(0)], "top coefficient zero"),
        2 => (3, 4, vec![scalar_from_u64(0), scalar_from_u64(0)], "constant polynomial (every share equals the key)"),
        3 => (3, 6, vec![scalar_from_u64(1), scalar_neg_u64(1)], "coefficients 1 and r-1"),
        4 => {
            // f(1) = f(3) with t = 3: 2 a1 + 8 a2 = 0
            let a2 = rnd(&mut x);
            (3, 5, vec![-(scalar_from_u64(4) * a2), a2], "two participants hold equal values (f(1)=f(3))")
        }
        5 => {
            // a root at a participant: f(2) = s0 + 2 a1 + 4 a2 = 0 — participant 2 holds the value ZERO
            let a2 = rnd(&mut x);
            let half = Option::<refimpl::RefScalar>::from(scalar_from_u64(2).invert()).unwrap();
            (3, 5, vec![-(s0 + scalar_from_u64(4) * a2) * half, a2], "participant 2 holds the value zero (f(2)=0)")
        }
        _ => {
            // f(5) = s0 + 5 a1 = 0 with t = 2: the last participant holds zero
            let fifth = Option::<refimpl::RefScalar>::from(scalar_from_u64(5).invert()).unwrap();
            (2, 5, vec![-s0 * fifth], "participant 5 holds the value zero (f(5)=0)")
        }
    };
    // a participant whose share value is zero cannot sign (the zero scalar never signs, C04) and its public-key share is the
    // identity: such a participant takes part in KEY recombination only
    let zero_holder: Option<usize> = match shape {
        5 => Some(1),
        6 => Some(4),
        _ => None,
    };
    let eval = |id: u64| -> refimpl::RefScalar {
        let xs = scalar_from_u64(id);
        let mut acc = scalar_from_u64(0);
        for c in coef.iter().rev() {
            acc = (acc + *c) * xs;
        }
        acc + s0
    };
    let shares: Vec<Vec<u8>> = (1..=n as u64).map(|i| build(i as u8, &eval(i))).collect();
    rec.fault("byz-unusual-dealer");
    rec.case(&[8, 77, g as u64, scheme as u64, shape], true);
    let m = b"dealt by hand".to_vec();
    let Some(pk) = rec.call(lib, g, Op::PublicKey, &[&sk]).first().map(|b| b.to_vec()) else { return };
    let Some(whole) = rec.call(lib, g, Op::Sign, &[&sk, &[scheme], &m]).first().map(|b| b.to_vec()) else { return };
    let mut pks = vec![];
    let mut parts = vec![];
    for (si, sh) in shares.iter().enumerate() {
        if Some(si) == zero_holder {
            pks.push(vec![]);
            parts.push(vec![]);
            continue;
        }
        let a = rec.call(lib, g, Op::SharePk, &[sh]);
        let b = rec.call(lib, g, Op::ShareSign, &[sh, &[scheme], &m]);
        match (a.first(), b.first()) {
            (Some(a), Some(b)) => {
                pks.push(a.to_vec());
                parts.push(b.to_vec());
            }
            _ => {
                rec.expect("C08", "partial-created", false, || format!("dealer-shape {} | a valid share was refused: pk {:?} partial {:?}", label, a.kind(), b.kind()));
                return;
            }
        }
    }
    // every subset of size >= t, in a drawn order
    for mask in 1u32..(1 << n) {
        if (mask.count_ones() as usize) < t {
            continue;
        }
        let mut order: Vec<usize> = (0..n).filter(|i| mask >> i & 1 == 1).collect();
        if x.chance(1, 2) {
            x.shuffle(&mut order);
        }
        let ids: Vec<usize> = order.iter().map(|i| i + 1).collect();
        let ko = rec.call(lib, g, Op::Combine, &order.iter().map(|i| shares[*i].as_slice()).collect::<Vec<_>>());
        rec.expect("C08", "key-recombine", ko.first() == Some(sk.as_slice()), || format!("SecretKey::combine | dealer-shape: {}; t={} n={} ids={:?}: {:?}", label, t, n, ids, ko.kind()));
        if zero_holder.is_some_and(|z| order.contains(&z)) {
            continue;
        }
        let po = rec.call(lib, g, Op::PkFromShares, &order.iter().map(|i| pks[*i].as_slice()).collect::<Vec<_>>());
        let so = rec.call(lib, g, Op::SigFromShares, &order.iter().map(|i| parts[*i].as_slice()).collect::<Vec<_>>());
        rec.expect("C08", "pk-recombine", po.first() == Some(pk.as_slice()), || format!("PublicKey::from_shares | dealer-shape: {}; t={} n={} ids={:?}: {:?}", label, t, n, ids, po.kind()));
        rec.expect("C08", "combine-exact", so.first() == Some(whole.as_slice()), || format!("Signature::from_shares | dealer-shape: {}; t={} n={} ids={:?}: {:?}", label, t, n, ids, so.kind()));
    }
    // each partial verifies against its own key share
    for i in (0..n).filter(|i| Some(*i) != zero_holder) {
        let v = rec.call(lib, g, Op::PkShareVerify, &[&pks[i], &parts[i], &m]);
        rec.expect("C08", "partial-verifies-own", v.is_ok(), || format!("own | dealer-shape: {}; participant {}: {:?}", label, i + 1, v));
    }
    rec.sample(|| format!("dealer-shape={} (t,n)=({},{}) scheme={} g={}", label, t, n, scheme, g.name()));
}

fn run_params(plan: &Plan, lib: &dyn Lib, g: Grp, rec: &mut Rec) {
    let sk = key_of_class(rec, lib, g, 4, plan.seed);
    let s32 = [9u8; 32];
    for (t, n, ok) in [
        (0u64, 3u64, false),
        (1, 3, false),
        (1, 1, false),
        (2, 1, false),
        (3, 2, false),
        (4, 3, false),
        (2, 256, false),
        (256, 256, false),
        (2, 1000, false),
        (0, 0, false),
        (2, 2, true),
        (2, 3, true),
        (255, 255, true),
        (2, 255, true),
    ] {
        let o = rec.call(lib, g, Op::Split, &[&sk, &u64b(t), &u64b(n), &s32]);
        rec.case(&[4, t, n, g as u64], !ok);
        if ok {
            rec.expect("C08", "params-in-range-ok", o.is_ok() && o.clone().ok().map(|v| v.len() as u64) == Some(n), || format!("params | split({}, {}) failed or returned a wrong count: {:?}", t, n, o.kind()));
        } else {
            rec.expect("C08", "params-out-of-range-error", !o.is_ok(), || format!("params | split({}, {}) was accepted", t, n));
        }
        let o = rec.call(lib, g, Op::SplitEntropy, &[&sk, &u64b(t), &u64b(n)]);
        if !ok {
            rec.expect("C08", "params-out-of-range-error", !o.is_ok(), || format!("params | split({}, {}) (entropy rng) was accepted", t, n));
        }
    }
    // empty sets
    for op in [Op::SigFromShares, Op::PkFromShares, Op::Combine] {
        let o = rec.call(lib, g, op, &[]);
        rec.expect("C08", "malformed-sets-error", !o.is_ok(), || format!("size-0 | {:?} accepted an empty set", op));
    }
    // the dealer's generator PANICS at its k-th request (a hardware source that fails), the dealer catches the unwind, and
    // deals another key on the same thread: that key's shares recombine to that key
    for k in 0..4u64 {
        let o = rec.call(lib, g, Op::SplitFaultyRng, &[&sk, &u64b(3), &u64b(5), &s32, &u64b(k), &[0u8], &u64b(1), &[1u8]]);
        if o.is_ok() {
            continue; // fewer than k requests were made
        }
        rec.fault("caller-generator-panics-mid-split");
        let other = key_of_class(rec, lib, g, 4, 0xD1CE ^ k);
        let sh = rec.call(lib, g, Op::Split, &[&other, &u64b(2), &u64b(3), &s32]).ok().unwrap_or_default();
        if sh.len() == 3 {
            for pair in [[0usize, 1], [1, 2], [0, 2]] {
                let got = rec.call(lib, g, Op::Combine, &[&sh[pair[0]], &sh[pair[1]]]);
                rec.expect("C08", "key-recombine", got.first() == Some(other.as_slice()), || format!("after-aborted-split request {} g={} | the next key dealt on this thread (2-of-3): shares {:?} do not recombine to it", k, g.name(), pair));
            }
        } else {
            rec.expect("C08", "key-recombine", false, || format!("after-aborted-split request {} g={} | the next split failed", k, g.name()));
        }
    }
    // a transient fault of the dealer's entropy source: ONE request of the caller's generator is answered with a block of
    // zero bytes (or of 0xff bytes), every request in turn. Whatever the dealer does with that block, the sharing is still
    // t-of-n: t shares give the key, t-1 shares do not.
    for (t, n) in [(2u64, 3u64), (3, 5), (4, 6)] {
        for k in 0..(t + 2) {
            // one bad answer (zeros, 0xff), and an OUTAGE: 20 or 64 consecutive requests answered with zeros
            for (fill, width) in [(0u8, 1u64), (0xff, 1), (0, 20), (0, 64)] {
                let o = rec.call(lib, g, Op::SplitFaultyRng, &[&sk, &u64b(t), &u64b(n), &s32, &u64b(k), &[fill], &u64b(width)]);
                let Some(shares) = o.clone().ok() else { continue };
                rec.fault("entropy-source-transient-fault");
                rec.case(&[4, t, n, g as u64, k, fill as u64, width], true);
                let refs: Vec<&[u8]> = shares.iter().map(|b| b.as_slice()).collect();
                let full = rec.call(lib, g, Op::Combine, &refs[..t as usize]);
                rec.expect("C08", "key-recombine", full.first() == Some(sk.as_slice()), || format!("faulty-rng t={} n={} request {} answered with {:#04x} bytes | t shares do not recombine to the key: {:?}", t, n, k, fill, full.kind()));
                if t >= 3 {
                    let few = rec.call(lib, g, Op::Combine, &refs[..(t - 1) as usize]);
                    rec.expect("C08", "below-threshold", few.first() != Some(sk.as_slice()), || format!("faulty-rng t={} n={} request {} answered with {:#04x} bytes | t-1 shares recombine to the key (the sharing polynomial lost its top coefficient)", t, n, k, fill));
                    let few = rec.call(lib, g, Op::Combine, &refs[1..t as usize]);
                    rec.expect("C08", "below-threshold", few.first() != Some(sk.as_slice()), || format!("faulty-rng t={} n={} request {} | t-1 shares (2..t) recombine to the key", t, n, k));
                } else {
                    // t = 2: no single share value may BE the key
                    for sh in &shares {
                        rec.expect("C08", "below-threshold", sh[1..] != sk[..] && { let mut r = sh[1..].to_vec(); r.reverse(); r != sk }, || format!("faulty-rng t=2 n={} request {} answered with {:#04x} bytes | a single share holds the key", n, k, fill));
                    }
                }
            }
        }
    }
}
