//! blsim — deterministic simulation with fault injection for mikelodder7/blsful.
//!   blsim check <ID> <quick|thorough> [--child]
//!   blsim replay <file>
//!   blsim digest <ID> <tier> <threads>        (per-run verdict/artefact logs, for the determinism proof)
//!   blsim selftest
mod driver;
mod env;
mod registry;
mod sc_entropy;
mod courier;
mod sc_agg;
mod sc_codec;
mod sc_compat;
mod sc_conc;
mod sc_crypt;
mod sc_ident;
mod sc_pok;
mod sc_sign;
mod sc_thresh;

use driver::*;
use std::collections::BTreeMap;

fn install_panic_hook() {
    std::panic::set_hook(Box::new(|info| {
        let loc = info.location().map(|l| format!("{}:{}", l.file(), l.line())).unwrap_or_else(|| "?".into());
        if !simtypes::in_facade() {
            // a panic in harness code: never silent
            eprintln!("harness panic at {}: {}", loc, info);
        }
        simtypes::note_panic(loc);
        kernel::conc::panic_started();
    }));
}

fn base_seed() -> u64 {
    std::env::var("VERIF_SEED").ok().and_then(|s| s.trim().parse::<u64>().ok()).unwrap_or(20_241_004)
}
fn threads() -> usize {
    std::env::var("VERIF_THREADS").ok().and_then(|s| s.parse().ok()).unwrap_or(16).clamp(1, 64)
}
fn scale() -> f64 {
    std::env::var("VERIF_SCALE").ok().and_then(|s| s.parse().ok()).unwrap_or(1.0)
}
fn known_path() -> String {
    std::env::var("VERIF_KNOWN").unwrap_or_else(|_| "/verif/known_findings.json".into())
}
fn evidence_dir() -> String {
    std::env::var("VERIF_EVIDENCE_DIR").unwrap_or_else(|_| "/verif/evidence".into())
}

fn seam_gate(spec: &registry::PropSpec) {
    if let Err(e) = env::edge_scalars_selfcheck() {
        eprintln!("harness error: {}", e);
        std::process::exit(2);
    }
    let (c, e) = kernel::seams::self_test();
    if (!c && spec.needs_clock) || (!e && spec.needs_entropy) {
        eprintln!("harness error: seam inactive (clock={}, entropy={}) but required by this check", c, e);
        std::process::exit(2);
    }
    if !c || !e {
        eprintln!("note: seam inactive (clock={}, entropy={}); replays are verdict-exact only", c, e);
    }
}

fn cmd_check(id: &str, tier: Tier, child: bool) -> i32 {
    let env = env::env();
    let Some(spec) = registry::spec(id) else {
        eprintln!("harness error: unknown property {}", id);
        return 2;
    };
    seam_gate(&spec);
    if id == "C18" {
        // the golden corpus is re-derived from the vendored pinned source; it must match the committed digest
        let want = std::fs::read_to_string(std::env::var("VERIF_GOLDEN").unwrap_or_else(|_| "/verif/golden/DIGEST.txt".into())).unwrap_or_default();
        let got = sc_compat::golden_digest(env.pinned);
        if want != got {
            eprintln!("harness error: golden corpus re-derived from the vendored pinned source does not match /verif/golden/DIGEST.txt");
            return 2;
        }
    }
    let known = load_known(&known_path());
    let cap = std::env::var("VERIF_WALL_CAP_S").ok().and_then(|s| s.parse().ok()).unwrap_or(if tier == Tier::Quick { 240.0 } else { 3000.0 });
    let start = std::time::Instant::now();
    let sc = if tier == Tier::Thorough { scale() * spec.thorough_boost } else { scale() };
    let batch = run_batch(id, tier, base_seed(), &spec.classes, &env, threads(), cap, sc);
    let rep = triage(id, &batch, &spec.classes, &env, &known);
    let part = summarise(&batch, &spec.classes, &env, &rep, tier);
    let mut parts = vec![part];
    let mut child_violation = false;
    if child {
        println!("PART-JSON {}", serde_json::to_string(&parts[0]).unwrap());
        return if rep.new_violations > 0 { 1 } else { 0 };
    }
    if spec.also_checked_profile && env.profile == "release" {
        // the same exploration in a build with debug assertions and overflow checks
        let exe = std::env::current_exe().unwrap();
        let checked = exe.to_string_lossy().replace("/release/", "/checked/");
        if std::path::Path::new(&checked).exists() {
            let out = std::process::Command::new(&checked).args(["check", id, tier.name(), "--child"]).output();
            match out {
                Ok(o) => {
                    let so = String::from_utf8_lossy(&o.stdout);
                    for line in so.lines() {
                        if let Some(j) = line.strip_prefix("PART-JSON ") {
                            if let Ok(p) = serde_json::from_str::<PartSummary>(j) {
                                parts.push(p);
                            }
                        } else if line.starts_with("KNOWN-FINDING:") {
                            let already = rep.known_seen.iter().any(|k| line.ends_with(k.as_str()));
                            if !already {
                                println!("{}", line);
                            }
                        } else {
                            println!("{}", line);
                        }
                    }
                    match o.status.code() {
                        Some(0) => {}
                        Some(1) => child_violation = true,
                        c => {
                            eprintln!("harness error: checked-profile child exited with {:?}: {}", c, String::from_utf8_lossy(&o.stderr));
                            return 2;
                        }
                    }
                }
                Err(e) => {
                    eprintln!("harness error: cannot run {}: {}", checked, e);
                    return 2;
                }
            }
        } else {
            eprintln!("harness error: checked-profile binary {} missing", checked);
            return 2;
        }
    }
    let violations = parts.iter().map(|p| p.new_violations).sum::<u64>();
    if tier == Tier::Thorough {
        match determinism_proof(id) {
            Ok((v, a, n)) => {
                parts[0].notes.push(format!("determinism proof: {} runs x 4 processes (1 and 16 worker threads): verdict logs {}, artefact logs {}", n, if v { "identical" } else { "DIFFER" }, if a { "identical" } else { "differ" }));
                if !v && (violations > 0 || child_violation) {
                    // a tree that keeps state between calls (and breaks the property with it) is not deterministic across worker
                    // counts either; the violations found stand, each with its own replay file
                    eprintln!("note: verdict logs differ between 1 and 16 worker threads on this tree; the violations reported stand");
                } else if !v {
                    eprintln!("harness error: verdict logs are not deterministic");
                    return 2;
                }
            }
            Err(e) => {
                eprintln!("harness error: determinism proof could not run: {}", e);
                return 2;
            }
        }
    }
    write_evidence(id, tier, &spec, &parts, start.elapsed().as_secs_f64(), violations);
    let runs: u64 = parts.iter().map(|p| p.runs).sum();
    let evals: u64 = parts.iter().map(|p| p.evaluations).sum();
    println!(
        "{} {}: runs={} evaluations={} lib_calls={} wall={:.1}s violations={} known={}{}",
        id,
        tier.name(),
        runs,
        evals,
        parts.iter().map(|p| p.lib_calls).sum::<u64>(),
        start.elapsed().as_secs_f64(),
        violations,
        parts.iter().map(|p| p.known_seen.len()).sum::<usize>(),
        if parts.iter().any(|p| p.truncated) { " (TRUNCATED by wall cap)" } else { "" }
    );
    if violations > 0 || child_violation {
        1
    } else {
        0
    }
}

fn write_evidence(id: &str, tier: Tier, spec: &registry::PropSpec, parts: &[PartSummary], wall_s: f64, violations: u64) {
    use std::collections::HashSet;
    let mut all: HashSet<u64> = HashSet::new();
    let mut nt: HashSet<u64> = HashSet::new();
    let mut faults: BTreeMap<String, u64> = BTreeMap::new();
    let mut probes: BTreeMap<String, u64> = BTreeMap::new();
    let mut per_class: BTreeMap<String, u64> = BTreeMap::new();
    let mut samples = vec![];
    let mut known = vec![];
    let mut notes = vec![];
    let mut exhaustive = vec![];
    for p in parts {
        all.extend(p.distinct_cases.iter());
        nt.extend(p.nontrivial_cases.iter());
        for (k, v) in &p.faults {
            *faults.entry(k.clone()).or_insert(0) += v;
        }
        for (k, v) in &p.probes {
            *probes.entry(k.clone()).or_insert(0) += v;
        }
        for (k, v) in &p.per_class {
            *per_class.entry(format!("{}:{}", p.profile, k)).or_insert(0) += v;
        }
        if samples.len() < 5 {
            samples.extend(p.samples.iter().take(3).cloned());
        }
        for k in &p.known_seen {
            if !known.contains(k) {
                known.push(k.clone());
            }
        }
        for n in &p.notes {
            if notes.len() < 8 {
                notes.push(format!("[{}] {}", p.profile, n));
            }
        }
        for c in &p.exhaustive_classes {
            if !exhaustive.contains(c) {
                exhaustive.push(c.clone());
            }
        }
    }
    let runs: u64 = parts.iter().map(|p| p.runs).sum();
    let (c_ok, e_ok) = kernel::seams::self_test();
    let ev = serde_json::json!({
        "property_id": id,
        "tier": tier.name(),
        "seed": base_seed(),
        "level": "exploration",
        "coverage": {
            "evaluations": parts.iter().map(|p| p.evaluations).sum::<u64>(),
            "distinct_nontrivial": nt.len(),
            "distinct_cases": all.len(),
            "rule": spec.rule,
            "samples": samples,
            "exhaustive": false,
            "exhaustive_subspaces": exhaustive,
            "runs": runs,
            "runs_per_class": per_class,
            "runs_per_hour": if wall_s > 0.0 { (runs as f64 / wall_s * 3600.0) as u64 } else { 0 },
            "sim_time_s": parts.iter().map(|p| p.sim_time_s).sum::<f64>(),
            "events": parts.iter().map(|p| p.events).sum::<u64>(),
            "library_calls": parts.iter().map(|p| p.lib_calls).sum::<u64>(),
            "faults_fired": faults,
            "probes": probes,
            "distinct_schedules": parts.iter().map(|p| p.distinct_schedules).sum::<u64>(),
            "profiles": parts.iter().map(|p| p.profile.clone()).collect::<Vec<_>>(),
            "truncated_by_wall_cap": parts.iter().any(|p| p.truncated),
            "jobs_planned": parts.iter().map(|p| p.jobs_total).sum::<u64>(),
            "seams": {"clock": c_ok, "entropy": e_ok},
            "components": {
                "real": ["blsful (/repo working tree) behind the byte-level facade", "vsss-rs", "blstrs_plus + blst (C/asm)", "bls12_381_plus", "serde_bare", "serde_json", "hkdf", "sha2", "sha3", "merlin", "uint-zigzag", "rand_chacha"],
                "stub": ["party state machines", "transport", "disks", "per-node clocks", "entropy device", "scheduler", "reference implementation `ref` (oracle)"]
            },
            "flavours": spec.flavours,
            "known_findings_seen": known,
            "unwinds_noted_outside_this_property": parts.iter().map(|p| p.panics_noted).sum::<u64>(),
            "notes": notes,
        },
        "assumptions": spec.assumptions,
        "wall_s": wall_s,
        "violations": violations,
    });
    let dir = evidence_dir();
    let _ = std::fs::create_dir_all(&dir);
    let path = format!("{}/{}.json", dir, id);
    if let Err(e) = std::fs::write(&path, serde_json::to_string_pretty(&ev).unwrap()) {
        eprintln!("harness error: cannot write {}: {}", path, e);
        std::process::exit(2);
    }
}

fn cmd_replay(path: &str) -> i32 {
    let env = env::env();
    let Ok(s) = std::fs::read_to_string(path) else {
        eprintln!("harness error: cannot read {}", path);
        return 2;
    };
    let Ok(rf) = serde_json::from_str::<kernel::plan::ReplayFile>(&s) else {
        eprintln!("harness error: cannot parse {}", path);
        return 2;
    };
    if rf.profile != env.profile {
        let exe = std::env::current_exe().unwrap();
        let other = exe.to_string_lossy().replace(&format!("/{}/", env.profile), &format!("/{}/", rf.profile));
        if other != exe.to_string_lossy() && std::path::Path::new(&other).exists() {
            let st = std::process::Command::new(other).args(["replay", path]).status();
            return st.ok().and_then(|s| s.code()).unwrap_or(2);
        }
    }
    let Some(spec) = registry::spec(&rf.plan.property) else { return 2 };
    let Some(sc) = spec.classes.iter().map(|c| c.scenario).find(|s| s.name() == rf.plan.scenario) else {
        eprintln!("harness error: scenario {} not registered for {}", rf.plan.scenario, rf.plan.property);
        return 2;
    };
    // earlier runs that put library-internal state in place (history-dependent failures only)
    for p in &rf.prelude {
        if let Some(psc) = spec.classes.iter().map(|c| c.scenario).find(|s| s.name() == p.scenario) {
            let _ = std::panic::catch_unwind(std::panic::AssertUnwindSafe(|| execute(psc, p, &env)));
        }
    }
    // a replay that kills the process reproduces a process-abort finding: the fatal-signal handler says so
    kernel::rec::set_inflight(Some((rf.plan.property.clone(), path.to_string(), s.clone())));
    let rec = execute(sc, &rf.plan, &env);
    kernel::rec::set_inflight(None);
    let hit = rec.violations.iter().find(|v| v.property == rf.expect.property && v.invariant == rf.expect.invariant);
    match hit {
        Some(v) => {
            println!("REPRODUCED property={} invariant={} at={} detail={}", v.property, v.invariant, v.at, v.detail);
            if v.detail != rf.expect.detail {
                println!("  (detail differs from the recorded one: {})", rf.expect.detail);
            }
            println!("VIOLATION property={} replay={}", v.property, path);
            1
        }
        None => {
            println!("not reproduced: the plan runs clean on this tree ({} evaluations, {} other violations)", rec.evals, rec.violations.len());
            0
        }
    }
}

/// Determinism proof: the same seeds executed twice at 1 and at 16 worker threads in four separate processes;
/// per-run verdict logs must be byte-identical (harness error otherwise); artefact logs are compared and reported.
fn determinism_proof(id: &str) -> Result<(bool, bool, usize), String> {
    let exe = std::env::current_exe().map_err(|e| e.to_string())?;
    let mut outs: Vec<Vec<(String, String, String)>> = vec![];
    for threads in ["1", "16", "1", "16"] {
        let o = std::process::Command::new(&exe).args(["digest", id, "quick", threads]).env("VERIF_SCALE", "0.04").output().map_err(|e| e.to_string())?;
        if !o.status.success() {
            return Err(format!("digest child failed: {}", String::from_utf8_lossy(&o.stderr)));
        }
        let mut rows: Vec<(String, String, String)> = String::from_utf8_lossy(&o.stdout)
            .lines()
            .map(|l| {
                let f: Vec<&str> = l.split_whitespace().collect();
                (format!("{} {}", f[0], f[1]), format!("{} {}", f[2], f.get(5).unwrap_or(&"")), format!("{} {}", f[3], f[4]))
            })
            .collect();
        rows.sort();
        outs.push(rows);
    }
    let n = outs[0].len();
    let verdict_same = outs.iter().all(|o| o.len() == n && o.iter().zip(outs[0].iter()).all(|(a, b)| a.0 == b.0 && a.1 == b.1));
    let artefact_same = outs.iter().all(|o| o.len() == n && o.iter().zip(outs[0].iter()).all(|(a, b)| a.2 == b.2));
    Ok((verdict_same, artefact_same, n))
}

fn cmd_digest(id: &str, tier: Tier, nthreads: usize) -> i32 {
    let env = env::env();
    let Some(spec) = registry::spec(id) else { return 2 };
    let batch = run_batch(id, tier, base_seed(), &spec.classes, &env, nthreads, 600.0, scale());
    for s in &batch.summaries {
        println!("{} {} {:016x} {:016x} {:016x} {}", s.class_idx, s.seed, s.verdict_log, s.artefact_log, s.schedule, s.evals);
    }
    0
}

/// The process allocator: the system allocator plus one hook — every allocation made inside a library call proper may
/// advance the simulated clock of the calling thread ("time flows with work", kernel::seams::on_alloc). Off unless a
/// scenario sets a tick.
struct TickAlloc;
unsafe impl std::alloc::GlobalAlloc for TickAlloc {
    // every allocation and deallocation is also an EVENT of the calling thread for the thread scheduler of
    // kernel::conc (a no-op unless the thread is a caller thread of a scheduled session); the thread is never
    // preempted while it is inside the system allocator
    unsafe fn alloc(&self, l: std::alloc::Layout) -> *mut u8 {
        kernel::seams::on_alloc();
        kernel::conc::alloc_enter();
        let p = std::alloc::System.alloc(l);
        kernel::conc::alloc_exit();
        p
    }
    unsafe fn dealloc(&self, p: *mut u8, l: std::alloc::Layout) {
        kernel::conc::alloc_enter();
        std::alloc::System.dealloc(p, l);
        kernel::conc::alloc_exit();
    }
    unsafe fn alloc_zeroed(&self, l: std::alloc::Layout) -> *mut u8 {
        kernel::seams::on_alloc();
        kernel::conc::alloc_enter();
        let p = std::alloc::System.alloc_zeroed(l);
        kernel::conc::alloc_exit();
        p
    }
    unsafe fn realloc(&self, p: *mut u8, l: std::alloc::Layout, n: usize) -> *mut u8 {
        kernel::seams::on_alloc();
        kernel::conc::alloc_enter();
        let q = std::alloc::System.realloc(p, l, n);
        kernel::conc::alloc_exit();
        q
    }
}
#[global_allocator]
static ALLOC: TickAlloc = TickAlloc;

fn main() {
    install_panic_hook();
    kernel::rec::install_fatal_handler();
    let _ = std::collections::hash_map::RandomState::new();
    let args: Vec<String> = std::env::args().collect();
    let tier_of = |s: &str| if s == "thorough" { Tier::Thorough } else { Tier::Quick };
    let code = match args.get(1).map(|s| s.as_str()) {
        Some("check") if args.len() >= 4 => cmd_check(&args[2], tier_of(&args[3]), args.iter().any(|a| a == "--child")),
        Some("replay") if args.len() >= 3 => cmd_replay(&args[2]),
        Some("digest") if args.len() >= 5 => cmd_digest(&args[2], tier_of(&args[3]), args[4].parse().unwrap_or(1)),
        Some("determinism") if args.len() >= 3 => {
            let mut rc = 0;
            for id in &args[2..] {
                match determinism_proof(id) {
                    Ok((v, a, n)) => {
                        println!("determinism {}: {} runs x 4 processes (1 and 16 threads): verdict logs {} artefact logs {}", id, n, if v { "identical" } else { "DIFFER" }, if a { "identical" } else { "differ" });
                        if !v {
                            rc = 2;
                        }
                    }
                    Err(e) => {
                        eprintln!("harness error: {}", e);
                        rc = 2;
                    }
                }
            }
            rc
        }
        Some("entropy-child") if args.len() >= 7 => sc_entropy::child_main(&args[2..]),
        Some("scale-child") if args.len() >= 7 => sc_sign::scale_child_main(&args[2..]),
        Some("golden-write") if args.len() >= 3 => {
            let dir = &args[2];
            let _ = std::fs::create_dir_all(dir);
            let e = env::env();
            std::fs::write(format!("{}/DIGEST.txt", dir), sc_compat::golden_digest(e.pinned)).unwrap();
            for g in simtypes::Grp::ALL {
                let mut out = String::new();
                for (s, cd, b) in sc_compat::golden_corpus(e.pinned, g, 33) {
                    out.push_str(&serde_json::json!({"type": s.ty.name(), "specimen": s.label, "codec": cd.name(), "hex": kernel::plan::hex(&b)}).to_string());
                    out.push('\n');
                }
                std::fs::write(format!("{}/corpus-{}-payload33.jsonl", dir, g.name()), out).unwrap();
            }
            0
        }
        Some("golden-digest") => {
            print!("{}", sc_compat::golden_digest(env::env().pinned));
            0
        }
        Some("selftest") => {
            let (c, e) = kernel::seams::self_test();
            println!("seams clock={} entropy={} profile={}", c, e, env::env().profile);
            if c && e {
                0
            } else {
                2
            }
        }
        _ => {
            eprintln!("usage: blsim check <ID> <quick|thorough> | replay <file> | digest <ID> <tier> <threads> | selftest");
            2
        }
    };
    std::process::exit(code);
}
