use simtypes::*;
fn main() {
    let (c, e) = kernel::seams::self_test();
    println!("seams clock={} entropy={}", c, e);
    let libs: Vec<&dyn Lib> = vec![&flav_blst::LIB, &flav_rust::LIB, &flav_pinned::LIB];
    for l in libs {
        for g in Grp::ALL {
            let sk = l.call(g, Op::KeyFromHash, &[b"seed"]).ok().unwrap();
            let pk = l.call(g, Op::PublicKey, &[&sk[0]]).ok().unwrap();
            let sig = l.call(g, Op::Sign, &[&sk[0], &[0], b"msg"]).ok().unwrap();
            let v = l.call(g, Op::Verify, &[&sig[0], &pk[0], b"msg"]);
            println!("{} {:?} sk={} sig={} verify={:?}", l.name(), g, hex(&sk[0]), hex(&sig[0][..8]), v);
        }
    }
}
fn hex(b: &[u8]) -> String { b.iter().map(|x| format!("{:02x}", x)).collect() }
