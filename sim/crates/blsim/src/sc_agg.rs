//! AGG (C06) and MULTISIG (C07): n signers send (pk, msg, sig) to an aggregator through loss,
//! duplication and reordering; the aggregator combines what arrived (with or without
//! de-duplication) and verifiers check it against pair lists that a relay may perturb.

use crate::courier::{install_faults, Courier};
use crate::driver::{Scenario, Tier};
use crate::env::*;
use crate::sc_sign::own_tags;
use kernel::plan::{Plan, Step};
use kernel::rec::Rec;
use kernel::seams::Xo;
use refimpl::{Bls, Pt, Scheme};
use simtypes::{Grp, Lib, Op};
use std::collections::BTreeMap;

pub struct AggSc;
pub static AGG: AggSc = AggSc;

const K_CONTRIB: u32 = 40;

impl Scenario for AggSc {
    fn name(&self) -> &'static str {
        "agg"
    }
    fn cfg_floor(&self) -> BTreeMap<String, i64> {
        let mut m = BTreeMap::new();
        m.insert("n".into(), 2);
        m.insert("msg_class".into(), 1);
        m
    }
    fn gen(&self, property: &str, class: &str, seed: u64, index: u64, tier: Tier) -> Plan {
        let mut x = Xo::derive(seed, &[0xA66]);
        let mut p = Plan { scenario: "agg".into(), property: property.into(), seed, class: class.into(), ..Default::default() };
        p.set("g", (index % 2) as i64);
        let multi = class.starts_with("multi");
        p.set("scheme", if multi { *x.pick(&[0i64, 2]) } else { ((index / 2) % 3) as i64 });
        let n = match class {
            "agg-every-n" | "multi-every-n" => 2 + (index / 6 % 63) as i64,
            // the largest list sizes the property names (65 and 64 pairing terms incl. the closing one)
            "agg-max-n" | "multi-max-n" => [64i64, 63, 64, 62][(index / 6 % 4) as usize],
            _ => {
                if tier == Tier::Thorough && x.chance(1, 10) {
                    x.range(17, 64) as i64
                } else if x.chance(1, 40) {
                    64
                } else {
                    x.range(2, 12) as i64
                }
            }
        };
        p.set("n", n);
        if class == "agg-block-sizes" {
            // list sizes at which n or n+1 (the closing pairing term) is a multiple of a plausible batch size
            let sizes = block_sizes();
            p.set("n", sizes[(index / 2) as usize % sizes.len()] as i64);
            p.set("scheme", [2i64, 0, 1][(index / 2 / sizes.len() as u64) as usize % 3]);
        }
        if class == "agg-very-long" {
            // beyond every block size a memory-bounded implementation would plausibly pick (64 MiB of prepared terms is
            // ~3400): 2^k + 1 entries
            // ... and the sizes at which the list, or the list plus the closing term, fills a whole number of blocks of
            // 2^k bytes of PREPARED pairing terms (a prepared G2 point is 68 * 6 * 48 = 19584 bytes in both back ends:
            // 16 MiB = 856 terms, 32 MiB = 1713, 64 MiB = 3426, 128 MiB = 6853)
            let sizes: &[i64] = if tier == Tier::Thorough { &[2049, 4097, 8193, 16385, 855, 856, 1712, 1713, 3425, 3426, 6852, 6853, 5138, 5139] } else { &[4097, 1712, 1713, 3425, 3426, 855, 856] };
            p.set("n", sizes[(index / 2) as usize % sizes.len()]);
            // beyond the list: ORDINARY sizes (no power-of-two shape)
            if (index / 2) as usize >= sizes.len() {
                p.set("n", x.range(2050, 6000) as i64);
            }
            p.set("scheme", [2i64, 0, 1][(index / 2 / sizes.len() as u64) as usize % 3]);
        }
        if class == "mixed-blocks" {
            p.set("scheme", (index / 2 % 2) as i64 * 2);
            p.set("kind", (index / 4 % 2) as i64); // 0 aggregate, 1 multi-signature
        }
        p.set("msg_class", *x.pick(&[1i64, 2, 3, 4, 16, 17]));
        p.set("dup_msgs", *x.pick(&[0i64, 0, 1, 1, 2, 3, 4, 5, 6])); // 0 distinct, 1 one repeated pair, 2 all equal, 3..6 two distinct but related messages
        p.set("dedup", x.below(2) as i64);
        p.steps.push(Step::new(class, &[index as i64]));
        if class.ends_with("protocol") {
            let nf = x.below(5);
            for _ in 0..nf {
                match x.below(4) {
                    0 => p.faults.push(Step::new("drop", &[K_CONTRIB as i64, x.below(n as u64) as i64])),
                    1 => p.faults.push(Step::new("dup", &[K_CONTRIB as i64, x.below(n as u64) as i64])),
                    2 => p.faults.push(Step::new("delay", &[K_CONTRIB as i64, x.below(n as u64) as i64, x.range(20, 500) as i64])),
                    _ => p.faults.push(Step::new("latedup", &[K_CONTRIB as i64, x.below(n as u64) as i64, x.range(50, 800) as i64])),
                }
            }
        }
        p.faults.push(Step::new("perturb", &[x.below(12) as i64, x.below(1 << 20) as i64]));
        p
    }
    fn run(&self, plan: &Plan, env: &Env, rec: &mut Rec) {
        if plan.class == "agg-block-sizes" || plan.class == "agg-very-long" {
            return run_block_sizes(plan, env.cur, rec);
        }
        if plan.class == "mixed-blocks" {
            return run_mixed_blocks(plan, env.cur, rec);
        }
        if plan.class.starts_with("multi") {
            run_multi(plan, env.cur, rec)
        } else {
            run_agg(plan, env.cur, rec)
        }
    }
}

struct Signer {
    sk: Vec<u8>,
    pk: Vec<u8>,
    msg: Vec<u8>,
    sig: Vec<u8>,
}

fn signers(rec: &mut Rec, lib: &dyn Lib, g: Grp, plan: &Plan, same_msg: bool) -> Option<Vec<Signer>> {
    let n = plan.get("n").clamp(2, 64) as usize;
    let scheme = plan.get("scheme") as u8;
    let mut x = Xo::derive(plan.seed, &[0xA67]);
    let base = message(&mut x, plan.get("msg_class") as usize);
    let dup = plan.get("dup_msgs");
    let mut v = vec![];
    for i in 0..n {
        // edge keys 1, 2, r-2, r-1 take part; where all signers share one message the pairs (1, r-1) and (2, r-2)
        // are not both present (their keys and signatures would sum to the identity, which is rightly refused)
        // … except that with three or more same-message signers the pair (2, r-2) IS present at indices 1 and 2: their
        // contributions cancel, the rest does not, and the accumulation / aggregate is an ordinary valid one
        let class = if same_msg || dup == 2 { if n >= 3 && (i == 1 || i == 2) { i as u64 } else if i == 0 { 0 } else { 4 } } else if i < 4 { i as u64 } else { 4 };
        let sk = key_of_class(rec, lib, g, class, plan.seed.wrapping_add(i as u64 * 7919));
        let pk = rec.call(lib, g, Op::PublicKey, &[&sk]).first()?.to_vec();
        let mut msg = base.clone();
        if !same_msg && dup != 2 {
            msg.extend_from_slice(&(i as u32).to_be_bytes());
        }
        v.push((sk, pk, msg));
    }
    if !same_msg && dup >= 3 && n >= 2 {
        // two DISTINCT messages in a structural relation a set-membership shortcut might confuse:
        // digest of the other, 32-byte prefix of the other, the other plus a zero byte
        let a = x.below(n as u64) as usize;
        let b = (a + 1 + x.below((n - 1) as u64) as usize) % n;
        let mut long = v[a].2.clone();
        while long.len() <= 40 {
            long.extend_from_slice(b"-padding-to-make-the-message-longer-than-a-digest");
        }
        v[a].2 = long.clone();
        v[b].2 = match dup {
            3 => <sha2::Sha256 as sha2::Digest>::digest(&long).to_vec(),
            4 => long[..32].to_vec(),
            5 => { let mut m = long.clone(); m.push(0); m }
            _ => <sha2::Sha512 as sha2::Digest>::digest(&long).to_vec(),
        };
    }
    if !same_msg && dup == 1 && n >= 3 {
        // one repeated message between two signers at drawn positions (adjacent or not)
        let a = x.below(n as u64) as usize;
        let mut b = x.below(n as u64) as usize;
        if b == a {
            b = (a + 2) % n;
        }
        v[b].2 = v[a].2.clone();
    }
    let mut out = vec![];
    for (sk, pk, msg) in v {
        let sig = rec.call(lib, g, Op::Sign, &[&sk, &[scheme], &msg]).first()?.to_vec();
        out.push(Signer { sk, pk, msg, sig });
    }
    Some(out)
}

fn to_pairs(list: &[(Vec<u8>, Vec<u8>)]) -> Option<Vec<(Pt, Vec<u8>)>> {
    list.iter().map(|(pk, m)| Pt::from_bytes(pk).map(|p| (p, m.clone()))).collect()
}

fn agg_verify(rec: &mut Rec, lib: &dyn Lib, g: Grp, agg: &[u8], list: &[(Vec<u8>, Vec<u8>)]) -> simtypes::Out {
    let mut args: Vec<&[u8]> = vec![agg];
    for (pk, m) in list {
        args.push(pk);
        args.push(m);
    }
    rec.call(lib, g, Op::AggVerify, &args)
}

fn run_agg(plan: &Plan, lib: &dyn Lib, rec: &mut Rec) {
    let g = grp_of(plan.get("g"));
    let scheme = plan.get("scheme") as u8;
    let sch = scheme_name(scheme);
    let Some(ss) = signers(rec, lib, g, plan, false) else { return };
    let n = ss.len();
    let Some((tags, _)) = own_tags(rec, lib, g) else { return };
    let b = Bls::with_tags(sig_grp(g), tags);
    let mut x = Xo::derive(plan.seed, &[0xA68]);
    let mut c = Courier::new(plan.seed, n + 2);
    install_faults(&mut c, &plan.faults);
    let agg_node = n + 1;
    // contributions travel to the aggregator
    let protocol = plan.class.ends_with("protocol");
    let mut arrived_idx: Vec<usize> = vec![];
    if protocol {
        for (i, s) in ss.iter().enumerate() {
            c.sim.send(i + 1, agg_node, kernel::sim::Msg { kind: K_CONTRIB, corr: i as u64, parts: vec![vec![i as u8], s.pk.clone(), s.msg.clone(), s.sig.clone()] });
        }
        for a in c.settle(agg_node, K_CONTRIB) {
            let i = a.parts[0][0] as usize;
            if plan.get("dedup") != 0 && arrived_idx.contains(&i) {
                rec.probe("duplicate-contribution-dropped");
                continue;
            }
            if arrived_idx.contains(&i) {
                rec.probe("duplicate-contribution-aggregated-twice");
            }
            arrived_idx.push(i);
        }
    } else {
        arrived_idx = (0..n).collect();
        x.shuffle(&mut arrived_idx);
    }
    if arrived_idx.len() < n {
        rec.probe("aggregate-over-partial-arrivals");
    }
    let sig_args: Vec<&[u8]> = arrived_idx.iter().map(|i| ss[*i].sig.as_slice()).collect();
    let agg = c.at(agg_node, || rec.call(lib, g, Op::Aggregate, &sig_args));
    if arrived_idx.len() < 2 {
        rec.expect("C06", "fewer-than-two-refused", !agg.is_ok(), || format!("count n={} | aggregation of {} signature(s) accepted", n, arrived_idx.len()));
        c.finish(rec);
        return;
    }
    let Some(agg) = agg.first().map(|v| v.to_vec()) else {
        rec.expect("C06", "aggregation-succeeds", false, || format!("aggregate scheme={} n={} | {:?}", sch, arrived_idx.len(), agg));
        return;
    };
    let agg_pt = Pt::from_bytes(&agg[1..]);
    let exact: Vec<(Vec<u8>, Vec<u8>)> = arrived_idx.iter().map(|i| (ss[*i].pk.clone(), ss[*i].msg.clone())).collect();
    let decide = |rec: &mut Rec, list: &[(Vec<u8>, Vec<u8>)], label: &str, must: Option<bool>| {
        let out = agg_verify(rec, lib, g, &agg, list);
        let exp = match (to_pairs(list), &agg_pt) {
            (Some(p), Some(a)) => b.aggregate_verify(Scheme::from_u8(scheme), &p, a),
            _ => false,
        };
        let repeated = (0..list.len()).any(|i| (0..i).any(|j| list[i].1 == list[j].1));
        rec.case(&[6, g as u64, scheme as u64, list.len() as u64, label.len() as u64 + label.as_bytes()[0] as u64 * 13, repeated as u64, exp as u64], label != "exact-list");
        rec.expect("C06", "decision-equals-reference", out.is_ok() == exp, || {
            format!("{} scheme={} g={} | n={} repeated_message={}: library says {}, reference AggregateVerify (distinct-message rule for Basic only) says {}", label, sch, g.name(), list.len(), repeated, out.kind(), exp)
        });
        // the same list through the scheme trait's own entry point with an iterator of another kind (a filtered, generated,
        // chained or flattened iterator reports other size bounds than a slice does): the decision may not depend on it
        let kind = [(list.len() as u8 + label.len() as u8) % 5];
        let mut targs: Vec<&[u8]> = vec![&kind, agg.as_slice()];
        for (pk, m) in list {
            targs.push(pk.as_slice());
            targs.push(m.as_slice());
        }
        let tout = rec.call(lib, g, Op::AggVerifyTrait, &targs);
        rec.expect("C06", "decision-equals-reference", tout.is_ok() == exp, || {
            format!("{} via-trait-iterator-kind-{} scheme={} g={} | n={} repeated_message={}: the scheme trait's aggregate_verify says {}, reference says {}", label, kind[0], sch, g.name(), list.len(), repeated, tout.kind(), exp)
        });
        // a source that is NOT fused (a paged reader, a channel's try_iter): the list ends at its first None. Kind 6 yields the
        // whole list, None, and — if asked again — the whole list once more: the decision is that of the list. Kind 5 yields
        // the first half, None, then the second half: the decision is that of the FIRST HALF (for this aggregate: refused,
        // unless the reference accepts the half)
        if list.len() >= 2 && list.len() <= 24 {
            let k6 = [6u8];
            targs[0] = &k6;
            let o6 = rec.call(lib, g, Op::AggVerifyTrait, &targs);
            rec.expect("C06", "decision-equals-reference", o6.is_ok() == exp, || format!("{} via-unfused-iterator(all, None, all again) scheme={} g={} | n={}: the scheme trait says {}, the reference says {} for the list up to the first None", label, sch, g.name(), list.len(), o6.kind(), exp));
            let half = &list[..list.len() / 2];
            let exp_half = match (to_pairs(half), &agg_pt) {
                (Some(p), Some(a)) if half.len() >= 1 => b.aggregate_verify(Scheme::from_u8(scheme), &p, a),
                _ => false,
            };
            let k5 = [5u8];
            targs[0] = &k5;
            let o5 = rec.call(lib, g, Op::AggVerifyTrait, &targs);
            if !(half.len() < 2 && o5.is_ok() == false) {
                rec.expect("C06", "decision-equals-reference", o5.is_ok() == exp_half, || format!("{} via-unfused-iterator(first half, None, second half) scheme={} g={} | n={}: the scheme trait says {}, the reference says {} for the {} entries before the first None", label, sch, g.name(), list.len(), o5.kind(), exp_half, half.len()));
            }
        }
        if let Some(m) = must {
            rec.expect("C06", if m { "exact-list-verifies" } else { "perturbed-list-rejected" }, out.is_ok() == m, || {
                format!("{} scheme={} g={} | n={} repeated_message={}: expected {} but library says {}", label, sch, g.name(), list.len(), repeated, if m { "accept" } else { "reject" }, out.kind())
            });
        }
    };
    let has_repeat = (0..exact.len()).any(|i| (0..i).any(|j| exact[i].1 == exact[j].1));
    if has_repeat {
        rec.probe("list-with-repeated-message");
    }
    let honest_expect = !(scheme == 0 && has_repeat);
    decide(rec, &exact, "exact-list", Some(honest_expect));
    // the same list handed over by an iterator whose closure runs ANOTHER aggregate verification (Basic, two entries) or a
    // signature verification for each entry before yielding it: library calls nested in the call — same decision
    if exact.len() <= 12 {
        for nested in [2u8, 3] {
            let mut a: Vec<&[u8]> = vec![&agg, std::slice::from_ref(&nested)];
            let dummy: Vec<Vec<u8>> = exact.iter().map(|_| ss[0].sig[1..].to_vec()).collect();
            for (i, (pk, m)) in exact.iter().enumerate() {
                a.push(pk);
                a.push(m);
                a.push(&dummy[i]);
            }
            let o = rec.call(lib, g, Op::AggVerifyReentrant, &a);
            rec.fault("library-call-nested-in-library-call");
            rec.expect("C06", if honest_expect { "exact-list-verifies" } else { "repeated-message-rejected-in-basic" }, o.is_ok() == honest_expect, || format!("exact-list nested-call-kind-{} scheme={} g={} | n={} repeated_message={}: with a library call nested in the iterator the verifier says {}, expected {}", nested, sch, g.name(), exact.len(), has_repeat, o.kind(), if honest_expect { "accept" } else { "reject" }));
        }
    }
    // any order
    let mut perm = exact.clone();
    x.shuffle(&mut perm);
    decide(rec, &perm, "permuted-list", Some(honest_expect));
    let mut rev = exact.clone();
    rev.reverse();
    decide(rec, &rev, "reversed-list", Some(honest_expect));
    // the relay perturbs the list
    let (mode, salt) = plan.faults.iter().find(|f| f.k == "perturb").map(|f| (f.arg(0), f.arg(1) as u64)).unwrap_or((0, 0));
    let mut l = exact.clone();
    let pos = (salt as usize) % l.len();
    let other = ss.iter().position(|s| !arrived_idx.contains(&ss.iter().position(|t| t.pk == s.pk).unwrap()));
    rec.fault("byz-relay");
    let (label, must): (&str, Option<bool>) = match mode {
        0 => { l[pos].1.push(1); ("message-altered", Some(false)) }
        1 => { if l[pos].1.is_empty() { l[pos].1.push(0) } else { let i = (salt as usize >> 8) % (l[pos].1.len() * 8); l[pos].1[i / 8] ^= 1 << (i % 8); } ("message-bitflip", Some(false)) }
        2 => { let k = refimpl::keygen(&salt.to_le_bytes()); l[pos].0 = Pt::from_bytes(&l[pos].0).map(|p| p.add(&p.gen_like().mul(&k)).to_bytes()).unwrap_or_default(); ("key-altered", Some(false)) }
        3 => { l.remove(pos); ("pair-dropped", Some(false)) }
        4 => { let extra = (ss[0].pk.clone(), b"an added pair".to_vec()); l.insert(pos, extra); ("pair-added", Some(false)) }
        5 => {
            let q = (pos + 1 + (salt as usize >> 4) % (l.len() - 1).max(1)) % l.len();
            if l[pos].0 != l[q].0 && l[pos].1 != l[q].1 {
                let t = l[pos].1.clone(); l[pos].1 = l[q].1.clone(); l[q].1 = t;
                ("messages-swapped-between-signers", Some(false))
            } else { ("messages-swapped-noop", None) }
        }
        6 => { let d = l[pos].clone(); l.push(d); ("pair-duplicated", Some(false)) }
        7 => { if let Some(o) = other { l[pos] = (ss[o].pk.clone(), ss[o].msg.clone()); ("pair-replaced-by-absent-signer", Some(false)) } else { l[pos].0 = l[(pos + 1) % l.len()].0.clone(); ("key-replaced", None) } }
        8 => { l[pos].1.clear(); ("message-emptied", None) }
        9 => { let q = (pos + 1) % l.len(); let t = l[pos].0.clone(); l[pos].0 = l[q].0.clone(); l[q].0 = t; ("keys-swapped", None) }
        10 => { l.swap(0, pos); ("two-positions-exchanged", Some(honest_expect)) }
        _ => { l[pos].0 = Pt::from_bytes(&l[pos].0).map(|p| p.neg().to_bytes()).unwrap_or_default(); ("key-negated", Some(false)) }
    };
    decide(rec, &l, label, must);
    // messages that are different but collide under a cheap unkeyed 64-bit fingerprint (env::FP_COLLISIONS), in the
    // arrangements that matter to a table keyed by such a fingerprint: A, B / A, B, A / B, A, B / A, A, B — each with
    // its own honest aggregate; the reference decides (a repeat is refused in Basic only, and B is NOT a repeat of A)
    {
        let pairs = crate::env::fp_collision_pairs();
        if !pairs.is_empty() && ss.len() >= 2 {
            let (kind, a_msg, b_msg) = &pairs[(salt as usize) % pairs.len()];
            let shapes: [&[u8]; 4] = [&[0, 1], &[0, 1, 0], &[1, 0, 1], &[0, 0, 1]];
            let shape = shapes[(salt as usize / 7) % 4];
            let mut list = vec![];
            let mut sigs = vec![];
            for (k, which) in shape.iter().enumerate() {
                let signer = &ss[k % ss.len()];
                let m = if *which == 0 { a_msg.clone() } else { b_msg.clone() };
                if let Some(sg) = rec.call(lib, g, Op::Sign, &[&signer.sk, &[scheme], &m]).first().map(|v| v.to_vec()) {
                    sigs.push(sg);
                    list.push((signer.pk.clone(), m));
                }
            }
            let sa: Vec<&[u8]> = sigs.iter().map(|v| v.as_slice()).collect();
            if let (true, Some(agg2)) = (sigs.len() == shape.len(), rec.call(lib, g, Op::Aggregate, &sa).first().map(|v| v.to_vec())) {
                let out = agg_verify(rec, lib, g, &agg2, &list);
                let exp = match (to_pairs(&list), Pt::from_bytes(&agg2[1..])) {
                    (Some(p), Some(a)) => b.aggregate_verify(Scheme::from_u8(scheme), &p, &a),
                    _ => false,
                };
                rec.fault("byz-colliding-fingerprints");
                rec.case(&[6, g as u64, scheme as u64, shape.len() as u64, 99, exp as u64], true);
                rec.expect("C06", "decision-equals-reference", out.is_ok() == exp, || {
                    format!("colliding-fingerprints({}) shape={:?} scheme={} g={} | messages {} and {} differ but share a cheap 64-bit fingerprint: library says {}, reference says {}", kind, shape, sch, g.name(), kernel::plan::hex(a_msg), kernel::plan::hex(b_msg), out.kind(), exp)
                });
            }
        }
    }
    // aggregation input rules: mixed schemes at every position, fewer than two
    let one = rec.call(lib, g, Op::Aggregate, &[&ss[0].sig]);
    rec.expect("C06", "fewer-than-two-refused", !one.is_ok(), || "count one | aggregation of a single signature accepted".to_string());
    let none = rec.call(lib, g, Op::Aggregate, &[]);
    rec.expect("C06", "fewer-than-two-refused", !none.is_ok(), || "count zero | aggregation of an empty list accepted".to_string());
    let other_scheme = (scheme + 1 + (salt as u8 % 2)) % 3;
    let m = exact.len().min(6);
    for p in 0..m {
        let foreign = rec.call(lib, g, Op::Sign, &[&ss[arrived_idx[p]].sk, &[other_scheme], &ss[arrived_idx[p]].msg]).first().map(|v| v.to_vec()).unwrap_or_default();
        let args: Vec<&[u8]> = (0..m).map(|i| if i == p { foreign.as_slice() } else { ss[arrived_idx[i]].sig.as_slice() }).collect();
        let o = rec.call(lib, g, Op::Aggregate, &args);
        rec.expect("C06", "mixed-schemes-refused", !o.is_ok(), || format!("mixed position {} of {} | a {} signature among {} signatures was aggregated", p, m, scheme_name(other_scheme), sch));
        // label and point changed together: the foreign label on the neutral element, and on the honest entry's own point
        let mut neutral = vec![0u8; 1 + g.sig_len()];
        neutral[0] = other_scheme;
        neutral[1] = 0xc0;
        let mut relabelled = ss[arrived_idx[p]].sig.clone();
        relabelled[0] = other_scheme;
        for (what, entry) in [("the neutral element", &neutral), ("the honest entry's own point", &relabelled)] {
            let args: Vec<&[u8]> = (0..m).map(|i| if i == p { entry.as_slice() } else { ss[arrived_idx[i]].sig.as_slice() }).collect();
            let o = rec.call(lib, g, Op::Aggregate, &args);
            rec.expect("C06", "mixed-schemes-refused", !o.is_ok(), || format!("mixed position {} of {} | an entry labelled {} carrying {} among {} signatures was aggregated", p, m, scheme_name(other_scheme), what, sch));
        }
    }
    // aligned runs of two schemes
    if m >= 4 {
        let mut owned = vec![];
        for i in 0..4 {
            let s = if i < 2 { scheme } else { other_scheme };
            owned.push(rec.call(lib, g, Op::Sign, &[&ss[arrived_idx[i]].sk, &[s], &ss[arrived_idx[i]].msg]).first().map(|v| v.to_vec()).unwrap_or_default());
        }
        let args: Vec<&[u8]> = owned.iter().map(|v| v.as_slice()).collect();
        let o = rec.call(lib, g, Op::Aggregate, &args);
        rec.expect("C06", "mixed-schemes-refused", !o.is_ok(), || "mixed two-and-two | two signatures of one scheme followed by two of another were aggregated".to_string());
    }
    rec.sample(|| format!("scheme={} g={} n={} arrived={:?} repeated={} perturbation={}", sch, g.name(), n, arrived_idx, has_repeat, label));
    c.finish(rec);
}

fn run_multi(plan: &Plan, lib: &dyn Lib, rec: &mut Rec) {
    let g = grp_of(plan.get("g"));
    let scheme = plan.get("scheme") as u8;
    let sch = scheme_name(scheme);
    let Some(ss) = signers(rec, lib, g, plan, true) else { return };
    let n = ss.len();
    let msg = ss[0].msg.clone();
    let mut x = Xo::derive(plan.seed, &[0xA69]);
    let mut c = Courier::new(plan.seed, n + 2);
    install_faults(&mut c, &plan.faults);
    let agg_node = n + 1;
    let mut arrived: Vec<usize> = vec![];
    if plan.class.ends_with("protocol") {
        for (i, s) in ss.iter().enumerate() {
            c.sim.send(i + 1, agg_node, kernel::sim::Msg { kind: K_CONTRIB, corr: i as u64, parts: vec![vec![i as u8], s.pk.clone(), s.sig.clone()] });
        }
        for a in c.settle(agg_node, K_CONTRIB) {
            let i = a.parts[0][0] as usize;
            if plan.get("dedup") != 0 && arrived.contains(&i) {
                continue;
            }
            if arrived.contains(&i) {
                rec.probe("duplicate-contribution-accumulated-twice");
            }
            arrived.push(i);
        }
    } else {
        arrived = (0..n).collect();
        x.shuffle(&mut arrived);
    }
    let sig_args: Vec<&[u8]> = arrived.iter().map(|i| ss[*i].sig.as_slice()).collect();
    let ms = c.at(agg_node, || rec.call(lib, g, Op::MultiSig, &sig_args));
    if arrived.len() < 2 {
        rec.expect("C07", "fewer-than-two-refused", !ms.is_ok(), || format!("count | accumulation of {} signature(s) accepted", arrived.len()));
        c.finish(rec);
        return;
    }
    let Some(ms) = ms.first().map(|v| v.to_vec()) else {
        rec.expect("C07", "accumulation-succeeds", false, || format!("accumulate scheme={} n={} | {:?}", sch, arrived.len(), ms));
        return;
    };
    // equals the plain group sum of the parts (each part counted as often as it was accumulated)
    let mut sum = Pt::from_bytes(&ss[arrived[0]].sig[1..]).unwrap();
    sum = sum.sub(&sum);
    for i in &arrived {
        sum = sum.add(&Pt::from_bytes(&ss[*i].sig[1..]).unwrap());
    }
    let want = refimpl::layout::tagged(scheme, &sum.to_bytes());
    rec.case(&[7, g as u64, scheme as u64, arrived.len() as u64, (arrived.len() != n) as u64, plan.faults.len() as u64], arrived.len() != n || plan.faults.len() > 1);
    rec.expect("C07", "multisig-is-group-sum", ms == want, || format!("sum scheme={} g={} | n={} (arrivals {:?}): the multi-signature is not the group sum of the accumulated parts", sch, g.name(), arrived.len(), arrived));
    let pk_of = |idx: &[usize]| -> Vec<Vec<u8>> { idx.iter().map(|i| ss[*i].pk.clone()).collect() };
    let verify_with = |rec: &mut Rec, keys: &[Vec<u8>], m: &[u8]| -> bool {
        let args: Vec<&[u8]> = keys.iter().map(|k| k.as_slice()).collect();
        let Some(mpk) = rec.call(lib, g, Op::MultiPk, &args).first().map(|v| v.to_vec()) else { return false };
        let plain = rec.call(lib, g, Op::MultiVerify, &[&ms, &mpk, m]).is_ok();
        if scheme == 2 {
            // the verifier that takes the LIST of signer keys (the proof-of-possession scheme's multi_sig_verify): the same
            // decision for the same key multiset — a key listed twice counts twice
            let mut a2: Vec<&[u8]> = vec![&ms, m];
            a2.extend(keys.iter().map(|k| k.as_slice()));
            let o = rec.call(lib, g, Op::MultiSigVerifyKeys, &a2);
            let distinct = { let mut d: Vec<&Vec<u8>> = keys.iter().collect(); d.sort(); d.dedup(); d.len() };
            rec.expect("C07", "key-list-verifier-agrees-with-accumulated-key", o.is_ok() == plain, || format!("multi_sig_verify scheme={} g={} | {} keys ({} distinct): the key-list verifier says {}, verification against the accumulated key says {}", sch, g.name(), keys.len(), distinct, o.kind(), if plain { "ok" } else { "rej" }));
        }
        plain
    };
    // exactly the accumulated signers (a duplicated contribution must be reflected in the key set)
    let exact = pk_of(&arrived);
    let ok = verify_with(rec, &exact, &msg);
    rec.expect("C07", "verifies-against-exact-signer-set", ok, || format!("exact scheme={} g={} | n={} arrivals={:?}: rejected against the accumulated key of exactly its signers", sch, g.name(), arrived.len(), arrived));
    let mut perm = exact.clone();
    x.shuffle(&mut perm);
    let ok = verify_with(rec, &perm, &msg);
    rec.expect("C07", "verifies-against-exact-signer-set", ok, || format!("exact-permuted scheme={} g={} | key order must not matter", sch, g.name()));
    // every single-signer omission / addition / replacement, another message
    let limit = if arrived.len() <= 12 { arrived.len() } else { 6 };
    for k in 0..limit {
        let p = if arrived.len() <= 12 { k } else { x.below(arrived.len() as u64) as usize };
        let mut om = exact.clone();
        om.remove(p);
        if !om.is_empty() {
            let ok = verify_with(rec, &om, &msg);
            rec.case(&[7, g as u64, scheme as u64, arrived.len() as u64, p as u64, 1], true);
            rec.expect("C07", "fails-with-signer-missing", !ok, || format!("omission scheme={} g={} | n={} position {}: verified with a signer missing", sch, g.name(), arrived.len(), p));
        }
        let mut ad = exact.clone();
        ad.insert(p, exact[p].clone());
        let ok = verify_with(rec, &ad, &msg);
        rec.expect("C07", "fails-with-signer-added", !ok, || format!("addition-of-present-signer scheme={} g={} | n={} position {}: verified against a key set with signer {} counted one more time", sch, g.name(), arrived.len(), p, arrived[p]));
        let mut rp = exact.clone();
        let stranger = key_of_class(rec, lib, g, 5, plan.seed ^ (p as u64 + 99));
        let spk = rec.call(lib, g, Op::PublicKey, &[&stranger]).first().map(|v| v.to_vec()).unwrap_or_default();
        rp[p] = spk.clone();
        let ok = verify_with(rec, &rp, &msg);
        rec.expect("C07", "fails-with-signer-replaced", !ok, || format!("replacement scheme={} g={} | n={} position {}: verified with a signer replaced", sch, g.name(), arrived.len(), p));
        let mut ad2 = exact.clone();
        ad2.insert(p, spk);
        let ok = verify_with(rec, &ad2, &msg);
        rec.expect("C07", "fails-with-signer-added", !ok, || format!("addition-of-stranger scheme={} g={} | n={} position {}: verified with an extra key", sch, g.name(), arrived.len(), p));
    }
    // a signer ADDED whose key is computed from the others': pk_adv = -(sum of the honest keys). The accumulated key of
    // {honest..., adversary} is the identity; presented with the identity multi-signature (which the library's own
    // accumulator yields for the signatures of X and -X) the pairing equation holds for EVERY message
    {
        let mut acc = Pt::from_bytes(&exact[0]).unwrap();
        for k in exact.iter().skip(1) {
            acc = acc.add(&Pt::from_bytes(k).unwrap());
        }
        let mut rogue = exact.clone();
        rogue.push(acc.neg().to_bytes());
        let xk = key_of_class(rec, lib, g, 5, plan.seed ^ 0xAD7);
        let nxk = refimpl::scalar_to_be(&(-refimpl::scalar_from_be(&xk).unwrap()));
        let s1 = rec.call(lib, g, Op::Sign, &[&xk, &[scheme], &msg]).first().map(|v| v.to_vec());
        let s2 = rec.call(lib, g, Op::Sign, &[&nxk, &[scheme], &msg]).first().map(|v| v.to_vec());
        let id_ms = match (s1, s2) {
            (Some(a), Some(b)) => rec.call(lib, g, Op::MultiSig, &[&a, &b]).first().map(|v| v.to_vec()),
            _ => None,
        }
        .unwrap_or_else(|| refimpl::layout::tagged(scheme, &sum.sub(&sum).to_bytes()));
        let args: Vec<&[u8]> = rogue.iter().map(|k| k.as_slice()).collect();
        rec.case(&[7, g as u64, scheme as u64, arrived.len() as u64, 77, 2], true);
        match rec.call(lib, g, Op::MultiPk, &args).first().map(|v| v.to_vec()) {
            Some(mpk) => {
                for m in [msg.clone(), b"any other message".to_vec()] {
                    let o = rec.call(lib, g, Op::MultiVerify, &[&id_ms, &mpk, &m]);
                    rec.expect("C07", "fails-with-signer-added", !o.is_ok(), || format!("addition-of-cancelling-key scheme={} g={} | n={}: identity multi-signature verified against the key set plus -(sum of its keys)", sch, g.name(), arrived.len()));
                    let o = rec.call(lib, g, Op::MultiVerify, &[&ms, &mpk, &m]);
                    rec.expect("C07", "fails-with-signer-added", !o.is_ok(), || format!("addition-of-cancelling-key scheme={} g={} | n={}: the multi-signature verified against the key set plus -(sum of its keys)", sch, g.name(), arrived.len()));
                }
            }
            None => rec.probe("identity-accumulated-key-refused-at-accumulation"),
        }
    }
    let mut m2 = msg.clone();
    m2.push(0);
    let ok = verify_with(rec, &exact, &m2);
    rec.expect("C07", "fails-for-other-message", !ok, || format!("message scheme={} g={} | verified for another message", sch, g.name()));
    // accumulation input rules
    let aug: Vec<Vec<u8>> = ss.iter().take(3).map(|s| rec.call(lib, g, Op::Sign, &[&s.sk, &[1], &msg]).first().map(|v| v.to_vec()).unwrap_or_default()).collect();
    let a: Vec<&[u8]> = aug.iter().map(|v| v.as_slice()).collect();
    let o = rec.call(lib, g, Op::MultiSig, &a);
    rec.expect("C07", "augmentation-refused", !o.is_ok(), || "aug all | message-augmentation signatures were accumulated".to_string());
    let other_scheme = if scheme == 0 { 2 } else { 0 };
    let m = arrived.len().min(6);
    for p in 0..m {
        for foreign_scheme in [other_scheme, 1u8] {
            let foreign = rec.call(lib, g, Op::Sign, &[&ss[arrived[p]].sk, &[foreign_scheme], &msg]).first().map(|v| v.to_vec()).unwrap_or_default();
            let args: Vec<&[u8]> = (0..m).map(|i| if i == p { foreign.as_slice() } else { ss[arrived[i]].sig.as_slice() }).collect();
            let o = rec.call(lib, g, Op::MultiSig, &args);
            rec.expect("C07", "mixed-schemes-refused", !o.is_ok(), || format!("mixed position {} of {} | a {} signature among {} signatures was accumulated", p, m, scheme_name(foreign_scheme), sch));
            // label and point changed TOGETHER: the foreign label on the neutral element ("an empty slot"), and on the very
            // point the honest entry carries
            let mut neutral = vec![0u8; 1 + g.sig_len()];
            neutral[0] = foreign_scheme;
            neutral[1] = 0xc0;
            let mut relabelled = ss[arrived[p]].sig.clone();
            relabelled[0] = foreign_scheme;
            for (what, entry) in [("the neutral element", &neutral), ("the honest entry's own point", &relabelled)] {
                let args: Vec<&[u8]> = (0..m).map(|i| if i == p { entry.as_slice() } else { ss[arrived[i]].sig.as_slice() }).collect();
                let o = rec.call(lib, g, Op::MultiSig, &args);
                rec.expect("C07", "mixed-schemes-refused", !o.is_ok(), || format!("mixed position {} of {} | an entry labelled {} carrying {} among {} signatures was accumulated", p, m, scheme_name(foreign_scheme), what, sch));
            }
        }
    }
    if m >= 4 {
        let mut owned = vec![];
        for i in 0..4 {
            let s = if i < 2 { scheme } else { other_scheme };
            owned.push(rec.call(lib, g, Op::Sign, &[&ss[arrived[i]].sk, &[s], &msg]).first().map(|v| v.to_vec()).unwrap_or_default());
        }
        let args: Vec<&[u8]> = owned.iter().map(|v| v.as_slice()).collect();
        let o = rec.call(lib, g, Op::MultiSig, &args);
        rec.expect("C07", "mixed-schemes-refused", !o.is_ok(), || "mixed two-and-two | two signatures of one scheme followed by two of another were accumulated".to_string());
    }
    // a caller's container that does not hand out the same list twice (its as_ref() alternates between two views): whatever
    // the constructor returns is what it returns for ONE of the views — never a mixture (checks on one, sum over the other)
    if m >= 2 {
        let foreign = rec.call(lib, g, Op::Sign, &[&ss[arrived[0]].sk, &[1u8], &msg]).first().map(|v| v.to_vec()).unwrap_or_default();
        let foreign2 = rec.call(lib, g, Op::Sign, &[&ss[arrived[0]].sk, &[other_scheme], &msg]).first().map(|v| v.to_vec()).unwrap_or_default();
        let good: Vec<&[u8]> = (0..m).map(|i| ss[arrived[i]].sig.as_slice()).collect();
        let views: [Vec<&[u8]>; 3] = [vec![foreign.as_slice(), good[0]], vec![good[0], foreign2.as_slice(), good[1]], vec![good[0]]];
        for (vi, second) in views.iter().enumerate() {
            for order in 0..2 {
                let (v1, v2) = if order == 0 { (&good, second) } else { (second, &good) };
                let r1 = rec.call(lib, g, Op::MultiSig, v1);
                let r2 = rec.call(lib, g, Op::MultiSig, v2);
                let n1 = u64b(v1.len() as u64);
                let mut args: Vec<&[u8]> = vec![&[0u8], &n1];
                args.extend(v1.iter().copied());
                args.extend(v2.iter().copied());
                let got = rec.call(lib, g, Op::FromFickleList, &args);
                let same = |a: &simtypes::Out, b: &simtypes::Out| (a.is_ok() && a.first() == b.first()) || (!a.is_ok() && !b.is_ok());
                rec.fault("caller-container-changes-between-reads");
                rec.expect("C07", "mixed-schemes-refused", same(&got, &r1) || same(&got, &r2), || format!("fickle-container view {} order {} scheme={} g={} | from_signatures returned {} — neither what it returns for the first view ({}) nor for the second ({})", vi, order, sch, g.name(), got.kind(), r1.kind(), r2.kind()));
            }
        }
    }
    let one = rec.call(lib, g, Op::MultiSig, &[&ss[0].sig]);
    rec.expect("C07", "fewer-than-two-refused", !one.is_ok(), || "count one | accumulation of a single signature accepted".to_string());
    rec.sample(|| format!("scheme={} g={} n={} arrivals={:?} dedup={}", sch, g.name(), n, arrived, plan.get("dedup")));
    c.finish(rec);
}

/// n with n or n + 1 a multiple k*m of a batch size m (k = 1..4), up to 1025: where a verifier that works through the
/// pairing product (or the list) in batches hands over from one batch to the next, or ends exactly on a batch boundary
pub fn block_sizes() -> Vec<usize> {
    const M: [usize; 8] = [32, 48, 64, 96, 100, 128, 192, 256];
    let mut v = vec![];
    for m in M {
        for k in 1..=4 {
            for d in [-2isize, -1, 0, 1] {
                let n = (m * k) as isize + d;
                if n > 64 && n <= 1025 {
                    v.push(n as usize);
                }
            }
        }
    }
    v.sort();
    v.dedup();
    // sizes that are a boundary for MANY batch sizes first (n + 1 = 384 = 2*192 = 3*128 = 4*96 = 6*64 = 8*48 = 12*32 ...):
    // a tier that only has time for a prefix of the list still meets the most likely hand-over points
    let score = |n: usize| -> usize { M.iter().map(|m| ((n + 1) % m == 0) as usize * 2 + (n % m == 0) as usize).sum() };
    v.sort_by_key(|n| (std::cmp::Reverse(score(*n)), *n));
    v
}

/// C06 / C19: honest aggregates of exactly n signatures over distinct messages at the batch-boundary sizes, exact list
/// (must verify) and one message altered in the last, the first and the middle entry (must fail)
fn run_block_sizes(plan: &Plan, lib: &dyn Lib, rec: &mut Rec) {
    let g = grp_of(plan.get("g"));
    let scheme = plan.get("scheme") as u8;
    let n = plan.get("n").clamp(2, 17000) as usize;
    // four keys take turns; every message is distinct
    let keys: Vec<(Vec<u8>, Vec<u8>)> = (0..4u64).filter_map(|i| { let sk = key_of_class(rec, lib, g, 4 + i % 2, plan.seed.wrapping_add(i)); rec.call(lib, g, Op::PublicKey, &[&sk]).first().map(|pk| (sk, pk.to_vec())) }).collect();
    if keys.len() != 4 {
        return;
    }
    let mut list: Vec<(Vec<u8>, Vec<u8>)> = vec![];
    let mut sigs: Vec<Vec<u8>> = vec![];
    for i in 0..n {
        let (sk, pk) = &keys[i % 4];
        let msg = format!("entry {} of {}", i, n).into_bytes();
        let Some(sig) = rec.call(lib, g, Op::Sign, &[sk, &[scheme], &msg]).first().map(|v| v.to_vec()) else { return };
        sigs.push(sig);
        list.push((pk.clone(), msg));
    }
    let refs: Vec<&[u8]> = sigs.iter().map(|s| s.as_slice()).collect();
    let Some(agg) = rec.call(lib, g, Op::Aggregate, &refs).first().map(|v| v.to_vec()) else {
        rec.expect("C06", "honest-aggregate-verifies", false, || format!("aggregate n={} scheme={} g={} | aggregation of {} honest signatures failed", n, scheme_name(scheme), g.name(), n));
        return;
    };
    rec.case(&[6, g as u64, scheme as u64, n as u64, 500], true);
    let out = agg_verify(rec, lib, g, &agg, &list);
    rec.expect("C06", "honest-aggregate-verifies", out.is_ok(), || format!("exact-list n={} scheme={} g={} | an honest aggregate of {} signatures over distinct messages is rejected: {:?}", n, scheme_name(scheme), g.name(), n, out));
    if n > 1100 {
        // very long lists: the exact list and one altered message only (a pairing term costs milliseconds on the pure-Rust back end)
        let mut l2 = list.clone();
        l2[n - 2].1.push(b'!');
        let out = agg_verify(rec, lib, g, &agg, &l2);
        rec.expect("C06", "altered-list-rejected", !out.is_ok(), || format!("message-altered-at-{} n={} scheme={} g={} | the aggregate verifies against a list with one message altered", n - 2, n, scheme_name(scheme), g.name()));
        rec.sample(|| format!("very long list n={} scheme={} g={}", n, scheme_name(scheme), g.name()));
        return;
    }
    let rev: Vec<(Vec<u8>, Vec<u8>)> = list.iter().rev().cloned().collect();
    let out = agg_verify(rec, lib, g, &agg, &rev);
    rec.expect("C06", "honest-aggregate-verifies", out.is_ok(), || format!("reversed-list n={} scheme={} g={} | rejected: {:?}", n, scheme_name(scheme), g.name(), out));
    for pos in [n - 1, 0, n / 2] {
        let mut l2 = list.clone();
        l2[pos].1.push(b'!');
        let out = agg_verify(rec, lib, g, &agg, &l2);
        rec.expect("C06", "altered-list-rejected", !out.is_ok(), || format!("message-altered-at-{} n={} scheme={} g={} | the aggregate verifies against a list with one message altered", pos, n, scheme_name(scheme), g.name()));
    }
    // one pair dropped / one pair added at the end
    let out = agg_verify(rec, lib, g, &agg, &list[..n - 1]);
    rec.expect("C06", "altered-list-rejected", !out.is_ok(), || format!("last-pair-dropped n={} scheme={} g={} | verifies", n, scheme_name(scheme), g.name()));
    rec.sample(|| format!("batch-boundary size n={} scheme={} g={}", n, scheme_name(scheme), g.name()));
}

/// C06 / C07: long lists made of RUNS of two schemes. Run lengths are what a list processed in memory blocks would use:
/// 2^k / size_of::<Signature<C>>() for the 4 KiB .. 1 MiB blocks (the size is one any caller can compute), the same for
/// the serialized sizes, and powers of two. [A x a, B x a], [A x a, B x b], [A x a, B x a, A x a]: all refused.
fn run_mixed_blocks(plan: &Plan, lib: &dyn Lib, rec: &mut Rec) {
    let g = grp_of(plan.get("g"));
    let scheme = plan.get("scheme") as u8;
    let other = if scheme == 0 { 2u8 } else { 0 };
    let multi = plan.get("kind") == 1;
    let op = if multi { Op::MultiSig } else { Op::Aggregate };
    let prop = if multi { "C07" } else { "C06" };
    let sk = key_of_class(rec, lib, g, 4, plan.seed);
    let sk2 = key_of_class(rec, lib, g, 5, plan.seed ^ 9);
    let msg = b"one message for every signer".to_vec();
    let sig_a = rec.call(lib, g, Op::Sign, &[&sk, &[scheme], &msg]).first().map(|v| v.to_vec());
    let sig_a2 = rec.call(lib, g, Op::Sign, &[&sk2, &[scheme], &msg]).first().map(|v| v.to_vec());
    let sig_b = rec.call(lib, g, Op::Sign, &[&sk2, &[other], &msg]).first().map(|v| v.to_vec());
    let (Some(sig_a), Some(sig_a2), Some(sig_b)) = (sig_a, sig_a2, sig_b) else { return };
    let mem = rec.call(lib, g, Op::MemLayout, &[]).first().map(|b| u64::from_le_bytes(b[..8].try_into().unwrap_or([0; 8])) as usize).unwrap_or(0);
    let mut lens: Vec<usize> = vec![];
    for size in [mem, g.sig_len(), g.sig_len() + 1, g.sig_len() * 2, g.sig_len() * 3] {
        if size == 0 {
            continue;
        }
        for k in 12..=18u32 {
            let a = (1usize << k) / size;
            if (2..=2200).contains(&a) {
                lens.push(a);
            }
        }
    }
    lens.extend([64usize, 128, 256, 512, 1024, 2048]);
    lens.sort();
    lens.dedup();
    let mut x = Xo::derive(plan.seed, &[0xB10C]);
    let build = |runs: &[(usize, bool)]| -> Vec<&[u8]> {
        let mut v: Vec<&[u8]> = vec![];
        for (len, foreign) in runs {
            for j in 0..*len {
                v.push(if *foreign { sig_b.as_slice() } else if j % 2 == 0 { sig_a.as_slice() } else { sig_a2.as_slice() });
            }
        }
        v
    };
    // every list size from 2 to 400 of one scheme: accumulated / aggregated without refusal (the refusals above are about
    // mixed schemes, not about sizes; a list processed in lanes or blocks must not stumble over a short last lane)
    {
        let mut refused: Vec<usize> = vec![];
        for nn in 2..=400usize {
            let args = build(&[(nn, false)]);
            if !rec.call(lib, g, op, &args).is_ok() {
                refused.push(nn);
            }
        }
        rec.expect(prop, "same-scheme-list-accepted", refused.is_empty(), || format!("every-size-2-to-400 g={} scheme={} | lists of these sizes were refused: {:?}", g.name(), scheme_name(scheme), refused));
    }
    for a in lens.iter().copied() {
        let b = lens[x.below(lens.len() as u64) as usize];
        for (what, runs) in [("A^a B^a", vec![(a, false), (a, true)]), ("A^a B^b", vec![(a, false), (b, true)]), ("A^a B^a A^a", vec![(a, false), (a, true), (a, false)]), ("B^a A^a", vec![(a, true), (a, false)])] {
            if runs.iter().map(|r| r.0).sum::<usize>() > 4500 {
                continue;
            }
            let args = build(&runs);
            let o = rec.call(lib, g, op, &args);
            rec.case(&[if multi { 7 } else { 6 }, g as u64, scheme as u64, a as u64, what.len() as u64], true);
            rec.expect(prop, "mixed-schemes-refused", !o.is_ok(), || format!("mixed runs {} a={} b={} g={} | a list of {} signatures with whole runs of {} signatures among {} ones was {}", what, a, b, g.name(), args.len(), scheme_name(other), scheme_name(scheme), if multi { "accumulated" } else { "aggregated" }));
        }
        // the honest list of the same length is still accepted (the refusal above is not a size limit)
        let args = build(&[(2 * a.min(1100), false)]);
        let o = rec.call(lib, g, op, &args);
        rec.expect(prop, "same-scheme-list-accepted", o.is_ok(), || format!("honest-long-list n={} g={} scheme={} | refused: {:?}", args.len(), g.name(), scheme_name(scheme), o));
    }
    rec.sample(|| format!("mixed-scheme runs at {} block lengths (in-memory signature size {} B) g={} kind={}", lens.len(), mem, g.name(), if multi { "multi" } else { "aggregate" }));
}
