//! DURABLE-CODEC (C15), BYZ-ENCODER (C16), NO-ABORT (C17): a vault persists one value of every
//! exported data type in every codec, crashes, restarts, reloads and forwards it; torn and
//! short writes and a Byzantine encoder produce malformed encodings; a hostile peer feeds every
//! consuming entry point.

use crate::courier::Courier;
use crate::driver::{Scenario, Tier};
use crate::env::*;
use crate::sc_thresh::deal;
use kernel::plan::{hex, Plan, Step};
use kernel::rec::Rec;
use kernel::seams::Xo;
use kernel::sim::{NetAction, MS};
use refimpl::layout::{point_positions, PokFields, SignCryptFields, TimeLockFields};
use refimpl::{PointClass, Pt};
use simtypes::vtree;
use simtypes::{Codec, Grp, Lib, Op, Out, Ty};
use std::collections::BTreeMap;

pub struct CodecSc;
pub static CODEC: CodecSc = CodecSc;

const K_FWD: u32 = 50;

/// One valid value of a type, in its `Bytes` form (for SecretKeyEnum: JSON form, see below).
#[derive(Clone, Debug)]
pub struct Specimen {
    pub ty: Ty,
    pub label: String,
    pub bytes: Vec<u8>,
    /// codec `bytes` is in (Bytes for everything except SecretKeyEnum, whose byte form is itself under test)
    pub codec: Codec,
}

fn sp(ty: Ty, label: &str, bytes: Vec<u8>) -> Specimen {
    Specimen { ty, label: label.to_string(), bytes, codec: Codec::Bytes }
}

/// Valid values of every exported type for one group: generated + edge values.
pub fn specimens(rec: &mut Rec, lib: &dyn Lib, g: Grp, seed: u64, payload_len: usize) -> Vec<Specimen> {
    let mut v = vec![];
    let mut x = Xo::derive(seed, &[0x5BEC]);
    let pl = g.pk_len();
    let sl = g.sig_len();
    let id_pk = if pl == 48 { Pt::id1() } else { Pt::id2() }.to_bytes();
    let id_sig = if sl == 48 { Pt::id1() } else { Pt::id2() }.to_bytes();
    for class in 0..6u64 {
        v.push(sp(Ty::SecretKey, &format!("key-class-{}", class), key_of_class(rec, lib, g, class, seed)));
    }
    let sk = key_of_class(rec, lib, g, 4, seed);
    let pk = rec.call(lib, g, Op::PublicKey, &[&sk]).first().map(|b| b.to_vec()).unwrap_or_default();
    v.push(sp(Ty::PublicKey, "generated", pk.clone()));
    v.push(sp(Ty::PublicKey, "identity", id_pk.clone()));
    v.push(sp(Ty::MultiPublicKey, "generated", pk.clone()));
    v.push(sp(Ty::MultiPublicKey, "identity", id_pk.clone()));
    v.push(sp(Ty::SignCryptDecryptionKey, "identity", id_pk.clone()));
    v.push(sp(Ty::ElGamalDecryptionKey, "identity", id_pk.clone()));
    let msg = x.bytes(payload_len);
    let mut sigs = vec![];
    for s in 0u8..3 {
        if let Some(sig) = rec.call(lib, g, Op::Sign, &[&sk, &[s], &msg]).first().map(|b| b.to_vec()) {
            v.push(sp(Ty::Signature, scheme_name(s), sig.clone()));
            v.push(sp(Ty::AggregateSignature, scheme_name(s), sig.clone()));
            v.push(sp(Ty::MultiSignature, scheme_name(s), sig.clone()));
            v.push(sp(Ty::ProofCommitment, scheme_name(s), sig.clone()));
            let pmsg = if s == 1 { let mut m = pk.clone(); m.extend_from_slice(&msg); m } else { msg.clone() };
            if let Some(c) = rec.call(lib, g, Op::PokCommit, &[&pmsg, &sig]).ok() {
                v.push(sp(Ty::ProofCommitment, &format!("{}-generated", scheme_name(s)), c[0].clone()));
                v.push(sp(Ty::ProofCommitmentSecret, "generated", c[1].clone()));
                let ch = rec.call(lib, g, Op::ChallengeFromHash, &[&[s]]).first().map(|b| b.to_vec()).unwrap_or_default();
                v.push(sp(Ty::ProofCommitmentChallenge, "hash-derived", ch.clone()));
                if let Some(p) = rec.call(lib, g, Op::PokFinalize, &[&c[0], &c[1], &ch, &sig]).first() {
                    v.push(sp(Ty::ProofOfKnowledge, scheme_name(s), p.to_vec()));
                }
            }
            if let Some(p) = rec.call(lib, g, Op::PokTsGenerate, &[&pmsg, &sig]).first() {
                v.push(sp(Ty::ProofOfKnowledgeTimestamp, scheme_name(s), p.to_vec()));
                if let Some(mut f) = PokFields::parse(p, sl) {
                    for (l, t) in [("ts-0", 0u64), ("ts-max", u64::MAX), ("ts-2^63", 1 << 63)] {
                        f.ts = Some(t);
                        v.push(sp(Ty::ProofOfKnowledgeTimestamp, &format!("{}-{}", scheme_name(s), l), f.build()));
                    }
                }
            }
            if let Some(c) = rec.call(lib, g, Op::SignCrypt, &[&pk, &[s], &msg]).first() {
                v.push(sp(Ty::SignCryptCiphertext, &format!("{}-{}B", scheme_name(s), msg.len()), c.to_vec()));
                if let Some(k) = rec.call(lib, g, Op::ScDecKey, &[&sk, c]).first() {
                    v.push(sp(Ty::SignCryptDecryptionKey, "generated", k.to_vec()));
                }
            }
            if let Some(c) = rec.call(lib, g, Op::TimeLock, &[&pk, &[s], &msg, b"id"]).first() {
                v.push(sp(Ty::TimeCryptCiphertext, &format!("{}-{}B", scheme_name(s), msg.len()), c.to_vec()));
            }
            sigs.push(sig);
        }
        v.push(sp(Ty::Signature, &format!("{}-identity", scheme_name(s)), refimpl::layout::tagged(s, &id_sig)));
    }
    if let Some(p) = rec.call(lib, g, Op::Pop, &[&sk]).first() {
        v.push(sp(Ty::ProofOfPossession, "generated", p.to_vec()));
    }
    v.push(sp(Ty::ProofOfPossession, "identity", id_sig.clone()));
    for (l, s) in [("one", refimpl::scalar_from_u64(1)), ("r-1", refimpl::scalar_neg_u64(1))] {
        v.push(sp(Ty::ProofCommitmentSecret, l, refimpl::scalar_to_be(&s)));
        v.push(sp(Ty::ProofCommitmentChallenge, l, refimpl::scalar_to_be(&s)));
    }
    // limb-pattern secret keys (a few per run) and points with extreme leading coordinate words in every
    // point-carrying type (any valid subgroup point is a valid value of these types)
    for _ in 0..4 {
        let i = x.below(crate::env::LIMB_KEYS);
        v.push(sp(Ty::SecretKey, &format!("limb-pattern-{}", i), crate::env::limb_key(i)));
    }
    for k in crate::env::edge_scalars(pl) {
        let e = crate::env::edge_point(pl, k);
        v.push(sp(Ty::SecretKey, &format!("edge-scalar-{}", k), refimpl::scalar_to_be(&refimpl::scalar_from_u64(k))));
        for ty in [Ty::PublicKey, Ty::MultiPublicKey, Ty::SignCryptDecryptionKey, Ty::ElGamalDecryptionKey] {
            v.push(sp(ty, &format!("edge-point-{}", k), e.clone()));
        }
        let mut share = vec![1 + (k % 255) as u8];
        share.extend_from_slice(&e);
        v.push(sp(Ty::PublicKeyShare, &format!("edge-point-{}", k), share));
        v.push(sp(Ty::ElGamalCiphertext, &format!("edge-points-{}", k), refimpl::layout::ElGamalFields { c1: e.clone(), c2: e.clone(), proof: None }.build()));
    }
    for k in crate::env::edge_scalars(sl) {
        let e = crate::env::edge_point(sl, k);
        for s in 0u8..3 {
            for ty in [Ty::Signature, Ty::AggregateSignature, Ty::MultiSignature, Ty::ProofCommitment] {
                v.push(sp(ty, &format!("{}-edge-point-{}", scheme_name(s), k), refimpl::layout::tagged(s, &e)));
            }
        }
        v.push(sp(Ty::ProofOfPossession, &format!("edge-point-{}", k), e.clone()));
    }
    // shares: identifiers 1..=255 come from a (2,255) split; a few are persisted per run
    let big = x.chance(1, 4);
    let (t, n) = if big { (2u64, 255u64) } else { (2, 3) };
    if let Some(d) = deal(rec, lib, g, 4, t, n, seed) {
        let mut picks = vec![0usize, (n - 1) as usize];
        for _ in 0..3 {
            picks.push(x.below(n) as usize);
        }
        picks.dedup();
        let ct = rec.call(lib, g, Op::SignCrypt, &[&d.pk, &[0], &msg]).first().map(|b| b.to_vec());
        let ect = rec.call(lib, g, Op::EgEncrypt, &[&d.pk, &sk]).first().map(|b| b.to_vec());
        if let Some(e) = &ect {
            v.push(sp(Ty::ElGamalCiphertext, "generated", e.clone()));
        }
        if let Some(e) = rec.call(lib, g, Op::EgEncryptProof, &[&d.pk, &sk]).first() {
            v.push(sp(Ty::ElGamalProof, "generated", e.to_vec()));
        }
        let mut esh = vec![];
        for i in picks {
            let id = d.shares[i][0];
            v.push(sp(Ty::SecretKeyShare, &format!("id-{}", id), d.shares[i].clone()));
            v.push(sp(Ty::PublicKeyShare, &format!("id-{}", id), d.pk_shares[i].clone()));
            for s in [0u8, 2] {
                if let Some(p) = rec.call(lib, g, Op::ShareSign, &[&d.shares[i], &[s], &msg]).first() {
                    v.push(sp(Ty::SignatureShare, &format!("{}-id-{}", scheme_name(s), id), p.to_vec()));
                }
            }
            if let Some(c) = &ct {
                if let Some(p) = rec.call(lib, g, Op::ScShare, &[c, &d.shares[i]]).first() {
                    v.push(sp(Ty::SignDecryptionShare, &format!("id-{}", id), p.to_vec()));
                }
            }
            if let Some(e) = &ect {
                if let Some(p) = rec.call(lib, g, Op::EgShare, &[&d.shares[i], e]).first() {
                    v.push(sp(Ty::ElGamalDecryptionShare, &format!("id-{}", id), p.to_vec()));
                    esh.push(p.to_vec());
                }
            }
        }
        if esh.len() >= 2 {
            let a: Vec<&[u8]> = esh.iter().take(2).map(|b| b.as_slice()).collect();
            if let Some(k) = rec.call(lib, g, Op::EgDkFromShares, &a).first() {
                v.push(sp(Ty::ElGamalDecryptionKey, "from-shares", k.to_vec()));
            }
        }
        v.push(sp(Ty::SignatureShare, "MessageAugmentation-crafted", refimpl::layout::sig_share(1, 7, &sigs.first().map(|s| s[1..].to_vec()).unwrap_or(id_sig.clone()))));
        v.push(sp(Ty::PublicKeyShare, "id-255-identity", refimpl::layout::share(255, &id_pk)));
    }
    // the curve-tagged key wrapper: its JSON form is the reference form (its byte form is under test)
    for (l, op, arg) in [("hash-derived", Op::EnumFromHash, b"enum-seed".to_vec()), ("seeded", Op::EnumRandom, [7u8; 32].to_vec())] {
        if let Some(o) = rec.call(lib, g, op, &[&arg]).ok() {
            v.push(Specimen { ty: Ty::SecretKeyEnum, label: format!("{}-{}", g.name(), l), bytes: o[1].clone(), codec: Codec::Json });
        }
    }
    v.push(sp(if sl == 48 { Ty::InnerPointShareG1 } else { Ty::InnerPointShareG2 }, "sig-group", refimpl::layout::share(9, &sigs.first().map(|s| s[1..].to_vec()).unwrap_or(id_sig))));
    v.push(sp(if pl == 48 { Ty::InnerPointShareG1 } else { Ty::InnerPointShareG2 }, "pk-group", refimpl::layout::share(200, &pk)));
    for s in 0u8..3 {
        v.push(sp(Ty::SignatureSchemes, scheme_name(s), vec![s]));
    }
    v.push(sp(Ty::Bls12381, g.name(), vec![if g == Grp::G1 { 1 } else { 2 }]));
    v
}

pub fn codecs_of(ty: Ty) -> Vec<Codec> {
    let mut v = match ty {
        Ty::SecretKey | Ty::ProofCommitmentSecret | Ty::ProofCommitmentChallenge | Ty::SecretKeyEnum => Codec::ALL.to_vec(),
        Ty::SignatureSchemes | Ty::Bls12381 => vec![Codec::Bytes, Codec::Bare, Codec::Json],
        _ => vec![Codec::Bytes, Codec::BytesVec, Codec::BytesRefVec, Codec::BytesBox, Codec::Bare, Codec::Json],
    };
    // the human-readable form also as a reader hands it over (owned strings) and as a field of a parsed document
    v.extend(Codec::JSON_FRONT_ENDS);
    // a third serde format, owned by the harness: self-describing, lets the document choose sequence lengths, lends or
    // gives away buffers, writes structs as sequences or as maps (simtypes::vtree) — every type implements the serde traits
    v.extend(Codec::TREE_FORMATS);
    v
}
pub fn is_tree(c: Codec) -> bool {
    c.tree_mode().is_some()
}
/// types whose byte form has one exact length per (type, group)
pub fn fixed_len(ty: Ty) -> bool {
    !matches!(ty, Ty::SignCryptCiphertext | Ty::TimeCryptCiphertext)
}

impl Scenario for CodecSc {
    fn name(&self) -> &'static str {
        "codec"
    }
    fn cfg_floor(&self) -> BTreeMap<String, i64> {
        let mut m = BTreeMap::new();
        m.insert("payload".into(), 0);
        m
    }
    fn gen(&self, property: &str, class: &str, seed: u64, index: u64, tier: Tier) -> Plan {
        let mut x = Xo::derive(seed, &[0xC0DE]);
        let mut p = Plan { scenario: "codec".into(), property: property.into(), seed, class: class.into(), ..Default::default() };
        p.set("g", (index % 2) as i64);
        p.set("payload", *x.pick(&[0i64, 1, 31, 32, 33, 127, 128, 200, if tier == Tier::Thorough { 65536 } else { 4096 }]));
        p.set("pick", (index / 2) as i64);
        p.steps.push(Step::new(class, &[index as i64]));
        if class == "vault-big" {
            // the payload-carrying types with very large payloads (sizes at which framing / size limits change)
            p.set("payload", [(1i64 << 24) - 5, (1 << 24) + 1, (1 << 21) + 3, 172_029, (1 << 22) - 4, (1 << 23) + 1][(index / 2 % 6) as usize]);
        }
        if class == "vault" || class == "vault-big" {
            if x.chance(2, 3) {
                let at = x.range(1, 200) as i64;
                p.faults.push(Step::new("crash", &[0, at, x.below(3) as i64]));
                p.faults.push(Step::new("restart", &[0, at + x.range(5, 100) as i64]));
            }
            if x.chance(1, 3) {
                p.faults.push(Step::new("dup", &[K_FWD as i64, x.below(10) as i64]));
            }
        }
        p
    }
    fn run(&self, plan: &Plan, env: &Env, rec: &mut Rec) {
        match plan.class.as_str() {
            "vault" | "vault-big" => run_vault(plan, env.cur, rec),
            "byz-encoder" => run_byz_encoder(plan, env.cur, rec),
            "random-bytes" => run_random_bytes(plan, env.cur, rec),
            "hostile-decoders" => run_hostile_decoders(plan, env.cur, rec),
            "hostile-frames" => run_hostile_frames(plan, env.cur, rec),
            "hostile-scalars" => run_hostile_scalars(plan, env.cur, rec),
            _ => {}
        }
    }
}

fn to_codec(rec: &mut Rec, lib: &dyn Lib, g: Grp, s: &Specimen, c: Codec) -> Out {
    recode(rec, lib, g, s.ty, s.codec, c, &s.bytes)
}

// ------------------------------------------------------------------------------------------
// C15
// ------------------------------------------------------------------------------------------
fn run_vault(plan: &Plan, lib: &dyn Lib, rec: &mut Rec) {
    let g = grp_of(plan.get("g"));
    let mut sps = specimens(rec, lib, g, plan.seed, plan.get("payload") as usize);
    let big = plan.class == "vault-big";
    if big {
        // only the types that carry the payload, one specimen each
        sps.retain(|s| matches!(s.ty, Ty::SignCryptCiphertext | Ty::TimeCryptCiphertext) && s.label.starts_with("Basic"));
    }
    let mut x = Xo::derive(plan.seed, &[0xC0DF]);
    let (v1, v2) = (0usize, 1usize);
    let mut c = Courier::new(plan.seed, 2);
    crate::courier::install_faults(&mut c, &plan.faults);
    let mut lens: BTreeMap<(u8, u8), usize> = BTreeMap::new();
    // 1. vault 1 persists every specimen in every codec it offers (write, then sync)
    let mut stored: Vec<(usize, Codec, String)> = vec![];
    for (i, s) in sps.iter().enumerate() {
        for cd in codecs_of(s.ty).into_iter().filter(|c| !big || matches!(c, Codec::Bytes | Codec::BytesBox | Codec::Bare | Codec::JsonReader)) {
            let key = format!("{}:{}:{}", i, s.ty.name(), cd.name());
            let enc = c.at(v1, || to_codec(rec, lib, g, s, cd));
            // a write that fails on the CALLER's side part-way (the vault's disk is full, the socket closed): the value is
            // handed to a sink that takes k bytes and then errors. The caller handles the error and encodes again.
            if x.chance(1, 3) && codecs_of(s.ty).contains(&Codec::Json) {
                if let Some(j) = to_codec(rec, lib, g, s, Codec::Json).first() {
                    let n = j.len() as u64;
                    let k = match x.below(5) { 0 => 0, 1 => 1, 2 => n - 1, 3 => n / 2, _ => x.below(n) };
                    // the sink returns an error, or panics (and the caller catches the unwind)
                    let how = [x.below(2) as u8];
                    let o = rec.call(lib, g, Op::EncodeInterrupted, &[&[s.ty as u8], &[s.codec as u8], &s.bytes, &u64b(k), &how]);
                    rec.fault(if how[0] == 0 { "caller-sink-fails-mid-encoding" } else { "caller-sink-panics-mid-encoding" });
                    rec.expect("C15", "value-encodes", o.flag() == Some(true), || format!("{} | a sink that fails after {} of {} bytes: {:?}", s.ty.name(), k, n, o.kind()));
                }
            }
            let enc2 = to_codec(rec, lib, g, s, cd);
            rec.case(&[15, g as u64, s.ty as u64, cd as u64, s.label.len() as u64 + s.label.as_bytes()[0] as u64 * 17], s.label != "generated");
            let Some(e) = enc.first().map(|b| b.to_vec()) else {
                rec.expect("C15", "value-encodes", false, || format!("{} {} | {} ({}) cannot be encoded: {:?}", s.ty.name(), cd.name(), s.ty.name(), s.label, enc));
                continue;
            };
            rec.expect("C15", "encoding-deterministic", enc2.first() == Some(e.as_slice()), || format!("{} {} | two encodings of one value differ", s.ty.name(), cd.name()));
            if fixed_len(s.ty) && !matches!(cd, Codec::Json | Codec::JsonReader | Codec::JsonValue) && !is_tree(cd) {
                let prev = *lens.entry((s.ty as u8, cd as u8)).or_insert(e.len());
                rec.expect("C15", "fixed-size-types-have-one-length", prev == e.len(), || format!("{} {} | lengths {} and {} for one (type, group)", s.ty.name(), cd.name(), prev, e.len()));
            }
            c.sim.nodes[v1].disk.write(&key, &e);
            stored.push((i, cd, key));
        }
        c.sim.nodes[v1].disk.sync();
    }
    // 2. crash / restart (scripted); after that only durable bytes exist
    c.pass(400 * MS);
    if !c.up(v1) {
        c.sim.schedule_restart(c.sim.now + MS, v1);
        c.pass(5 * MS);
    }
    // 3. reload everything, compare with the original value, forward to vault 2 in another codec
    for (i, cd, key) in &stored {
        let s = &sps[*i];
        let Some(d) = c.sim.nodes[v1].disk.read(key) else { continue };
        if matches!(cd, Codec::Json | Codec::JsonReader) && x.chance(1, 3) {
            // a first attempt to read the record fails part-way (the source panics, the vault catches it) and is repeated
            let _ = rec.call(lib, g, Op::DecodeInterrupted, &[&[s.ty as u8], &d, &u64b(d.len() as u64 / 2), &[1u8]]);
            rec.fault("caller-source-panics-mid-decoding");
        }
        let back = c.at(v1, || recode(rec, lib, g, s.ty, *cd, s.codec, &d));
        let id = format!("{} {}", s.ty.name(), cd.name());
        let ok = back.first() == Some(s.bytes.as_slice());
        rec.expect("C15", "reload-equals-original", ok, || format!("{} | {} ({}): decode(encode(x)) != x: {}", id, s.ty.name(), s.label, match &back { Out::Ok(v) => format!("came back as {}", short(&v[0])), o => format!("{:?}", o) }));
        if !ok {
            continue;
        }
        let eq = rec.call(lib, g, Op::ValueEq, &[&[s.ty as u8], &[s.codec as u8], &s.bytes, &[*cd as u8], &d]);
        rec.expect("C15", "reload-equals-original", eq.flag() == Some(true), || format!("{} | {} ({}): PartialEq says the reloaded value differs", id, s.ty.name(), s.label));
        if x.chance(1, 4) {
            let offered = codecs_of(s.ty);
            let c2 = offered[x.below(offered.len() as u64) as usize];
            let Some(w) = recode(rec, lib, g, s.ty, *cd, c2, &d).first().map(|b| b.to_vec()) else {
                rec.expect("C15", "reload-equals-original", false, || format!("{} -> {} | re-encoding a reloaded {} failed", id, c2.name(), s.ty.name()));
                continue;
            };
            for a in c.ship(v1, v2, K_FWD, *i as u64, vec![w]) {
                let b2 = c.at(v2, || recode(rec, lib, g, s.ty, c2, s.codec, &a.parts[0]));
                rec.expect("C15", "forwarded-equals-original", b2.first() == Some(s.bytes.as_slice()), || format!("{} -> {} | {} ({}) changed on the way to the second vault", id, c2.name(), s.ty.name(), s.label));
            }
        }
    }
    rec.sample(|| format!("g={} specimens={} stored records={} payload={}B faults={}", g.name(), sps.len(), stored.len(), plan.get("payload"), plan.faults.len()));
    c.finish(rec);
}

// ------------------------------------------------------------------------------------------
// C16
// ------------------------------------------------------------------------------------------
fn bad_points(len: usize, good: &[u8], salt: u64) -> Vec<(&'static str, Vec<u8>)> {
    let mut v = vec![("off-subgroup", refimpl::off_subgroup_point(len, salt)), ("off-curve", refimpl::off_curve_point(len, salt))];
    let mut f = good.to_vec();
    f[0] &= 0x7f; // compression flag cleared
    v.push(("flag-uncompressed", f));
    let mut f = good.to_vec();
    f[0] |= 0x40; // infinity flag on a non-identity encoding
    v.push(("flag-infinity-with-coordinates", f));
    let mut f = vec![0u8; len];
    f[0] = 0xe0; // infinity with the sign bit set
    v.push(("flag-infinity-with-sign", f));
    let mut f = vec![0xffu8; len];
    f[0] = 0x9f; // x >= p
    v.push(("x-not-reduced", f));
    // the honest point plus a point of small order: on the curve, outside the subgroup, and — in the group whose torsion
    // pairs to one — indistinguishable from the honest point for every pairing equation; only the subgroup check tells
    if let Some(p) = Pt::from_bytes(good) {
        let t = p.add(&refimpl::small_order_point(len, salt ^ 0x7057));
        let b = t.to_bytes();
        if refimpl::classify_point(&b) == PointClass::OnCurveNotInSubgroup {
            v.push(("honest-plus-small-order", b));
        }
    }
    v
}

/// Share sets (identifiers 1, 2, 3 of a 2-of-3 split) in which two or three payloads are on the curve but
/// outside the subgroup, arranged so that the stray components cancel — in the plain sum of the payloads, or
/// under the Lagrange weights (3, -3, 1) of the full set / (2, -1) of the pair {1, 2}. `R` is either a point
/// with a subgroup and a torsion part, or pure torsion (then the recombined value would even be the honest one).
/// Every returned set still contains at least two payloads that are not subgroup points.
fn compensated_sets(hdr: usize, items: &[Vec<u8>], salt: u64) -> Vec<(String, Vec<Vec<u8>>)> {
    let mut out = vec![];
    let plen = items[0].len() - hdr;
    let pts: Vec<Pt> = items.iter().filter_map(|i| Pt::from_bytes(&i[hdr..])).collect();
    if pts.len() != 3 {
        return out;
    }
    let rs = [("mixed", Pt::from_bytes_unchecked(&refimpl::off_subgroup_point(plen, salt)).unwrap()), ("torsion", refimpl::small_order_point(plen, salt ^ 9))];
    for (kind, r) in rs {
        let r2 = r.add(&r);
        let shapes: [(&str, Vec<Option<Pt>>); 3] = [
            ("plain-sum-cancels", vec![Some(pts[0].add(&r)), Some(pts[1].sub(&r)), Some(pts[2].clone())]),
            ("lagrange-weights-cancel", vec![Some(pts[0].add(&r)), Some(pts[1].add(&r)), Some(pts[2].clone())]),
            ("pair-lagrange-weights-cancel", vec![Some(pts[0].add(&r)), Some(pts[1].add(&r2)), None]),
        ];
        for (shape, set) in shapes {
            let mut v = vec![];
            let mut stray = 0;
            for (i, p) in set.iter().enumerate() {
                let Some(p) = p else { continue };
                let b = p.to_bytes();
                if refimpl::classify_point(&b) == refimpl::PointClass::OnCurveNotInSubgroup {
                    stray += 1;
                }
                let mut f = items[i][..hdr].to_vec();
                f.extend_from_slice(&b);
                v.push(f);
            }
            if stray >= 2 {
                out.push((format!("{}-{}", shape, kind), v));
            }
        }
    }
    out
}

fn must_reject(rec: &mut Rec, lib: &dyn Lib, g: Grp, ty: Ty, cd: Codec, bytes: &[u8], why: &str) {
    let out = recode(rec, lib, g, ty, cd, Codec::Bytes, bytes);
    rec.expect("C16", "malformed-encoding-rejected", !out.is_ok(), || format!("{} {} {} | decoder returned a value for a malformed encoding ({})", why, ty.name(), cd.name(), short(bytes)));
}

/// What a Byzantine encoder does in any codec: take the honest value's encoding in `cd` and put the bytes `bad` where
/// the point `good` stood (hex text in the human-readable forms, a run of small integers / a byte string in the
/// harness's own format, the raw bytes otherwise). None when the codec's text does not carry the point that way.
pub fn forge_point_in_codec(rec: &mut Rec, lib: &dyn Lib, g: Grp, ty: Ty, cd: Codec, honest_bytes_form: &[u8], good: &[u8], bad: &[u8]) -> Option<Vec<u8>> {
    if good.len() != bad.len() || good.is_empty() {
        return None;
    }
    let enc = recode(rec, lib, g, ty, Codec::Bytes, cd, honest_bytes_form).first().map(|b| b.to_vec())?;
    match cd {
        Codec::Json | Codec::JsonReader | Codec::JsonValue => {
            let text = String::from_utf8_lossy(&enc).to_string();
            if !text.contains(&hex(good)) {
                return None;
            }
            Some(text.replacen(&hex(good), &hex(bad), 1).into_bytes())
        }
        _ if is_tree(cd) => {
            let mut tree = vtree::V::from_wire(&enc).ok()?;
            if !vtree::substitute(&mut tree, good, bad) {
                return None;
            }
            Some(tree.to_wire())
        }
        _ => {
            let p = subslice_pos(&enc, good)?;
            let mut e = enc.clone();
            e[p..p + good.len()].copy_from_slice(bad);
            Some(e)
        }
    }
}

fn subslice_pos(hay: &[u8], needle: &[u8]) -> Option<usize> {
    hay.windows(needle.len()).position(|w| w == needle)
}

fn run_byz_encoder(plan: &Plan, lib: &dyn Lib, rec: &mut Rec) {
    let g = grp_of(plan.get("g"));
    let pl = g.pk_len();
    let sps = specimens(rec, lib, g, plan.seed, plan.get("payload").min(200) as usize);
    let mut x = Xo::derive(plan.seed, &[0xC0E0]);
    let share_types = [Ty::PublicKeyShare, Ty::SignatureShare, Ty::SignDecryptionShare, Ty::ElGamalDecryptionShare, Ty::InnerPointShareG1, Ty::InnerPointShareG2, Ty::SecretKeyShare];
    let mut c = Courier::new(plan.seed, 2);
    for s in sps.iter().filter(|s| s.codec == Codec::Bytes && !s.label.contains("identity")) {
        let positions = point_positions(s.ty.name(), pl, &s.bytes);
        let is_share = share_types.contains(&s.ty);
        for cd in [Codec::Bytes, Codec::Bare, Codec::Json, Codec::TreeBin, Codec::TreeHr] {
            let Some(enc) = to_codec(rec, lib, g, s, cd).first().map(|b| b.to_vec()) else { continue };
            if cd == Codec::Json {
                // the source behind the decoder fails part-way — returns an error, or panics and the caller catches the
                // unwind — and the thread goes on decoding (everything below): nothing comes out of the torn read, and no
                // later decision changes
                for (k, how) in [(enc.len() / 2, 1u8), (enc.len().saturating_sub(1), 1), (enc.len() / 3, 0)] {
                    let o = rec.call(lib, g, Op::DecodeInterrupted, &[&[s.ty as u8], &enc, &u64b(k as u64), &[how]]);
                    rec.fault(if how == 1 { "caller-source-panics-mid-decoding" } else { "caller-source-fails-mid-decoding" });
                    rec.expect("C16", "truncated-input-rejected", o.flag() == Some(false), || format!("interrupted-read {} json | a value came out of a source that failed after {} of {} bytes: {:?}", s.ty.name(), k, enc.len(), o.kind()));
                }
            }
            if is_tree(cd) && !is_share {
                // the third format: a short write is a sequence with one element fewer (the document stays well-formed);
                // every point- or scalar-sized run of the document loses its last element
                if let Ok(tree) = vtree::V::from_wire(&enc) {
                    for len in [32usize, 48, 96] {
                        for node in vtree::runs_of_len(&tree, len) {
                            let (t, _) = vtree::mutate(&tree, node, 1, 0);
                            rec.fault("torn-write");
                            let out = recode(rec, lib, g, s.ty, cd, Codec::Bytes, &t.to_wire());
                            // a shorter payload of a variable-length field is another valid value, not a truncation
                            let variable = matches!(s.ty, Ty::SignCryptCiphertext | Ty::TimeCryptCiphertext) && len == 32 && node > 2;
                            if !variable {
                                rec.expect("C16", "truncated-input-rejected", !out.is_ok(), || format!("tree-run-shortened {} {} | a {}-element run with its last element missing was accepted", s.ty.name(), cd.name(), len));
                            }
                        }
                    }
                }
            }
            // (d) every strict prefix: what a torn or short write leaves behind
            let step = if enc.len() > 400 { enc.len() / 97 + 1 } else { 1 };
            let mut l = 0;
            while l < enc.len() {
                rec.fault("torn-write");
                let out = recode(rec, lib, g, s.ty, cd, Codec::Bytes, &enc[..l]);
                rec.case(&[16, g as u64, s.ty as u64, cd as u64, 0, (l * 16 / enc.len().max(1)) as u64], true);
                rec.expect("C16", "truncated-input-rejected", !out.is_ok(), || format!("prefix {} {} | a strict prefix ({} of {} bytes) of a valid encoding was accepted", s.ty.name(), cd.name(), l, enc.len()));
                l += step;
            }
            // exact-length types reject every other length
            if matches!(s.ty, Ty::SecretKey | Ty::PublicKey | Ty::MultiPublicKey | Ty::ProofOfPossession | Ty::ProofCommitment | Ty::ProofCommitmentSecret | Ty::ProofCommitmentChallenge) && cd == Codec::Bytes {
                for extra in [1usize, 2, 32, 48] {
                    let mut e = enc.clone();
                    e.extend(std::iter::repeat(0u8).take(extra));
                    rec.fault("extend");
                    must_reject(rec, lib, g, s.ty, cd, &e, "extended exact-length");
                    let mut e = vec![0u8; extra];
                    e.extend_from_slice(&enc);
                    must_reject(rec, lib, g, s.ty, cd, &e, "prefixed exact-length");
                }
                must_reject(rec, lib, g, s.ty, cd, &[], "empty exact-length");
            }
            // the other standard serialization of the same points (uncompressed x || y, twice the length, flags clear), of the
            // valid point and of a point outside the subgroup: an exact-length / compressed-only decoder returns nothing for it
            // (share containers hold unparsed bytes by design and are checked at their use sites below)
            if cd == Codec::Bytes && !is_share && positions.len() == 1 && positions[0].1 + positions[0].0 == s.bytes.len() {
                let (off, len) = positions[0];
                let unc: Vec<Vec<u8>> = [Pt::from_bytes(&s.bytes[off..off + len]), Pt::from_bytes_unchecked(&refimpl::off_subgroup_point(len, plan.seed ^ 0x0C))].into_iter().flatten().map(|p| p.to_uncompressed()).collect();
                for u in unc {
                    let mut e = s.bytes[..off].to_vec();
                    e.extend_from_slice(&u);
                    rec.fault("byz-uncompressed-form");
                    for c2 in [Codec::Bytes, Codec::BytesVec, Codec::BytesBox] {
                        let out = recode(rec, lib, g, s.ty, c2, Codec::Bytes, &e);
                        let bad = matches!(&out, Out::Ok(v) if refimpl::classify_point(&v[0][off.min(v[0].len())..]) != PointClass::Valid) || (fixed_len(s.ty) && out.is_ok());
                        rec.expect("C16", "malformed-encoding-rejected", !bad, || format!("uncompressed-form {} {} | the x || y serialization ({} bytes) of a point was decoded{}", s.ty.name(), c2.name(), e.len(), if fixed_len(s.ty) { " by an exact-length type" } else { " into a value that is not a subgroup point" }));
                    }
                }
            }
            if is_share {
                continue;
            }
            // cross-group derivatives: the honest encoding of an artefact of the OTHER group assignment, decoded by its own
            // type a moment ago (nothing hostile about that), then zero-extended / halved to this type's point length and
            // put in this value's point position. The reference model says which of them are points of this group (none, in
            // practice); every other one is refused.
            if matches!(cd, Codec::Bytes | Codec::Json) && positions.len() == 1 {
                let (off, len) = positions[0];
                let good = s.bytes[off..off + len].to_vec();
                let o = if g == Grp::G1 { Grp::G2 } else { Grp::G1 };
                for i in 0..4u64 {
                    let salt = [b"cross-group-".as_slice(), &u64b(plan.seed ^ i)].concat();
                    let Some(sk_o) = rec.call(lib, o, Op::KeyFromHash, &[&salt]).first().map(|b| b.to_vec()) else { continue };
                    let Some(pk_o) = rec.call(lib, o, Op::PublicKey, &[&sk_o]).first().map(|b| b.to_vec()) else { continue };
                    let Some(sig_o) = rec.call(lib, o, Op::Sign, &[&sk_o, &[0u8], b"cross"]).first().map(|b| b.to_vec()) else { continue };
                    // (honest type, honest encoding, its point)
                    let honest: [(Ty, &Vec<u8>, Vec<u8>); 2] = [(Ty::PublicKey, &pk_o, pk_o.clone()), (Ty::Signature, &sig_o, sig_o[1..].to_vec())];
                    for (hty, henc, pt) in honest.iter() {
                        let cands: Vec<(&str, Vec<u8>)> = if pt.len() < len {
                            vec![("zero-extended", [pt.as_slice(), &vec![0u8; len - pt.len()]].concat()), ("zero-prefixed", [vec![0u8; len - pt.len()].as_slice(), pt].concat()), ("doubled", [pt.as_slice(), pt].concat())]
                        } else if pt.len() > len {
                            vec![("first-half", pt[..len].to_vec()), ("second-half", pt[len..].to_vec())]
                        } else {
                            continue; // the same point group: an honest point of it is a valid point here too
                        };
                        for (what, cand) in cands {
                            if Pt::from_bytes(&cand).is_some() {
                                rec.probe("cross-group-derivative-is-a-valid-point");
                                continue;
                            }
                            let Some(forged) = forge_point_in_codec(rec, lib, g, s.ty, cd, &s.bytes, &good, &cand) else { continue };
                            // the honest decode by the other group's own type, right before
                            let ok = recode(rec, lib, o, *hty, Codec::Bytes, Codec::Json, henc).is_ok();
                            rec.expect("C16", "honest-encoding-accepted", ok, || format!("cross-group {} | the honest {} of the other group was refused by its own type", s.ty.name(), hty.name()));
                            rec.fault("byz-cross-group-derivative");
                            let out = recode(rec, lib, g, s.ty, cd, Codec::Bytes, &forged);
                            rec.expect("C16", "malformed-encoding-rejected", !out.is_ok(), || format!("cross-group-{} {} {} | the other group's honest {} ({}), {}, was decoded as this group's point right after its honest decode", what, s.ty.name(), cd.name(), hty.name(), short(pt), what));
                        }
                    }
                }
            }
            // (a)-(c): every point position replaced by the Byzantine encoder
            for (pi, (off, len)) in positions.iter().enumerate() {
                let good = &s.bytes[*off..*off + *len];
                if refimpl::classify_point(good) != PointClass::Valid {
                    continue;
                }
                for (what, bad) in bad_points(*len, good, plan.seed ^ (pi as u64)) {
                    rec.fault("byz-bad-point");
                    rec.case(&[16, g as u64, s.ty as u64, cd as u64, 1 + pi as u64, what.len() as u64], true);
                    let forged = match cd {
                        Codec::Json => {
                            let (h_good, h_bad) = (hex(good), hex(&bad));
                            let text = String::from_utf8_lossy(&enc).to_string();
                            if !text.contains(&h_good) {
                                rec.probe("json-point-not-hex-of-compressed-bytes");
                                continue;
                            }
                            text.replacen(&h_good, &h_bad, 1).into_bytes()
                        }
                        _ if is_tree(cd) => {
                            let Ok(mut tree) = vtree::V::from_wire(&enc) else { continue };
                            if !vtree::substitute(&mut tree, good, &bad) {
                                rec.probe("tree-point-not-found-in-document");
                                continue;
                            }
                            tree.to_wire()
                        }
                        _ => {
                            let Some(p) = subslice_pos(&enc, good) else { continue };
                            let mut e = enc.clone();
                            e[p..p + len].copy_from_slice(&bad);
                            e
                        }
                    };
                    for a in c.ship(0, 1, K_FWD, 0, vec![forged]) {
                        let out = recode(rec, lib, g, s.ty, cd, Codec::Bytes, &a.parts[0]);
                        rec.expect("C16", "invalid-point-rejected", !out.is_ok(), || format!("{} {} {} | point #{} replaced by a {} encoding and the decoder returned a value", what, s.ty.name(), cd.name(), pi, what));
                    }
                }
            }
            // two point positions of the same group made invalid TOGETHER so that the stray parts cancel in their sum
            // (P_i + R, P_j - R): a decoder that tests some combination of the points instead of each point accepts
            for i in 0..positions.len() {
                for j in i + 1..positions.len() {
                    let ((oi, li), (oj, lj)) = (positions[i], positions[j]);
                    if li != lj {
                        continue;
                    }
                    let (gi, gj) = (&s.bytes[oi..oi + li], &s.bytes[oj..oj + lj]);
                    if gi == gj {
                        continue;
                    }
                    let (Some(pi_), Some(pj_)) = (Pt::from_bytes(gi), Pt::from_bytes(gj)) else { continue };
                    for (kind, r) in [("mixed", Pt::from_bytes_unchecked(&refimpl::off_subgroup_point(li, plan.seed ^ 77)).unwrap()), ("torsion", refimpl::small_order_point(li, plan.seed ^ 78))] {
                        let (bi, bj) = (pi_.add(&r).to_bytes(), pj_.sub(&r).to_bytes());
                        if refimpl::classify_point(&bi) != PointClass::OnCurveNotInSubgroup || refimpl::classify_point(&bj) != PointClass::OnCurveNotInSubgroup {
                            continue;
                        }
                        let forged = match cd {
                            Codec::Json => {
                                let text = String::from_utf8_lossy(&enc).to_string();
                                if !text.contains(&hex(gi)) || !text.contains(&hex(gj)) {
                                    continue;
                                }
                                text.replacen(&hex(gi), &hex(&bi), 1).replacen(&hex(gj), &hex(&bj), 1).into_bytes()
                            }
                            _ if is_tree(cd) => {
                                let Ok(mut tree) = vtree::V::from_wire(&enc) else { continue };
                                if !(vtree::substitute(&mut tree, gi, &bi) && vtree::substitute(&mut tree, gj, &bj)) {
                                    continue;
                                }
                                tree.to_wire()
                            }
                            _ => {
                                let (Some(a), Some(b)) = (subslice_pos(&enc, gi), subslice_pos(&enc, gj)) else { continue };
                                let mut e = enc.clone();
                                e[a..a + li].copy_from_slice(&bi);
                                e[b..b + lj].copy_from_slice(&bj);
                                e
                            }
                        };
                        rec.fault("byz-compensating-points");
                        rec.case(&[16, g as u64, s.ty as u64, cd as u64, 100 + (i * 8 + j) as u64, kind.len() as u64], true);
                        let out = recode(rec, lib, g, s.ty, cd, Codec::Bytes, &forged);
                        rec.expect("C16", "invalid-point-rejected", !out.is_ok(), || format!("compensating-{} {} {} | points #{} and #{} replaced by P+R and P'-R (R outside the subgroup) and the decoder returned a value", kind, s.ty.name(), cd.name(), i, j));
                    }
                }
            }
        }
    }
    // share containers hold unparsed point bytes: validated when used
    let n = 3u64;
    if let Some(d) = deal(rec, lib, g, 4, 2, n, plan.seed) {
        let msg = b"share users".to_vec();
        let scheme = if x.chance(1, 2) { 0u8 } else { 2 };
        let parts: Vec<Vec<u8>> = d.shares.iter().filter_map(|s| rec.call(lib, g, Op::ShareSign, &[s, &[scheme], &msg]).first().map(|b| b.to_vec())).collect();
        let ct = rec.call(lib, g, Op::SignCrypt, &[&d.pk, &[scheme], &msg]).first().map(|b| b.to_vec()).unwrap_or_default();
        let ds: Vec<Vec<u8>> = d.shares.iter().filter_map(|s| rec.call(lib, g, Op::ScShare, &[&ct, s]).first().map(|b| b.to_vec())).collect();
        let ect = rec.call(lib, g, Op::EgEncrypt, &[&d.pk, &d.sk]).first().map(|b| b.to_vec()).unwrap_or_default();
        let es: Vec<Vec<u8>> = d.shares.iter().filter_map(|s| rec.call(lib, g, Op::EgShare, &[s, &ect]).first().map(|b| b.to_vec())).collect();
        if parts.len() == 3 && ds.len() == 3 && es.len() == 3 {
            let victim = x.below(3) as usize;
            for (what, bad_sig) in bad_points(g.sig_len(), &parts[0][2..], plan.seed) {
                let mut f = parts[victim][..2].to_vec();
                f.extend_from_slice(&bad_sig);
                let set: Vec<&[u8]> = (0..3).map(|i| if i == victim { f.as_slice() } else { parts[i].as_slice() }).collect();
                rec.case(&[16, g as u64, 200, what.len() as u64, victim as u64], true);
                let o = rec.call(lib, g, Op::SigFromShares, &set);
                rec.expect("C16", "invalid-share-payload-reported-at-use", !o.is_ok(), || format!("{} Signature::from_shares | a share payload that is not a subgroup point was combined", what));
                // the invalid share behind an unfilled slot of a pre-sized buffer (an all-zero container), at every position
                let empty = vec![0u8; parts[0].len()];
                let goods: Vec<&[u8]> = (0..3).filter(|i| *i != victim).map(|i| parts[i].as_slice()).collect();
                for at in 0..=2usize {
                    let mut set: Vec<&[u8]> = goods.clone();
                    set.insert(at, empty.as_slice());
                    set.push(f.as_slice());
                    let o = rec.call(lib, g, Op::SigFromShares, &set);
                    rec.expect("C16", "invalid-share-payload-reported-at-use", !o.is_ok(), || format!("{} Signature::from_shares | an invalid share payload behind an all-zero container at index {} was not reported", what, at));
                }
                let o = rec.call(lib, g, Op::PkShareVerify, &[&d.pk_shares[victim], &f, &msg]);
                rec.expect("C16", "invalid-share-payload-reported-at-use", !o.is_ok(), || format!("{} PublicKeyShare::verify | a signature share that is not a subgroup point verified", what));
            }
            for (what, bad_pk) in bad_points(pl, &d.pk_shares[0][1..], plan.seed ^ 5) {
                let forge = |orig: &Vec<u8>| {
                    let mut f = orig[..1].to_vec();
                    f.extend_from_slice(&bad_pk);
                    f
                };
                let f = forge(&d.pk_shares[victim]);
                let set: Vec<&[u8]> = (0..3).map(|i| if i == victim { f.as_slice() } else { d.pk_shares[i].as_slice() }).collect();
                let o = rec.call(lib, g, Op::PkFromShares, &set);
                rec.expect("C16", "invalid-share-payload-reported-at-use", !o.is_ok(), || format!("{} PublicKey::from_shares | a share payload that is not a subgroup point was combined", what));
                {
                    let empty = vec![0u8; d.pk_shares[0].len()];
                    let goods: Vec<&[u8]> = (0..3).filter(|i| *i != victim).map(|i| d.pk_shares[i].as_slice()).collect();
                    for at in 0..=2usize {
                        let mut set: Vec<&[u8]> = goods.clone();
                        set.insert(at, empty.as_slice());
                        set.push(f.as_slice());
                        let o = rec.call(lib, g, Op::PkFromShares, &set);
                        rec.expect("C16", "invalid-share-payload-reported-at-use", !o.is_ok(), || format!("{} PublicKey::from_shares | an invalid share payload behind an all-zero container at index {} was not reported", what, at));
                    }
                }
                let o = rec.call(lib, g, Op::PkShareVerify, &[&f, &parts[victim], &msg]);
                rec.expect("C16", "invalid-share-payload-reported-at-use", !o.is_ok(), || format!("{} PublicKeyShare::verify | a public-key share that is not a subgroup point verified", what));
                let fd = forge(&ds[victim]);
                let set: Vec<&[u8]> = (0..3).map(|i| if i == victim { fd.as_slice() } else { ds[i].as_slice() }).collect();
                let o = rec.call(lib, g, Op::DkFromShares, &set);
                rec.expect("C16", "invalid-share-payload-reported-at-use", !o.is_ok(), || format!("{} SignCryptDecryptionKey::from_shares | invalid payload combined", what));
                let o = rec.call(lib, g, Op::DShareVerify, &[&fd, &d.pk_shares[victim], &ct]);
                rec.expect("C16", "invalid-share-payload-reported-at-use", !o.is_ok(), || format!("{} SignDecryptionShare::verify | invalid payload verified", what));
                // ... and decrypting directly with the shares (the recombination happens inside): nothing may come out
                let mut da: Vec<&[u8]> = vec![&ct];
                da.extend((0..3).map(|i| if i == victim { fd.as_slice() } else { ds[i].as_slice() }));
                let o = rec.call(lib, g, Op::ScDecryptShares, &da);
                rec.expect("C16", "invalid-share-payload-reported-at-use", !matches!(o.opt_value(), Some(Some(_))), || format!("{} SignCryptCiphertext::decrypt_with_shares | a share payload that is not a subgroup point was used and a plaintext came out: {:?}", what, o.kind()));
                let o = rec.call(lib, g, Op::DShareVerify, &[&ds[victim], &f, &ct]);
                rec.expect("C16", "invalid-share-payload-reported-at-use", !o.is_ok(), || format!("{} SignDecryptionShare::verify | invalid public-key share accepted", what));
                let fe = forge(&es[victim]);
                let set: Vec<&[u8]> = (0..3).map(|i| if i == victim { fe.as_slice() } else { es[i].as_slice() }).collect();
                let o = rec.call(lib, g, Op::EgDkFromShares, &set);
                rec.expect("C16", "invalid-share-payload-reported-at-use", !o.is_ok(), || format!("{} ElGamalDecryptionKey::from_shares | invalid payload combined", what));
            }
            // several invalid payloads that compensate each other: a check on the combined value alone cannot see them
            let sites: [(&str, Op, usize, &Vec<Vec<u8>>); 4] = [
                ("Signature::from_shares", Op::SigFromShares, 2, &parts),
                ("PublicKey::from_shares", Op::PkFromShares, 1, &d.pk_shares),
                ("SignCryptDecryptionKey::from_shares", Op::DkFromShares, 1, &ds),
                ("ElGamalDecryptionKey::from_shares", Op::EgDkFromShares, 1, &es),
            ];
            for (name, op, hdr, items) in sites {
                for (what, set) in compensated_sets(hdr, items, plan.seed ^ 0xC0) {
                    rec.fault("byz-compensating-payloads");
                    rec.case(&[16, g as u64, 210, op as u64, what.len() as u64], true);
                    let refs: Vec<&[u8]> = set.iter().map(|v| v.as_slice()).collect();
                    let o = rec.call(lib, g, op, &refs);
                    rec.expect("C16", "invalid-share-payload-reported-at-use", !o.is_ok(), || format!("{} {} | share payloads outside the subgroup whose stray parts cancel were combined", what, name));
                }
            }
        }
    }
    // a larger committee (2-of-9): two payloads off the subgroup whose stray parts cancel in the plain sum, at drawn positions;
    // and shares the LIBRARY derives over a hostile base point (a ciphertext whose `u` — a public field — is g*k + T, T of small
    // order): their payloads are off the subgroup, and every consumer must say so
    if let Some(d9) = deal(rec, lib, g, 4, 2, 9, plan.seed ^ 0x99) {
        let msg = b"nine share users".to_vec();
        let scheme = if x.chance(1, 2) { 0u8 } else { 2 };
        let parts: Vec<Vec<u8>> = d9.shares.iter().filter_map(|s| rec.call(lib, g, Op::ShareSign, &[s, &[scheme], &msg]).first().map(|b| b.to_vec())).collect();
        let ct = rec.call(lib, g, Op::SignCrypt, &[&d9.pk, &[scheme], &msg]).first().map(|b| b.to_vec()).unwrap_or_default();
        let ds: Vec<Vec<u8>> = d9.shares.iter().filter_map(|s| rec.call(lib, g, Op::ScShare, &[&ct, s]).first().map(|b| b.to_vec())).collect();
        if parts.len() == 9 && ds.len() == 9 {
            let sites: [(&str, Op, usize, &Vec<Vec<u8>>); 3] = [("Signature::from_shares", Op::SigFromShares, 2, &parts), ("PublicKey::from_shares", Op::PkFromShares, 1, &d9.pk_shares), ("SignCryptDecryptionKey::from_shares", Op::DkFromShares, 1, &ds)];
            for (name, op, hdr, items) in sites {
                let len = items[0].len() - hdr;
                let (a, b) = (x.below(9) as usize, (x.below(8) as usize + 1));
                let b = (a + b) % 9;
                for (kind, r) in [("mixed", Pt::from_bytes_unchecked(&refimpl::off_subgroup_point(len, plan.seed ^ 0x9A)).unwrap()), ("torsion", refimpl::small_order_point(len, plan.seed ^ 0x9B))] {
                    let (Some(pa), Some(pb)) = (Pt::from_bytes(&items[a][hdr..]), Pt::from_bytes(&items[b][hdr..])) else { continue };
                    let (ba, bb) = (pa.add(&r).to_bytes(), pb.sub(&r).to_bytes());
                    if refimpl::classify_point(&ba) != PointClass::OnCurveNotInSubgroup || refimpl::classify_point(&bb) != PointClass::OnCurveNotInSubgroup {
                        continue;
                    }
                    let set: Vec<Vec<u8>> = (0..9).map(|i| if i == a { [&items[a][..hdr], ba.as_slice()].concat() } else if i == b { [&items[b][..hdr], bb.as_slice()].concat() } else { items[i].clone() }).collect();
                    let refs: Vec<&[u8]> = set.iter().map(|v| v.as_slice()).collect();
                    rec.fault("byz-compensating-payloads");
                    rec.case(&[16, g as u64, 211, op as u64, kind.len() as u64], true);
                    let o = rec.call(lib, g, op, &refs);
                    rec.expect("C16", "invalid-share-payload-reported-at-use", !o.is_ok(), || format!("compensating-{}-pair-in-nine {} | payloads {} and {} of a set of 9 replaced by P+R and P'-R (R outside the subgroup) were combined", kind, name, a + 1, b + 1));
                }
            }
            // hostile base
            let k = refimpl::scalar_from_u64(3 + plan.seed % 1000);
            let base = Pt::from_bytes(&d9.pk).unwrap().gen_like().mul(&k).add(&refimpl::small_order_point(pl, plan.seed ^ 0x9C)).to_bytes();
            if refimpl::classify_point(&base) == PointClass::OnCurveNotInSubgroup {
                let derived: Vec<Option<Vec<u8>>> = d9.shares.iter().map(|s| rec.call(lib, g, Op::ScShareOverBase, &[&base, s]).first().map(|b| b.to_vec())).collect();
                let bad: Vec<(usize, Vec<u8>)> = derived.iter().enumerate().filter_map(|(i, o)| o.clone().map(|b| (i, b))).filter(|(_, b)| refimpl::classify_point(&b[1..]) == PointClass::OnCurveNotInSubgroup).collect();
                rec.fault("byz-hostile-base-point");
                if bad.len() >= 2 {
                    rec.case(&[16, g as u64, 212, bad.len() as u64], true);
                    let refs: Vec<&[u8]> = bad.iter().map(|(_, b)| b.as_slice()).collect();
                    let o = rec.call(lib, g, Op::DkFromShares, &refs);
                    rec.expect("C16", "invalid-share-payload-reported-at-use", !o.is_ok(), || format!("derived-over-hostile-base SignCryptDecryptionKey::from_shares | {} shares the library derived over a base point outside the subgroup (payloads outside the subgroup) were combined", bad.len()));
                    let o = rec.call(lib, g, Op::PkFromShares, &refs);
                    rec.expect("C16", "invalid-share-payload-reported-at-use", !o.is_ok(), || "derived-over-hostile-base PublicKey::from_shares | payloads outside the subgroup were combined".to_string());
                    let (i0, b0) = &bad[0];
                    let o = rec.call(lib, g, Op::DShareVerify, &[b0, &d9.pk_shares[*i0], &ct]);
                    rec.expect("C16", "invalid-share-payload-reported-at-use", !o.is_ok(), || "derived-over-hostile-base SignDecryptionShare::verify | a payload outside the subgroup verified".to_string());
                    let mut da: Vec<&[u8]> = vec![&ct];
                    da.extend(refs.iter().copied());
                    let o = rec.call(lib, g, Op::ScDecryptShares, &da);
                    rec.expect("C16", "invalid-share-payload-reported-at-use", !matches!(o.opt_value(), Some(Some(_))), || "derived-over-hostile-base decrypt_with_shares | a plaintext came out".to_string());
                }
            }
        }
    }
    // secrets and challenges imported from bytes are never zero
    let r_be: Vec<u8> = {
        let mut b = refimpl::scalar_to_be(&refimpl::scalar_neg_u64(1));
        // r-1 + 1 = r (big-endian increment)
        for i in (0..32).rev() {
            let (v, c) = b[i].overflowing_add(1);
            b[i] = v;
            if !c {
                break;
            }
        }
        b
    };
    let two_r: Vec<u8> = {
        let mut out = vec![0u8; 32];
        let mut carry = 0u16;
        for i in (0..32).rev() {
            let v = (r_be[i] as u16) * 2 + carry;
            out[i] = v as u8;
            carry = v >> 8;
        }
        out
    };
    let mut r_le = r_be.clone();
    r_le.reverse();
    let mut two_r_le = two_r.clone();
    two_r_le.reverse();
    for ty in [Ty::SecretKey, Ty::ProofCommitmentSecret, Ty::ProofCommitmentChallenge] {
        for (what, cd, bytes) in [
            ("zero", Codec::Bytes, vec![0u8; 32]),
            ("zero", Codec::Be, vec![0u8; 32]),
            ("zero", Codec::Le, vec![0u8; 32]),
            ("zero", Codec::BytesVec, vec![0u8; 32]),
            ("zero", Codec::BytesBox, vec![0u8; 32]),
            ("order-r", Codec::Bytes, r_be.clone()),
            ("order-r", Codec::Be, r_be.clone()),
            ("order-r", Codec::Le, r_le.clone()),
            ("2r", Codec::Be, two_r.clone()),
            ("2r", Codec::Le, two_r_le.clone()),
            ("2r", Codec::Bytes, two_r.clone()),
        ] {
            let out = recode(rec, lib, g, ty, cd, Codec::Be, &bytes);
            rec.case(&[16, g as u64, ty as u64, cd as u64, 300 + what.len() as u64], true);
            let zero = matches!(&out, Out::Ok(v) if v[0].iter().all(|b| *b == 0));
            rec.expect("C16", "byte-imported-scalar-never-zero", !zero, || format!("{} {} {} | importing the encoding of {} yields the zero scalar", what, ty.name(), cd.name(), what));
            if what == "zero" {
                rec.expect("C16", "byte-imported-scalar-never-zero", !out.is_ok(), || format!("zero-accepted {} {} | 32 zero bytes were accepted", ty.name(), cd.name()));
            }
        }
        for len in [0usize, 1, 31, 33, 48, 64] {
            must_reject(rec, lib, g, ty, Codec::Bytes, &vec![1u8; len], "wrong-length scalar");
        }
    }
    // the curve-tagged key wrapper: tag byte + 32 key bytes, exactly — through every byte importer it offers (the slice
    // conversion, the four containers, and its own from_be_bytes / from_le_bytes, which take a slice of any length)
    {
        let tag = if g == Grp::G1 { 1u8 } else { 2 };
        let key = refimpl::scalar_to_be(&refimpl::scalar_from_u64(1 + plan.seed % 1000));
        let mut key_le = key.clone();
        key_le.reverse();
        for (cd, body) in [(Codec::Bytes, &key), (Codec::BytesVec, &key), (Codec::BytesBox, &key), (Codec::Be, &key), (Codec::Le, &key_le)] {
            let exact: Vec<u8> = std::iter::once(tag).chain(body.iter().copied()).collect();
            let ok = recode(rec, lib, g, Ty::SecretKeyEnum, cd, Codec::Be, &exact);
            rec.expect("C16", "exact-length-importer-accepts-its-length", ok.is_ok(), || format!("enum-exact {} | the 33-byte form of a valid key is refused: {:?}", cd.name(), ok));
            for extra in [1usize, 2, 31, 32, 33, 64] {
                let mut e = exact.clone();
                e.extend(std::iter::repeat(if extra % 2 == 0 { 0u8 } else { 0xa5 }).take(extra));
                rec.fault("extend");
                must_reject(rec, lib, g, Ty::SecretKeyEnum, cd, &e, "extended curve-tagged key");
            }
            for keep in [0usize, 1, 2, 17, 32] {
                rec.fault("torn-write");
                must_reject(rec, lib, g, Ty::SecretKeyEnum, cd, &exact[..keep], "truncated curve-tagged key");
            }
            let mut zero = vec![tag];
            zero.extend_from_slice(&[0u8; 32]);
            must_reject(rec, lib, g, Ty::SecretKeyEnum, cd, &zero, "zero curve-tagged key");
            for bad_tag in [0u8, 3, 255] {
                let mut e = exact.clone();
                e[0] = bad_tag;
                must_reject(rec, lib, g, Ty::SecretKeyEnum, cd, &e, "unknown curve tag");
            }
        }
    }
    rec.sample(|| format!("g={} specimens={} point positions x (off-subgroup, off-curve, 4 flag/range violations) x (bytes, bare, json) + every strict prefix", g.name(), sps.len()));
    c.finish(rec);
}

/// random byte strings: whatever a decoder returns contains only valid subgroup points
fn run_random_bytes(plan: &Plan, lib: &dyn Lib, rec: &mut Rec) {
    let g = grp_of(plan.get("g"));
    let pl = g.pk_len();
    let mut x = Xo::derive(plan.seed, &[0xC0E1]);
    let sps = specimens(rec, lib, g, plan.seed, 40);
    for _ in 0..400 {
        let s = &sps[x.below(sps.len() as u64) as usize];
        if s.codec != Codec::Bytes || matches!(s.ty, Ty::PublicKeyShare | Ty::SignatureShare | Ty::SignDecryptionShare | Ty::ElGamalDecryptionShare | Ty::InnerPointShareG1 | Ty::InnerPointShareG2 | Ty::SecretKeyShare) {
            continue;
        }
        // structure-aware: valid encoding with a run of random bytes spliced in, or fully random of the same length
        let mut b = s.bytes.clone();
        if b.is_empty() {
            continue;
        }
        match x.below(3) {
            0 => x.fill(&mut b),
            1 => {
                let at = x.below(b.len() as u64) as usize;
                let l = (1 + x.below(16) as usize).min(b.len() - at);
                let r = x.bytes(l);
                b[at..at + l].copy_from_slice(&r);
            }
            _ => {
                let at = x.below(b.len() as u64 * 8) as usize;
                b[at / 8] ^= 1 << (at % 8);
            }
        }
        rec.fault("bitrot");
        let out = recode(rec, lib, g, s.ty, Codec::Bytes, Codec::Bytes, &b);
        rec.case(&[16, g as u64, s.ty as u64, 400, out.is_ok() as u64], true);
        if let Out::Ok(v) = &out {
            for (off, len) in point_positions(s.ty.name(), pl, &v[0]) {
                if off + len <= v[0].len() {
                    let cl = refimpl::classify_point(&v[0][off..off + len]);
                    rec.expect("C16", "returned-points-are-valid", matches!(cl, PointClass::Valid | PointClass::Identity), || format!("{} | a decoder returned a value holding a point that is {:?}", s.ty.name(), cl));
                }
            }
            // and the same for the input bytes themselves when the layout is position-stable
            for (off, len) in point_positions(s.ty.name(), pl, &b) {
                if off + len <= b.len() && v[0].len() == b.len() {
                    let cl = refimpl::classify_point(&b[off..off + len]);
                    rec.expect("C16", "invalid-point-rejected", matches!(cl, PointClass::Valid | PointClass::Identity), || format!("random {} | accepted bytes whose point field is {:?}", s.ty.name(), cl));
                }
            }
        }
    }
    rec.sample(|| format!("g={} 400 corrupted/random byte strings over {} specimen shapes", g.name(), sps.len()));
}

// ------------------------------------------------------------------------------------------
// C17 — hostile inputs; every unwinding call is a violation (Rec is in no-abort mode)
// ------------------------------------------------------------------------------------------
fn run_hostile_decoders(plan: &Plan, lib: &dyn Lib, rec: &mut Rec) {
    let g = grp_of(plan.get("g"));
    let sps = specimens(rec, lib, g, plan.seed, plan.get("payload").min(300) as usize);
    let mut x = Xo::derive(plan.seed, &[0xC0E2]);
    let pick = plan.get("pick") as usize;
    let mut c = Courier::new(plan.seed, 2);
    let mut sent = 0u64;
    // this run takes a slice of the specimens so that one run stays short
    for (i, s) in sps.iter().enumerate() {
        if (i + pick) % 4 != 0 {
            continue;
        }
        for cd in codecs_of(s.ty) {
            let Some(enc) = to_codec(rec, lib, g, s, cd).first().map(|b| b.to_vec()) else { continue };
            rec.case(&[17, g as u64, s.ty as u64, cd as u64], true);
            // the honest value first: every accessor of a decoded value
            rec.call(lib, g, Op::Exercise, &[&[s.ty as u8], &[cd as u8], &enc]);
            // every truncation length incl. 0 (sampled for long encodings)
            let step = if enc.len() > 300 { enc.len() / 61 + 1 } else { 1 };
            let mut l = 0;
            while l <= enc.len() {
                rec.fault("truncate");
                rec.call(lib, g, Op::Exercise, &[&[s.ty as u8], &[cd as u8], &enc[..l.min(enc.len())]]);
                l += step;
            }
            // in-flight bit flips and extensions through the transport
            for _ in 0..6 {
                let bit = x.below((enc.len().max(1) * 8) as u64) as usize;
                c.fault(K_FWD, sent, NetAction::BitFlip { part: 0, bit });
                sent += 1;
                for a in c.ship(0, 1, K_FWD, 0, vec![enc.clone()]) {
                    rec.call(lib, g, Op::Exercise, &[&[s.ty as u8], &[cd as u8], &a.parts[0]]);
                }
            }
            let mut e = enc.clone();
            let extra = 1 + x.below(40) as usize;
            e.extend_from_slice(&x.bytes(extra));
            rec.fault("extend");
            rec.call(lib, g, Op::Exercise, &[&[s.ty as u8], &[cd as u8], &e]);
            if is_tree(cd) {
                // the Byzantine encoder of the third format: well-formed documents with the wrong shape — one element more or
                // fewer in a sequence, 300 more, bytes where a sequence was and the reverse, a string as bytes, another integer,
                // another variant tag, unknown / duplicate / missing map keys, a node replaced or wrapped
                if let Ok(tree) = vtree::V::from_wire(&enc) {
                    let nodes = tree.size();
                    // every container node and a sample of the leaves, every mutation kind
                    let mut targets: Vec<usize> = (0..nodes.min(6)).collect();
                    for len in [32usize, 48, 96, 1, 2] {
                        targets.extend(vtree::runs_of_len(&tree, len));
                    }
                    for _ in 0..4 {
                        targets.push(x.below(nodes as u64) as usize);
                    }
                    targets.sort();
                    targets.dedup();
                    for node in targets {
                        for how in 0..vtree::MUTATIONS {
                            let (t, name) = vtree::mutate(&tree, node, how, x.below(256) as u8);
                            if name == "unchanged" {
                                continue;
                            }
                            rec.fault("byz-document-shape");
                            rec.call(lib, g, Op::Exercise, &[&[s.ty as u8], &[cd as u8], &t.to_wire()]);
                        }
                    }
                }
            }
            if matches!(cd, Codec::Json | Codec::JsonReader | Codec::JsonValue) {
                // text that stays VALID UTF-8 and keeps its byte length but is no longer ASCII: a 2-, 3- or 4-byte character
                // over 2, 3 or 4 adjacent hex digits, starting on an even and on an odd digit; the same as a \u escape
                // (the decoders get past the JSON parser and meet multi-byte characters inside what they slice as digit pairs)
                {
                    let text = enc.clone();
                    let runs: Vec<usize> = (0..text.len().saturating_sub(8)).filter(|i| text[*i..*i + 8].iter().all(|b| b.is_ascii_hexdigit())).collect();
                    if !runs.is_empty() {
                        for (w, ch) in [(2usize, "\u{e9}"), (3, "\u{20ac}"), (4, "\u{1f600}")] {
                            for parity in 0..2usize {
                                let at = runs[x.below(runs.len() as u64) as usize] + parity;
                                let mut t = text.clone();
                                t[at..at + w].copy_from_slice(ch.as_bytes());
                                rec.fault("utf8-multibyte-in-hex-text");
                                rec.call(lib, g, Op::Exercise, &[&[s.ty as u8], &[cd as u8], &t]);
                            }
                        }
                        // six ASCII bytes "\u00e9" in place of six digits (decodes to ONE two-byte character: the string gets shorter),
                        // and in place of one digit (the string gets longer)
                        let at = runs[x.below(runs.len() as u64) as usize];
                        let mut t = text.clone();
                        t.splice(at..at + 6, b"\\u00e9".iter().copied());
                        rec.call(lib, g, Op::Exercise, &[&[s.ty as u8], &[cd as u8], &t]);
                        let mut t = text.clone();
                        t.splice(at..at + 1, b"\\u00e9".iter().copied());
                        rec.call(lib, g, Op::Exercise, &[&[s.ty as u8], &[cd as u8], &t]);
                        // an escaped ASCII digit: "\u0030" is '0' — a string the parser must hand over as an owned copy
                        let mut t = text.clone();
                        t.splice(at..at + 1, b"\\u0030".iter().copied());
                        rec.call(lib, g, Op::Exercise, &[&[s.ty as u8], &[cd as u8], &t]);
                    }
                }
            }
            if cd == Codec::Json {
                // hex-digit corruption: a digit becomes a non-hex character; a digit is dropped; case is changed
                let text = enc.clone();
                let digits: Vec<usize> = text.iter().enumerate().filter(|(_, b)| b.is_ascii_hexdigit()).map(|(i, _)| i).collect();
                if !digits.is_empty() {
                    for repl in [b'g', b'z', b' ', b'"', 0xc3, b'G'] {
                        let mut t = text.clone();
                        t[digits[x.below(digits.len() as u64) as usize]] = repl;
                        rec.fault("hex-digit-corrupted");
                        rec.call(lib, g, Op::Exercise, &[&[s.ty as u8], &[cd as u8], &t]);
                    }
                    let mut t = text.clone();
                    t.remove(digits[x.below(digits.len() as u64) as usize]);
                    rec.fault("hex-digit-dropped");
                    rec.call(lib, g, Op::Exercise, &[&[s.ty as u8], &[cd as u8], &t]);
                    let t: Vec<u8> = text.iter().map(|b| b.to_ascii_uppercase()).collect();
                    rec.call(lib, g, Op::Exercise, &[&[s.ty as u8], &[cd as u8], &t]);
                    // a hex string made shorter / longer by two digits
                    if digits.len() > 4 {
                        let mut t = text.clone();
                        let p = digits[digits.len() / 2];
                        t.drain(p..p + 2);
                        rec.call(lib, g, Op::Exercise, &[&[s.ty as u8], &[cd as u8], &t]);
                        let mut t = text.clone();
                        t.insert(p, b'0');
                        t.insert(p, b'0');
                        rec.call(lib, g, Op::Exercise, &[&[s.ty as u8], &[cd as u8], &t]);
                    }
                }
                for j in [&b"\"\""[..], b"\"0\"", b"\"zz\"", b"[]", b"{}", b"null", b"0", b"[\"BLS12381G1\",\"\"]", b"{\"Basic\":\"\"}", b"{\"Basic\":{\"u\":\"\",\"v\":\"\"}}"] {
                    rec.call(lib, g, Op::Exercise, &[&[s.ty as u8], &[cd as u8], j]);
                }
            }
        }
    }
    // empty slices into every decoder of every type
    for ty in Ty::ALL {
        for cd in Codec::ALL.into_iter().chain(Codec::JSON_FRONT_ENDS).chain(Codec::TREE_FORMATS) {
            if is_tree(cd) {
                // minimal documents of every kind into every decoder
                use vtree::V;
                for d in [V::Unit, V::None, V::Bool(true), V::U(0), V::U(u64::MAX), V::I(-1), V::U128(u128::MAX), V::Bytes(vec![]), V::Str(String::new()), V::Seq(vec![]), V::Map(vec![]), V::Some(Box::new(V::Unit)), V::Variant(0, "Basic".into(), Box::new(V::Unit)), V::Variant(9, "".into(), Box::new(V::Seq(vec![]))), V::Seq(vec![V::Seq(vec![]); 3]), V::Bytes(vec![0; 33]), V::Str("00".repeat(48))] {
                    rec.call(lib, g, Op::Exercise, &[&[ty as u8], &[cd as u8], &d.to_wire()]);
                }
            }
            rec.call(lib, g, Op::Exercise, &[&[ty as u8], &[cd as u8], &[]]);
            rec.call(lib, g, Op::Exercise, &[&[ty as u8], &[cd as u8], &[0]]);
            rec.call(lib, g, Op::Exercise, &[&[ty as u8], &[cd as u8], &[1]]);
            rec.call(lib, g, Op::Exercise, &[&[ty as u8], &[cd as u8], &[2]]);
            rec.call(lib, g, Op::Exercise, &[&[ty as u8], &[cd as u8], &[3, 0]]);
        }
    }
    for op in [Op::EnumFromBe, Op::EnumFromLe] {
        for b in [&[][..], &[0], &[1], &[2], &[3], &[1, 0], &[2; 33], &[1; 34]] {
            rec.call(lib, g, op, &[b]);
        }
    }
    // share combination and list entry points with degenerate sets
    for op in [Op::SigFromShares, Op::PkFromShares, Op::Combine, Op::DkFromShares, Op::EgDkFromShares, Op::Aggregate, Op::MultiSig, Op::MultiPk] {
        rec.call(lib, g, op, &[]);
    }
    // ... and with MORE shares than there are identifiers (a re-sent share, a flooding participant): 255, 256, 257, 300, 512
    // entries with identifiers cycling through 1..=255 (and 0), into every recombination site incl. direct decryption
    if pick % 4 == 0 {
        if let Some(d) = deal(rec, lib, g, 4, 2, 3, plan.seed ^ 0xF100D) {
            let msg = b"flood".to_vec();
            let parts: Vec<Vec<u8>> = d.shares.iter().filter_map(|s| rec.call(lib, g, Op::ShareSign, &[s, &[0], &msg]).first().map(|b| b.to_vec())).collect();
            let ct = rec.call(lib, g, Op::SignCrypt, &[&d.pk, &[0], &msg]).first().map(|b| b.to_vec()).unwrap_or_default();
            let ds: Vec<Vec<u8>> = d.shares.iter().filter_map(|s| rec.call(lib, g, Op::ScShare, &[&ct, s]).first().map(|b| b.to_vec())).collect();
            let ect = rec.call(lib, g, Op::EgEncrypt, &[&d.pk, &d.sk]).first().map(|b| b.to_vec()).unwrap_or_default();
            let es: Vec<Vec<u8>> = d.shares.iter().filter_map(|s| rec.call(lib, g, Op::EgShare, &[s, &ect]).first().map(|b| b.to_vec())).collect();
            if parts.len() == 3 && ds.len() == 3 && es.len() == 3 {
                for count in [255usize, 256, 257, 300, 512] {
                    for (op, items, idpos, lead) in [(Op::SigFromShares, &parts, 1usize, None), (Op::PkFromShares, &d.pk_shares, 0, None), (Op::Combine, &d.shares, 0, None), (Op::DkFromShares, &ds, 0, None), (Op::EgDkFromShares, &es, 0, None), (Op::ScDecryptShares, &ds, 0, Some(&ct))] {
                        for with_zero in [false, true] {
                            let list: Vec<Vec<u8>> = (0..count).map(|i| { let mut b = items[i % 3].clone(); b[idpos] = if with_zero { (i % 256) as u8 } else { (i % 255 + 1) as u8 }; b }).collect();
                            let mut a: Vec<&[u8]> = vec![];
                            if let Some(c0) = lead {
                                a.push(c0);
                            }
                            a.extend(list.iter().map(|v| v.as_slice()));
                            rec.fault("flooded-share-list");
                            rec.call(lib, g, op, &a);
                        }
                    }
                }
            }
        }
    }
    rec.sample(|| format!("g={} hostile decoder inputs over {} specimens (slice {}), all codecs", g.name(), sps.len(), pick % 4));
    c.finish(rec);
}

/// valid signcryption / time-lock envelopes around attacker-chosen framing bytes; extreme timestamps
fn run_hostile_frames(plan: &Plan, lib: &dyn Lib, rec: &mut Rec) {
    let g = grp_of(plan.get("g"));
    let pl = g.pk_len();
    let mut x = Xo::derive(plan.seed, &[0xC0E3]);
    let sk = key_of_class(rec, lib, g, 4, plan.seed);
    let Some(pk) = rec.call(lib, g, Op::PublicKey, &[&sk]).first().map(|b| b.to_vec()) else { return };
    let Some(dsts) = rec.call(lib, g, Op::Dsts, &[]).ok() else { return };
    let b = refimpl::Bls::draft(sig_grp(g));
    let pkp = Pt::from_bytes(&pk).unwrap();
    let skr = refimpl::scalar_from_be(&sk).unwrap();
    let frames: Vec<Vec<u8>> = vec![
        vec![],
        vec![0xff; 19],
        vec![0xff; 32],
        vec![0x80; 40],
        vec![0xff, 0xff, 0xff, 0xff, 0x0f, 1, 2, 3],
        vec![0x7f],
        vec![0x21, 1, 2],
        vec![0x80, 0x80, 0x80, 0x80, 0x80, 0x80, 0x80, 0x80, 0x80, 0x80, 0x80, 0x80, 0x80, 0x80, 0x80, 0x80, 0x80, 0x80, 0x01],
        vec![0xff, 0xff, 0xff, 0xff, 0xff, 0xff, 0xff, 0xff, 0xff, 0x01],
        vec![0x00],
        {
            let l = 1 + x.below(64) as usize;
            x.bytes(l)
        },
    ];
    // declared lengths around every width boundary of the length arithmetic (7-bit groups, 32/64/128-bit words):
    // base - 1, base, base + 1 always, three more drawn within +-24; followed by 0, 1 or 40 payload bytes
    let mut frames = frames;
    for sh in [7u32, 14, 21, 28, 31, 32, 35, 63, 64, 70, 127, 128] {
        let base: u128 = if sh == 128 { 0 } else { 1u128 << sh };
        let mut offs = vec![-1i128, 0, 1];
        for _ in 0..3 {
            offs.push(x.below(49) as i128 - 24);
        }
        for o in offs {
            let v = if o < 0 { base.wrapping_sub((-o) as u128) } else { base.wrapping_add(o as u128) };
            let mut f = refimpl::leb128(v);
            let tail = *x.pick(&[0usize, 1, 40]);
            f.extend(x.bytes(tail));
            frames.push(f);
        }
    }
    // 19-byte encodings whose last group carries bits beyond the 128th
    for last in [0x03u8, 0x04, 0x07, 0x7f, 0x02] {
        let mut f = vec![0xff; 18];
        f.push(last);
        let tail = *x.pick(&[0usize, 1, 40]);
            f.extend(x.bytes(tail));
        frames.push(f);
    }
    for scheme in 0u8..3 {
        for fr in &frames {
            rec.fault("byz-arbitrary-frame");
            rec.case(&[17, g as u64, scheme as u64, fr.len() as u64, fr.first().copied().unwrap_or(0) as u64, 1], true);
            // signcryption: U = rP, V = keystream xor frame (raw, not framed by the library), W = r·H(U||V): a VALID ciphertext
            let r = refimpl::keygen(&x.bytes(8));
            let u = b.pk_gen().mul(&r);
            let ks = refimpl::shake128(&pkp.mul(&r).to_bytes(), fr.len());
            let v = refimpl::xor(fr, &ks);
            let mut t = u.to_bytes();
            t.extend_from_slice(&v);
            let w = b.hash_msg(&t, &dsts[scheme as usize]).mul(&r);
            let ct = SignCryptFields { u: u.to_bytes(), v, w: w.to_bytes(), scheme }.build();
            rec.call(lib, g, Op::ScValid, &[&ct]);
            rec.call(lib, g, Op::ScDecrypt, &[&ct, &sk]);
            if let Some(k) = rec.call(lib, g, Op::ScDecKey, &[&sk, &ct]).first().map(|b| b.to_vec()) {
                rec.call(lib, g, Op::DkDecrypt, &[&k, &ct]);
            }
            rec.call(lib, g, Op::Exercise, &[&[Ty::SignCryptCiphertext as u8], &[Codec::Bytes as u8], &ct]);
            // time-lock: W = SHAKE(alpha) xor frame with a consistent V so that the frame is what gets parsed
            let alpha = refimpl::keygen(&x.bytes(8));
            let id = b"frame-id".to_vec();
            let idp = b.hash_msg(&id, &dsts[scheme as usize]);
            let rr = refimpl::keygen(&x.bytes(9));
            let k = refimpl::pair(&idp, &pkp.mul(&rr));
            let uu = b.pk_gen().mul(&rr);
            let hk = <sha2::Sha256 as sha2::Digest>::digest(k.to_bytes());
            let al = alpha.to_le_bytes();
            let vv = refimpl::xor(&al, &hk);
            let ww = refimpl::xor(fr, &refimpl::shake128(&al, fr.len()));
            let tct = TimeLockFields { u: uu.to_bytes(), v: vv, w: ww, scheme }.build();
            let sig = refimpl::layout::tagged(scheme, &idp.mul(&skr).to_bytes());
            rec.call(lib, g, Op::TlDecrypt, &[&tct, &sig]);
            rec.call(lib, g, Op::Exercise, &[&[Ty::TimeCryptCiphertext as u8], &[Codec::Bytes as u8], &tct]);
        }
    }
    // timestamp classes x timeout classes under skewed clocks
    let msg = b"ts".to_vec();
    for scheme in [0u8, 2] {
        let Some(sig) = rec.call(lib, g, Op::Sign, &[&sk, &[scheme], &msg]).first().map(|b| b.to_vec()) else { continue };
        let Some(p) = rec.call(lib, g, Op::PokTsGenerate, &[&msg, &sig]).first().map(|b| b.to_vec()) else { continue };
        let Some(mut f) = PokFields::parse(&p, g.sig_len()) else { continue };
        let now_ms = (kernel::seams::clock_ns().unwrap_or(0) / 1_000_000) as u64;
        for ts in [0u64, 1, now_ms.saturating_sub(1), now_ms, now_ms + 1, now_ms + 1000, 1 << 62, 1 << 63, u64::MAX - 1, u64::MAX, i64::MAX as u64 / 1000, u64::MAX / 1000, u64::MAX / 1_000_000, x.next()] {
            f.ts = Some(ts);
            let pb = f.build();
            for to in crate::sc_pok::TIMEOUTS {
                let targ: Vec<u8> = to.map(|v| v.to_le_bytes().to_vec()).unwrap_or_default();
                for skew_ms in [0i128, -5, 5, -3_600_000, 3_600_000] {
                    let base = kernel::seams::clock_ns();
                    kernel::seams::set_clock_ns(base.map(|b| b + skew_ms * 1_000_000));
                    rec.fault("clock-skew");
                    rec.case(&[17, g as u64, scheme as u64, (ts % 1000) as u64 ^ (ts >> 50), to.map(|v| v % 97).unwrap_or(98), 2], true);
                    rec.call(lib, g, Op::PokTsVerify, &[&pb, &pk, &msg, &targ]);
                    kernel::seams::set_clock_ns(base);
                }
            }
        }
    }
    // valid timestamp proofs with extreme timestamps (a key holder can make them), presented twice: without and then with a timeout
    for scheme in [0u8, 2] {
        let Some(sig) = rec.call(lib, g, Op::Sign, &[&sk, &[scheme], &msg]).first().map(|b| b.to_vec()) else { continue };
        let sgp = Pt::from_bytes(&sig[1..]).unwrap();
        for t in [0u64, 1, u64::MAX - 5, u64::MAX, 1 << 63, (1 << 63) - 1, u64::MAX / 2] {
            let xs = refimpl::keygen(&x.bytes(8));
            let u = b.hash_msg(&msg, &dsts[scheme as usize]).mul(&xs);
            let y = refimpl::pok_challenge_ts(&u, t);
            let (u, v) = refimpl::pok_make(&b, &msg, &dsts[scheme as usize], &sgp, &xs, &y);
            let proof = PokFields { tag: scheme, u: u.to_bytes(), v: v.to_bytes(), ts: Some(t) }.build();
            rec.fault("byz-extreme-timestamp");
            rec.case(&[17, g as u64, scheme as u64, t % 1009, 4], true);
            rec.call(lib, g, Op::PokTsVerify, &[&proof, &pk, &msg, &[]]);
            for to in crate::sc_pok::TIMEOUTS {
                let targ: Vec<u8> = to.map(|v| v.to_le_bytes().to_vec()).unwrap_or_default();
                rec.call(lib, g, Op::PokTsVerify, &[&proof, &pk, &msg, &targ]);
                rec.call(lib, g, Op::PokTsVerify, &[&proof, &pk, &msg, &targ]);
            }
        }
    }
    // back-to-back sequences of REJECTED ciphertexts whose payload lengths go up and down (no successful
    // operation in between): what reused scratch space or remembered streams must survive
    let lens = [32usize, 33, 0, 100, 31, 4096, 1, 64, 5000, 32, 200];
    for scheme in 0u8..3 {
        let Some(ct) = rec.call(lib, g, Op::SignCrypt, &[&pk, &[scheme], b"seq"]).first().map(|b| b.to_vec()) else { continue };
        let Some(f0) = SignCryptFields::parse(&ct, pl) else { continue };
        let Some(tl) = rec.call(lib, g, Op::TimeLock, &[&pk, &[scheme], b"seq", b"id"]).first().map(|b| b.to_vec()) else { continue };
        let Some(t0) = TimeLockFields::parse(&tl, pl) else { continue };
        let wrong_sig = rec.call(lib, g, Op::Sign, &[&sk, &[scheme], b"another id"]).first().map(|b| b.to_vec()).unwrap_or_default();
        let mut s32 = [0u8; 32];
        x.fill(&mut s32);
        let shares = rec.call(lib, g, Op::Split, &[&sk, &u64b(2), &u64b(3), &s32]).ok().unwrap_or_default();
        for l in lens {
            rec.fault("byz-rejected-sequence");
            rec.case(&[17, g as u64, scheme as u64, l as u64, 5], true);
            let forged = SignCryptFields { u: f0.u.clone(), v: x.bytes(l), w: f0.w.clone(), scheme }.build();
            rec.call(lib, g, Op::ScDecrypt, &[&forged, &sk]);
            if let Some(k) = rec.call(lib, g, Op::ScDecKey, &[&sk, &forged]).first().map(|b| b.to_vec()) {
                rec.call(lib, g, Op::DkDecrypt, &[&k, &forged]);
            }
            let ds: Vec<Vec<u8>> = shares.iter().filter_map(|s| rec.call(lib, g, Op::ScShare, &[&forged, s]).first().map(|b| b.to_vec())).collect();
            let mut a: Vec<&[u8]> = vec![&forged];
            a.extend(ds.iter().map(|d| d.as_slice()));
            rec.call(lib, g, Op::ScDecryptShares, &a);
            let forged_tl = TimeLockFields { u: t0.u.clone(), v: t0.v.clone(), w: x.bytes(l), scheme }.build();
            rec.call(lib, g, Op::TlDecrypt, &[&forged_tl, &wrong_sig]);
        }
    }
    rec.sample(|| format!("g={} {} attacker-chosen frames x 3 schemes inside valid signcryption/time-lock envelopes; 14 timestamps x 9 timeouts x 5 clock skews", g.name(), frames.len()));
}

/// the branch-free zero test: all 256 byte-OR values, through every byte importer of scalars
fn run_hostile_scalars(plan: &Plan, lib: &dyn Lib, rec: &mut Rec) {
    let g = grp_of(plan.get("g"));
    for v in 0u16..256 {
        let v = v as u8;
        for pos in [31usize, 16, 1] {
            let mut b = [0u8; 32];
            b[pos] = v;
            rec.case(&[17, g as u64, v as u64, pos as u64, 3], true);
            rec.call(lib, g, Op::SkFromBe, &[&b]);
            rec.call(lib, g, Op::SkFromLe, &[&b]);
            for ty in [Ty::SecretKey, Ty::ProofCommitmentSecret, Ty::ProofCommitmentChallenge] {
                rec.call(lib, g, Op::Exercise, &[&[ty as u8], &[Codec::Bytes as u8], &b]);
                rec.call(lib, g, Op::Exercise, &[&[ty as u8], &[Codec::Le as u8], &b]);
            }
            let mut e = vec![if g == Grp::G1 { 1u8 } else { 2 }];
            e.extend_from_slice(&b);
            rec.call(lib, g, Op::EnumFromBe, &[&e]);
            rec.call(lib, g, Op::EnumFromLe, &[&e]);
        }
        // two bytes whose OR is v
        let mut b = [0u8; 32];
        b[30] = v & 0xf0;
        b[31] = v & 0x0f;
        rec.call(lib, g, Op::SkFromBe, &[&b]);
    }
    for s in [&[0u8][..], &[1], &[3], &[255], b"Basic", b"MessageAugmentation", b"ProofOfPossession", b"", b"basic", b"\xff\xfe"] {
        rec.call(lib, g, Op::SchemeFrom, &[s]);
    }
    rec.sample(|| format!("g={} all 256 byte-OR values of the zero test at 3 positions through 5 importers", g.name()));
}
