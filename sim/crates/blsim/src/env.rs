//! The flavours available to a run, and small byte helpers shared by the scenarios.
use simtypes::{Codec, Grp, Lib, Op, Out, Ty};

pub struct Env {
    /// /repo working tree, feature blst — the system under test
    pub cur: &'static dyn Lib,
    /// /repo working tree, feature rust (absent if that configuration does not compile)
    pub rust: Option<&'static dyn Lib>,
    /// vendored pinned release (C18 only)
    pub pinned: &'static dyn Lib,
    pub profile: &'static str,
}

pub fn env() -> Env {
    Env {
        cur: &flav_blst::LIB,
        #[cfg(feature = "rust-flavour")]
        rust: Some(&flav_rust::LIB),
        #[cfg(not(feature = "rust-flavour"))]
        rust: None,
        pinned: &flav_pinned::LIB,
        profile: if cfg!(debug_assertions) { "checked" } else { "release" },
    }
}

pub fn u64b(v: u64) -> [u8; 8] {
    v.to_le_bytes()
}
pub fn grp_of(i: i64) -> Grp {
    if i & 1 == 0 {
        Grp::G1
    } else {
        Grp::G2
    }
}
pub fn sig_grp(g: Grp) -> refimpl::SigGrp {
    match g {
        Grp::G1 => refimpl::SigGrp::G1,
        Grp::G2 => refimpl::SigGrp::G2,
    }
}
pub fn scheme_name(s: u8) -> &'static str {
    match s {
        0 => "Basic",
        1 => "MessageAugmentation",
        _ => "ProofOfPossession",
    }
}
pub fn short(b: &[u8]) -> String {
    let h = kernel::plan::hex(&b[..b.len().min(12)]);
    if b.len() > 12 {
        format!("{}..({}B)", h, b.len())
    } else {
        h
    }
}

/// recode helper: decode `bytes` in `ci` and re-encode in `co` through the library
pub fn recode(rec: &mut kernel::rec::Rec, lib: &dyn Lib, g: Grp, ty: Ty, ci: Codec, co: Codec, bytes: &[u8]) -> Out {
    rec.call(lib, g, Op::Recode, &[&[ty as u8], &[ci as u8], &[co as u8], bytes])
}

/// The message-length classes of the shared grid (DESIGN §4).
/// (the tail: SHA-256 block/padding boundaries 55/56/63/64/65/119/120 — also reached with a 48- or 96-byte key
/// prefix through 7/8/15/16/17/23/24 — and the SHAKE-128 rate 168)
pub const LEN_CLASSES: [usize; 38] = [0, 1, 31, 32, 33, 127, 128, 129, 255, 256, 257, 4096, 16382, 16383, 16384, 65536, 40, 100, 55, 56, 63, 64, 65, 119, 120, 167, 168, 169, 7, 8, 15, 16, 17, 23, 24, 336, 65535, 65537];

/// Composite boundaries: lengths at which something the library puts in FRONT of the message (a 48- or 96-byte
/// public key in the augmentation scheme, a 1-3 byte length prefix in the encryption framings) makes the total
/// land on, just below or just above a power of two, a hash block multiple or a XOF rate multiple.
pub const COMPOSITE_BASE: usize = 1000;
pub fn composite_lens() -> &'static [usize] {
    static L: std::sync::OnceLock<Vec<usize>> = std::sync::OnceLock::new();
    L.get_or_init(|| {
        let mut v = vec![];
        for b in [32usize, 64, 128, 136, 168, 256, 272, 336, 512, 1024, 2048, 4096, 8192, 16384, 32768, 65536] {
            for pre in [48usize, 96, 1, 2, 3] {
                for d in [0isize, -1, 1] {
                    let l = b as isize - pre as isize + d;
                    if l >= 0 && !LEN_CLASSES.contains(&(l as usize)) {
                        v.push(l as usize);
                    }
                }
            }
        }
        v.sort();
        v.dedup();
        v
    })
}
/// very long messages for the signing paths ("arbitrarily long"): around 1, 2, 4 MiB and a few odd sizes
pub const BIG_BASE: usize = 2000;
pub const BIG_SIGN_LENS: [usize; 12] = [(1 << 20) - 1, 1 << 20, (1 << 20) + 1, (1 << 21) - 1, 1 << 21, (1 << 21) + 7, 1 << 22, (1 << 22) + 1, 172_032, 3 * (1 << 20) + 5, 1_000_003, (1 << 20) - 96];
pub fn len_of_class(class: usize) -> Option<usize> {
    if class >= BIG_BASE && class - BIG_BASE < BIG_SIGN_LENS.len() {
        return Some(BIG_SIGN_LENS[class - BIG_BASE]);
    }
    if class < LEN_CLASSES.len() {
        Some(LEN_CLASSES[class])
    } else if class >= COMPOSITE_BASE && class - COMPOSITE_BASE < composite_lens().len() {
        Some(composite_lens()[class - COMPOSITE_BASE])
    } else {
        None
    }
}

pub fn message(x: &mut kernel::seams::Xo, class: usize) -> Vec<u8> {
    let len = len_of_class(class).unwrap_or_else(|| x.below(300) as usize);
    match x.below(4) {
        0 => vec![0u8; len],
        1 => vec![0xffu8; len],
        _ => x.bytes(len),
    }
}
/// small lengths mostly, with the boundary classes sprinkled in
pub fn pick_len_class(x: &mut kernel::seams::Xo, allow_huge: bool) -> usize {
    loop {
        let c = if x.chance(1, 3) {
            99
        } else if x.chance(1, 5) {
            COMPOSITE_BASE + x.below(composite_lens().len() as u64) as usize
        } else {
            x.below(LEN_CLASSES.len() as u64) as usize
        };
        if len_of_class(c).is_some_and(|l| l > 4200) && !(allow_huge && x.chance(1, 6)) {
            continue;
        }
        return c;
    }
}

/// Key classes: 1, 2, r-2, r-1, from_hash(seed), seeded random. Returns the 32-byte BE key.
/// Limb-pattern keys: each of the four 64-bit words of the scalar is one of six values — zero, one, one byte
/// 0x80 at either end of the word, all ones, a lone top byte — (6^4 = 1296 keys; words that would make the
/// value >= r are masked, the all-zero pattern becomes 1). Word-wise arithmetic over the key bytes (carry
/// chains, word sums, branch-free zero tests) meets its corner cases here, not under uniform sampling.
pub const LIMB_KEY_BASE: u64 = 100;
pub const LIMB_KEYS: u64 = 1296;
pub fn limb_key(i: u64) -> Vec<u8> {
    const W: [u64; 6] = [0, 1, 0x80, 1 << 63, u64::MAX, 1 << 56];
    let mut l = [W[(i % 6) as usize], W[(i / 6 % 6) as usize], W[(i / 36 % 6) as usize], W[(i / 216 % 6) as usize]];
    // r's top word is 0x73eda753299d7d48: keep the top word below it
    if l[3] >= 0x73ed_a753_299d_7d48 {
        l[3] &= 0x3fff_ffff_ffff_ffff;
    }
    if l == [0, 0, 0, 0] {
        l[0] = 1;
    }
    let mut be = Vec::with_capacity(32);
    for w in l.iter().rev() {
        be.extend_from_slice(&w.to_be_bytes());
    }
    be
}

/// Pairs of different 8-byte messages that collide under a cheap UNKEYED 64-bit fingerprint a maintainer might reach
/// for to avoid copying messages into a table: std's `DefaultHasher::new()` (zero-key SipHash-1-3) fed with
/// `hasher.write(msg)` ("sip-write") or with `<[u8] as Hash>::hash(msg)` ("sip-hash": length prefix first). Found by a
/// birthday search over 2^33 messages (tools/sipcollide). Such pairs look like any other messages to correct code.
/// Only the pairs that still collide under the running toolchain's std are handed out (the algorithm behind
/// `DefaultHasher` is not a stability promise), so a toolchain change can only thin the corpus, never raise an alarm.
pub const FP_COLLISIONS: [(&str, [u8; 8], [u8; 8]); 5] = [
    ("sip-write", [0x97, 0xc3, 0xde, 0xfb, 0x00, 0x00, 0x00, 0xa5], [0x4e, 0x38, 0x85, 0xee, 0x01, 0x00, 0x00, 0xa5]),
    ("sip-write", [0x02, 0x08, 0x7e, 0x7e, 0x00, 0x00, 0x00, 0xa5], [0x0e, 0xaa, 0x49, 0x69, 0x01, 0x00, 0x00, 0xa5]),
    ("sip-hash", [0xce, 0xca, 0xb3, 0xa5, 0x00, 0x00, 0x00, 0xa5], [0xa5, 0x78, 0x95, 0xd7, 0x01, 0x00, 0x00, 0xa5]),
    ("sip-hash", [0x09, 0x47, 0xd8, 0x2c, 0x00, 0x00, 0x00, 0xa5], [0xa0, 0x0e, 0xf9, 0xd7, 0x01, 0x00, 0x00, 0xa5]),
    ("sip-hash", [0xd5, 0x09, 0xb5, 0xa5, 0x01, 0x00, 0x00, 0xa5], [0xe2, 0xa4, 0xcb, 0xf2, 0x01, 0x00, 0x00, 0xa5]),
];
pub fn fp_collision_pairs() -> Vec<(&'static str, Vec<u8>, Vec<u8>)> {
    use std::hash::{Hash, Hasher};
    let fp = |kind: &str, m: &[u8]| -> u64 {
        let mut h = std::collections::hash_map::DefaultHasher::new();
        if kind == "sip-write" {
            h.write(m);
        } else {
            m.hash(&mut h);
        }
        h.finish()
    };
    FP_COLLISIONS.iter().filter(|(k, a, b)| a != b && fp(k, a) == fp(k, b)).map(|(k, a, b)| (*k, a.to_vec(), b.to_vec())).collect()
}

/// Scalars k for which k*G1 / k*G2 (generators) has a compressed encoding whose coordinate begins with an EXTREME
/// 32-bit word: the field modulus' own leading word 0x1a0111ea ("max": the coordinate is within 2^-32 of p) or
/// zero ("min": the coordinate is below 2^349). About one point in 2^31 is of either kind; these were found once
/// by an exhaustive walk over k = 1 .. 6.4e9 (G1) / 2.4e9 (G2) with a stand-alone tool (/verif/tools/edgepts) and are
/// re-verified at start-up by `edge_scalars_selfcheck`. Word-wise range checks on point encodings meet their
/// boundary here and nowhere that uniform sampling reaches.
pub const EDGE_SCALARS_G1: [(u64, bool); 9] = [
    (4031123246, true),
    (51858613, true),
    (1794600982, true),
    (556030, false),
    (5654006264, false),
    (1698185614, false),
    (6199176355, false),
    (2606223813, false),
    (3415688923, false),
];
pub const EDGE_SCALARS_G2: [(u64, bool); 6] = [
    (1875757969, true),  // second half (c0) begins with the modulus word
    (2342951145, true),  // first half (c1) begins with the modulus word
    (1595847491, false), // c0 begins with a zero word
    (1186592499, false), // c0
    (2129562560, false), // c1
    (968194929, false),  // c1
];
/// the edge scalars whose multiple of the generator of the group with `point_len`-byte encodings is extreme
pub fn edge_scalars(point_len: usize) -> Vec<u64> {
    if point_len == 48 {
        EDGE_SCALARS_G1.iter().map(|e| e.0).collect()
    } else {
        EDGE_SCALARS_G2.iter().map(|e| e.0).collect()
    }
}
/// k * generator of the group with `point_len`-byte encodings, compressed
pub fn edge_point(point_len: usize, k: u64) -> Vec<u8> {
    let g = if point_len == 48 { refimpl::Pt::gen1() } else { refimpl::Pt::gen2() };
    g.mul(&refimpl::scalar_from_u64(k)).to_bytes()
}
pub fn edge_scalars_selfcheck() -> Result<(), String> {
    let word = |b: &[u8]| u32::from_be_bytes([b[0] & 0x1f, b[1], b[2], b[3]]);
    for (len, table) in [(48usize, EDGE_SCALARS_G1.to_vec()), (96, EDGE_SCALARS_G2.to_vec())] {
        for (k, max) in table {
            let e = edge_point(len, k);
            let want = if max { 0x1a0111ea } else { 0 };
            if !(word(&e[0..4]) == want || (len == 96 && word(&e[48..52]) == want)) {
                return Err(format!("edge scalar {} (len {}) does not have the recorded encoding property", k, len));
            }
        }
    }
    Ok(())
}

pub fn key_of_class(rec: &mut kernel::rec::Rec, lib: &dyn Lib, g: Grp, class: u64, salt: u64) -> Vec<u8> {
    if class >= LIMB_KEY_BASE + LIMB_KEYS {
        // edge-encoding keys: both tables, whichever group the public key lives in
        let all: Vec<u64> = EDGE_SCALARS_G1.iter().chain(EDGE_SCALARS_G2.iter()).map(|e| e.0).collect();
        return refimpl::scalar_to_be(&refimpl::scalar_from_u64(all[((class - LIMB_KEY_BASE - LIMB_KEYS) as usize) % all.len()]));
    }
    if class >= LIMB_KEY_BASE {
        return limb_key(class - LIMB_KEY_BASE);
    }
    match class % 6 {
        0 => refimpl::scalar_to_be(&refimpl::scalar_from_u64(1)),
        1 => refimpl::scalar_to_be(&refimpl::scalar_from_u64(2)),
        2 => refimpl::scalar_to_be(&refimpl::scalar_neg_u64(2)),
        3 => refimpl::scalar_to_be(&refimpl::scalar_neg_u64(1)),
        4 => {
            let seed = format!("key-seed-{}", salt);
            rec.call(lib, g, Op::KeyFromHash, &[seed.as_bytes()]).first().map(|b| b.to_vec()).unwrap_or_default()
        }
        _ => {
            let mut s = [0u8; 32];
            kernel::seams::Xo::new(salt ^ 0x5EED_4B1D).fill(&mut s);
            rec.call(lib, g, Op::KeyRandomSeeded, &[&s]).first().map(|b| b.to_vec()).unwrap_or_default()
        }
    }
}

#[cfg(test)]
mod tests {
    #[test]
    fn composite_count() {
        assert_eq!(super::composite_lens().len(), 141);
    }
}
