//! SIGNCRYPT-TAMPER (C11), THRESH-DECRYPT (C12), TIMELOCK-BEACON (C13), ELGAMAL-TALLY (C14):
//! encryptors, recipients, key-share holders, a beacon and a tally exchanging ciphertexts,
//! decryption shares and round signatures over the fault-injecting transport and disks.

use crate::courier::{install_faults, Courier};
use crate::driver::{Scenario, Tier};
use crate::env::*;
use crate::sc_sign::{own_tags, party, STD_CODECS};
use crate::sc_thresh::deal;
use kernel::plan::{Plan, Step};
use kernel::rec::Rec;
use kernel::seams::Xo;
use kernel::sim::{NetAction, MS};
use refimpl::layout::{ElGamalFields, SignCryptFields, TimeLockFields};
use refimpl::{Bls, Pt};
use simtypes::{Codec, Grp, Lib, Op, Out, Ty};
use std::collections::BTreeMap;

pub struct CryptSc;
pub static CRYPT: CryptSc = CryptSc;

const K_CT: u32 = 30;
const K_DSHARE: u32 = 31;
const K_SIGSHARE: u32 = 32;
const K_BALLOT: u32 = 33;

/// message lengths the encryption properties name: 0..40, 100..140, the LEB128 boundaries, up to 64 KiB
pub fn enc_len(x: &mut Xo, index: u64, allow_huge: bool) -> usize {
    let special = [16382usize, 16383, 16384, 16385, 127, 128, 129, 255, 256, 4096, 65536, 158, 190, 1022, 55, 56, 63, 64, 65, 166, 167, 168, 169, 335, 336, 337, 119, 120, 8192, 8191];
    match index % 7 {
        0 | 1 | 2 => (index / 7 % 41) as usize,
        3 | 4 => 100 + (index / 7 % 41) as usize,
        5 => {
            let v = special[(index / 7) as usize % special.len()];
            if v > 20000 && !allow_huge {
                16384
            } else {
                v
            }
        }
        _ => x.below(300) as usize,
    }
}

/// Large payloads whose FRAMED size (varint length prefix + message) sits on, just below or just above a power of
/// two from 64 KiB to 4 MiB or a 1024..16384-fold multiple of a XOF rate (168 / 136 bytes): where chunked key
/// streams, multi-byte length prefixes (3 -> 4 bytes at 2 MiB) and buffer doubling change behaviour.
pub fn big_lens() -> &'static [usize] {
    static L: std::sync::OnceLock<Vec<usize>> = std::sync::OnceLock::new();
    L.get_or_init(|| {
        // ... and 8, 16, 32 MiB (the four-byte length prefix runs from 2 MiB to 256 MiB - 1)
        let mut bases: Vec<usize> = (16..=25).map(|j| 1usize << j).collect();
        for j in 7..=14 {
            bases.push(168 << j);
            bases.push(136 << j);
        }
        // decimal block sizes (a chunk of 100 kB, 1 MB, 2 MB, 5 MB, 10 MB)
        bases.extend([100_000usize, 1_000_000, 2_000_000, 3_000_000, 5_000_000, 10_000_000]);
        let mut v = vec![];
        for b in bases {
            for pre in [0usize, 3, 4] {
                for d in [0isize, -1, 1] {
                    v.push((b as isize - pre as isize + d) as usize);
                }
            }
        }
        v.sort();
        v.dedup();
        v
    })
}

impl Scenario for CryptSc {
    fn name(&self) -> &'static str {
        "crypt"
    }
    fn cfg_floor(&self) -> BTreeMap<String, i64> {
        let mut m = BTreeMap::new();
        m.insert("len".into(), 0);
        m.insert("voters".into(), 1);
        m
    }
    fn gen(&self, property: &str, class: &str, seed: u64, index: u64, tier: Tier) -> Plan {
        let mut x = Xo::derive(seed, &[0xC27]);
        let mut p = Plan { scenario: "crypt".into(), property: property.into(), seed, class: class.into(), ..Default::default() };
        p.set("g", (index % 2) as i64);
        p.set("scheme", ((index / 2) % 3) as i64);
        p.set("key_class", x.below(6) as i64);
        p.set("len", enc_len(&mut x, index / 6, tier == Tier::Thorough) as i64);
        p.set("codec", x.below(STD_CODECS.len() as u64) as i64);
        let n = x.range(2, 6) as i64;
        p.set("n", n);
        p.set("t", x.range(2, n as u64) as i64);
        p.steps.push(Step::new(class, &[index as i64]));
        if class.ends_with("-huge") {
            // payloads of 64, 128 (thorough: 256, 384, 512) MiB: where a size limit, a five-byte length prefix or a 32-bit length would
            // sit; one run each, plain byte codec, no faults (the runs take seconds and gigabytes)
            const HUGE: [usize; 13] = [(1 << 26) - 3, 1 << 27, 1 << 26, (1 << 27) + 1, (1 << 26) - 4, (1 << 27) - 4, (1 << 26) + 1, (1 << 28) - 5, 1 << 28, (1 << 28) + 1, (1 << 29) - 2, 1 << 29, (3 << 27) + 7];
            p.set("len", HUGE[(index as usize) % HUGE.len()] as i64);
            p.set("g", ((index / 2) % 2) as i64);
            p.set("scheme", (index % 3) as i64);
            p.set("codec", 0);
            p.set("n", 3);
            p.set("t", 2);
            p.set("rounds", 1);
            return p;
        }
        let big = class.ends_with("-big");
        if big {
            // every large framed-size boundary; group, scheme and the threshold flag rotate
            let l = big_lens();
            p.set("len", l[(index % l.len() as u64) as usize] as i64);
            p.set("g", ((index / l.len() as u64 + index) % 2) as i64);
            p.set("scheme", ((index / 2) % 3) as i64);
        }
        // "td-extremes" / "eg-extremes": the procedure of td-protocol / eg-tally with n = 255 and every t in 2..=40
        let extremes = class.ends_with("-extremes");
        let base_class = match class {
            "td-extremes" => "td-protocol",
            "eg-extremes" => "eg-tally",
            c => c.trim_end_matches("-big").trim_end_matches("-huge"),
        };
        match base_class {
            "sc-roundtrip" => {
                if x.chance(1, 2) {
                    let at = x.range(1, 30) as i64;
                    p.faults.push(Step::new("crash", &[1, at, x.below(3) as i64]));
                    p.faults.push(Step::new("restart", &[1, at + x.range(5, 100) as i64]));
                }
                if x.chance(1, 3) {
                    p.faults.push(Step::new("dup", &[K_CT as i64, 0]));
                }
            }
            "sc-tamper" => {
                p.faults.push(Step::new("perturb", &[x.below(27) as i64, x.below(1 << 24) as i64]));
            }
            "tl-tamper" => {
                p.faults.push(Step::new("perturb", &[x.below(20) as i64, x.below(1 << 24) as i64]));
            }
            "sc-bitflip-all" | "tl-bitflip-all" => {
                p.set("len", *x.pick(&[0i64, 1, 5, 29, 30, 31, 32, 33, 40]));
            }
            "td-subsets" => {
                let mut combos = vec![];
                for g in 0..2 {
                    for s in 0..3 {
                        for n in 2..=5 {
                            for t in 2..=n {
                                combos.push((g, s, t, n));
                            }
                        }
                    }
                }
                let (g, s, t, n) = combos[(index as usize) % combos.len()];
                p.set("g", g);
                p.set("scheme", s);
                p.set("t", t);
                p.set("n", n);
            }
            "td-protocol" | "tl-beacon" => {
                if class == "td-protocol" && x.chance(1, 12) {
                    // occasionally a large committee: identifiers up to 255 (0x7f / 0x80 / 0xff boundaries)
                    p.set("n", *x.pick(&[128i64, 129, 200, 255, 255, 240]));
                    p.set("t", *x.pick(&[2i64, 3, 4, 8, 9, 9, 10]));
                }
                let nf = x.below(4);
                let kind = if class == "td-protocol" { K_DSHARE } else { K_SIGSHARE };
                for _ in 0..nf {
                    match x.below(4) {
                        0 => p.faults.push(Step::new("drop", &[kind as i64, x.below(n as u64) as i64])),
                        1 => p.faults.push(Step::new("dup", &[kind as i64, x.below(n as u64) as i64])),
                        2 => p.faults.push(Step::new("delay", &[kind as i64, x.below(n as u64) as i64, x.range(20, 400) as i64])),
                        _ => p.faults.push(Step::new("latedup", &[kind as i64, x.below(n as u64) as i64, x.range(50, 900) as i64])),
                    }
                }
                p.set("rounds", x.range(1, 3) as i64);
                p.set("id_kind", x.below(4) as i64);
            }
            "eg-tally" => {
                p.set("voters", x.range(1, 16) as i64);
                if x.chance(1, 12) {
                    // a large committee holds the tally key: identifiers up to 255
                    p.set("n", *x.pick(&[255i64, 255, 128, 200]));
                    p.set("t", *x.pick(&[2i64, 3, 4, 9]));
                }
                let nf = x.below(4);
                for _ in 0..nf {
                    match x.below(3) {
                        0 => p.faults.push(Step::new("drop", &[K_BALLOT as i64, x.below(8) as i64])),
                        1 => p.faults.push(Step::new("dup", &[K_BALLOT as i64, x.below(8) as i64])),
                        _ => p.faults.push(Step::new("delay", &[K_BALLOT as i64, x.below(8) as i64, x.range(20, 400) as i64])),
                    }
                }
            }
            "eg-proof-tamper" => {
                p.faults.push(Step::new("perturb", &[x.below(16) as i64, x.below(1 << 24) as i64]));
            }
            _ => {}
        }
        if extremes {
            p.set("g", (index % 2) as i64);
            // every t in 2..=40, then thresholds around the 64 / 128 / 255 marks (fixed-size tables, batch sizes, u8 limits)
            const HIGH_T: [i64; 13] = [41, 63, 64, 65, 66, 100, 127, 128, 129, 200, 253, 254, 255];
            let ti = (index / 2) % 52;
            p.set("t", if ti < 39 { 2 + ti as i64 } else { HIGH_T[(ti - 39) as usize] });
            let n_ext: i64 = if (index / 104) % 2 == 0 { 255 } else { 254 };
            p.set("n", n_ext);
            p.set("t", p.get("t").min(n_ext));
            p.set("scheme", ((index / 2) % 3) as i64);
        }
        p
    }
    fn run(&self, plan: &Plan, env: &Env, rec: &mut Rec) {
        let lib = env.cur;
        // payloads of 64..256 MiB: one such run at a time in the process (a run holds several copies of its payload)
        static HUGE: std::sync::Mutex<()> = std::sync::Mutex::new(());
        let _one_at_a_time = if plan.class.ends_with("-huge") { Some(HUGE.lock().unwrap_or_else(|e| e.into_inner())) } else { None };
        let base_class = match plan.class.as_str() {
            "td-extremes" => "td-protocol",
            "eg-extremes" => "eg-tally",
            c => c.trim_end_matches("-big").trim_end_matches("-huge"),
        };
        match base_class {
            "sc-roundtrip" => sc_roundtrip(plan, lib, rec),
            "sc-tamper" => sc_tamper(plan, lib, rec, false),
            "sc-bitflip-all" => sc_tamper(plan, lib, rec, true),
            "td-subsets" | "td-protocol" => thresh_decrypt(plan, lib, rec),
            "tl-beacon" => tl_beacon(plan, lib, rec),
            "tl-tamper" => tl_tamper(plan, lib, rec, false),
            "tl-bitflip-all" => tl_tamper(plan, lib, rec, true),
            "eg-tally" => eg_tally(plan, lib, rec),
            "eg-proof-tamper" => eg_proof_tamper(plan, lib, rec),
            "eg-transcripts" => eg_transcripts(plan, lib, rec),
            _ => {}
        }
    }
}

fn msg_of(plan: &Plan, x: &mut Xo) -> Vec<u8> {
    let len = plan.get("len").max(0) as usize;
    match x.below(4) {
        0 => vec![0u8; len],
        1 => vec![0xffu8; len],
        _ => x.bytes(len),
    }
}
fn norm_scheme(b: u8) -> u8 {
    b.min(2)
}

// ------------------------------------------------------------------------------------------
// C11
// ------------------------------------------------------------------------------------------
fn sc_roundtrip(plan: &Plan, lib: &dyn Lib, rec: &mut Rec) {
    let g = grp_of(plan.get("g"));
    let scheme = plan.get("scheme") as u8;
    let mut x = Xo::derive(plan.seed, &[0xC28]);
    let Some(a) = party(rec, lib, g, plan.get("key_class") as u64, plan.seed) else { return };
    let Some(b) = party(rec, lib, g, 5, plan.seed ^ 0xABCD) else { return };
    let msg = msg_of(plan, &mut x);
    let codec = STD_CODECS[plan.get("codec") as usize % STD_CODECS.len()];
    let (enc, recip, other) = (0usize, 1usize, 2usize);
    let mut c = Courier::new(plan.seed, 3);
    install_faults(&mut c, &plan.faults);
    let ct = c.at(enc, || rec.call(lib, g, Op::SignCrypt, &[&a.pk, &[scheme], &msg]));
    let Some(ct) = ct.first().map(|v| v.to_vec()) else {
        rec.expect("C11", "seal-succeeds", false, || format!("seal scheme={} len={} | {:?}", scheme_name(scheme), msg.len(), ct));
        return;
    };
    let wire = match recode(rec, lib, g, Ty::SignCryptCiphertext, Codec::Bytes, codec, &ct) {
        Out::Ok(v) => v[0].clone(),
        o => {
            rec.expect("C11", "ciphertext-survives-encoding", false, || format!("encode {} | {:?}", codec.name(), o));
            return;
        }
    };
    rec.case(&[11, g as u64, scheme as u64, msg.len() as u64, codec as u64, plan.faults.len() as u64], !plan.faults.is_empty());
    let lenk = format!("len={}", msg.len());
    for arrived in c.ship(enc, recip, K_CT, 0, vec![wire.clone()]) {
        if !c.up(recip) {
            continue;
        }
        // the recipient stores the ciphertext, may crash, and works from the durable copy
        c.sim.nodes[recip].disk.write("ct", &arrived.parts[0]);
        c.sim.nodes[recip].disk.sync();
        c.pass(150 * MS);
        if !c.up(recip) {
            rec.probe("recipient-down");
            continue;
        }
        let stored = c.sim.nodes[recip].disk.read("ct").unwrap_or_default();
        let Some(ctb) = recode(rec, lib, g, Ty::SignCryptCiphertext, codec, Codec::Bytes, &stored).first().map(|v| v.to_vec()) else {
            rec.expect("C11", "ciphertext-survives-encoding", false, || format!("decode {} {} | stored ciphertext cannot be decoded", codec.name(), lenk));
            continue;
        };
        rec.expect("C11", "ciphertext-survives-encoding", ctb == ct, || format!("recode {} {} | ciphertext changed by the {} round trip", codec.name(), lenk, codec.name()));
        let v = c.at(recip, || rec.call(lib, g, Op::ScValid, &[&ctb]));
        rec.expect("C11", "honest-ciphertext-valid", v.flag() == Some(true), || format!("valid scheme={} g={} {} | honest ciphertext reports invalid: {:?}", scheme_name(scheme), g.name(), lenk, v));
        let d = c.at(recip, || rec.call(lib, g, Op::ScDecrypt, &[&ctb, &a.sk]));
        rec.expect("C11", "roundtrip-exact", d.opt_value() == Some(Some(msg.as_slice())), || {
            format!("decrypt scheme={} g={} {} | decrypt under the matching key did not return the message: {}", scheme_name(scheme), g.name(), lenk, describe(&d))
        });
        let dk = c.at(recip, || rec.call(lib, g, Op::ScDecKey, &[&a.sk, &ctb]));
        if let Some(dk) = dk.first() {
            let d2 = rec.call(lib, g, Op::DkDecrypt, &[dk, &ctb]);
            rec.expect("C11", "roundtrip-exact", d2.opt_value() == Some(Some(msg.as_slice())), || format!("decryption-key scheme={} g={} {} | SignCryptDecryptionKey::decrypt did not return the message: {}", scheme_name(scheme), g.name(), lenk, describe(&d2)));
        }
        // a different recipient never gets the original
        let w = c.at(other, || rec.call(lib, g, Op::ScDecrypt, &[&ctb, &b.sk]));
        let leaked = w.opt_value() == Some(Some(msg.as_slice())) && msg.len() >= 4;
        rec.expect("C11", "wrong-key-never-original", !leaked, || format!("wrong-key scheme={} g={} {} | decryption under another key returned the original message", scheme_name(scheme), g.name(), lenk));
    }
    // a caller's message value that does not show the same bytes twice (a window over a buffer another component appends to
    // or compacts): whatever is sealed is ONE of the views, whole — valid, and opened to exactly that view
    if msg.len() <= 70000 {
        let mut other_view = msg.clone();
        match plan.seed % 3 {
            0 => other_view.extend_from_slice(b";owner=mallory"),
            1 => { other_view.truncate(msg.len() / 2); }
            _ => { other_view.iter_mut().for_each(|b| *b = b.wrapping_add(1)); other_view.push(7); }
        }
        for which in [0u8, 3] {
            for (v1, v2) in [(&msg, &other_view), (&other_view, &msg)] {
                let o = rec.call(lib, g, Op::FickleMessage, &[&[which], &a.pk, &[scheme], v1, v2]);
                rec.fault("caller-message-changes-between-reads");
                let Some(fct) = o.first() else { continue };
                let valid = rec.call(lib, g, Op::ScValid, &[fct]);
                let opened = rec.call(lib, g, Op::ScDecrypt, &[fct, &a.sk]);
                let got = opened.opt_value();
                let fine = valid.flag() == Some(true) && (got == Some(Some(v1.as_slice())) || got == Some(Some(v2.as_slice())));
                rec.expect("C11", "roundtrip-exact", fine, || format!("fickle-message route={} scheme={} g={} views of {} and {} bytes | the sealed ciphertext is valid={:?} and opens to {} — neither view", which, scheme_name(scheme), g.name(), v1.len(), v2.len(), valid.flag(), describe(&opened)));
            }
        }
    }
    rec.sample(|| format!("scheme={} g={} len={} codec={} faults={}", scheme_name(scheme), g.name(), msg.len(), codec.name(), plan.faults.len()));
    c.finish(rec);
}

pub fn describe(o: &Out) -> String {
    match o {
        Out::Ok(v) if v.len() > 1 => format!("Some({}B)", v[1].len()),
        Out::Ok(_) => "None".into(),
        Out::Rej(s) => format!("Err({})", s),
        Out::Panic(s) => format!("ABORT({})", s),
    }
}

/// expectation for a (possibly altered) signcryption ciphertext in Bytes form
fn sc_expect(rec: &mut Rec, lib: &dyn Lib, g: Grp, orig: &SignCryptFields, msg: &[u8], sk: &[u8], bytes: &[u8], label: &str, scheme: u8) {
    let pl = g.pk_len();
    let parsed = SignCryptFields::parse(bytes, pl);
    let same_value = parsed.as_ref().map(|f| {
        Pt::from_bytes(&f.u).is_some() && Pt::from_bytes(&f.u) == Pt::from_bytes(&orig.u) && f.v == orig.v && Pt::from_bytes(&f.w).is_some() && Pt::from_bytes(&f.w) == Pt::from_bytes(&orig.w) && norm_scheme(f.scheme) == norm_scheme(orig.scheme)
    }) == Some(true);
    // the order in which a recipient asks "is it valid?" and "decrypt" is drawn per ciphertext (from its bytes):
    // a party may well open what it received without asking for validity first
    let order = bytes.iter().fold(0u8, |a, b| a ^ b) & 1;
    let mut v = Out::Rej(String::new());
    if order == 0 {
        v = rec.call(lib, g, Op::ScValid, &[bytes]);
    }
    let d = rec.call(lib, g, Op::ScDecrypt, &[bytes, sk]);
    let dk = rec.call(lib, g, Op::ScDecKey, &[sk, bytes]);
    let d2 = match dk.first() {
        Some(k) => rec.call(lib, g, Op::DkDecrypt, &[k, bytes]),
        None => Out::Rej("no key".into()),
    };
    if order == 1 {
        v = rec.call(lib, g, Op::ScValid, &[bytes]);
    }
    let valid = v.flag() == Some(true);
    let key = format!("{} scheme={} g={}", label, scheme_name(scheme), g.name());
    if same_value {
        rec.probe("alteration-left-value-unchanged");
        rec.expect("C11", "roundtrip-exact", valid && d.opt_value() == Some(Some(msg)), || format!("{} | value unchanged but valid={} decrypt={}", key, valid, describe(&d)));
    } else {
        rec.expect("C11", "altered-ciphertext-invalid", !valid, || format!("{} | altered ciphertext still reports valid", key));
        let none = |o: &Out| !matches!(o.opt_value(), Some(Some(_)));
        rec.expect("C11", "altered-ciphertext-decrypts-to-nothing", none(&d) && none(&d2), || format!("{} | altered ciphertext decrypts: decrypt={} decryption-key={}", key, describe(&d), describe(&d2)));
    }
    // the validity flag is what gates decryption
    if !valid {
        let none = |o: &Out| !matches!(o.opt_value(), Some(Some(_)));
        rec.expect("C11", "invalid-never-decrypts", none(&d) && none(&d2), || format!("{} | reports invalid but decrypts: {} / {}", key, describe(&d), describe(&d2)));
    }
}

fn sc_tamper(plan: &Plan, lib: &dyn Lib, rec: &mut Rec, all_bits: bool) {
    let g = grp_of(plan.get("g"));
    let scheme = plan.get("scheme") as u8;
    let pl = g.pk_len();
    let mut x = Xo::derive(plan.seed, &[0xC29]);
    let Some(a) = party(rec, lib, g, 4 + plan.get("key_class") as u64 % 2, plan.seed) else { return };
    let msg = msg_of(plan, &mut x);
    let Some(ct) = rec.call(lib, g, Op::SignCrypt, &[&a.pk, &[scheme], &msg]).first().map(|v| v.to_vec()) else { return };
    let Some(orig) = SignCryptFields::parse(&ct, pl) else {
        rec.expect("C11", "ciphertext-layout", false, || "layout | own ciphertext does not have the documented layout u || len || v || w || scheme".into());
        return;
    };
    // the recipient handles the honest ciphertext first, then the altered one(s), then the honest one again
    sc_expect(rec, lib, g, &orig, &msg, &a.sk, &ct, "honest-before", scheme);
    if all_bits {
        for bit in 0..ct.len() * 8 {
            let mut t = ct.clone();
            t[bit / 8] ^= 1 << (bit % 8);
            rec.fault("bitflip");
            rec.case(&[11, g as u64, scheme as u64, msg.len() as u64, bit as u64, 1], true);
            let region = if bit / 8 < pl { "u" } else if bit / 8 >= ct.len() - 1 { "scheme" } else if bit / 8 >= ct.len() - 1 - g.sig_len() { "w" } else { "v" };
            sc_expect(rec, lib, g, &orig, &msg, &a.sk, &t, &format!("bitflip-{}", region), scheme);
        }
        rec.sample(|| format!("every single-bit flip of a {}-byte ciphertext (msg {}B) scheme={} g={}", ct.len(), msg.len(), scheme_name(scheme), g.name()));
        return;
    }
    let (mode, salt) = plan.faults.iter().find(|f| f.k == "perturb").map(|f| (f.arg(0), f.arg(1) as u64)).unwrap_or((0, 0));
    let mut f = orig.clone();
    let up = Pt::from_bytes(&f.u).unwrap();
    let wp = Pt::from_bytes(&f.w).unwrap();
    let k = refimpl::scalar_from_u64(2 + salt % 500);
    let other_ct = rec.call(lib, g, Op::SignCrypt, &[&a.pk, &[scheme], &msg]).first().and_then(|v| SignCryptFields::parse(v, pl));
    let mut c = Courier::new(plan.seed, 2);
    let mut transport = None;
    let label: &'static str = match mode {
        0 => { f.u = up.neg().to_bytes(); "u-neg" }
        1 => { f.u = up.add(&up.gen_like()).to_bytes(); "u-plus-G" }
        2 => { f.u = up.mul(&k).to_bytes(); "u-times-k" }
        3 => { f.u = up.sub(&up).to_bytes(); "u-identity" }
        4 => { f.w = wp.neg().to_bytes(); "w-neg" }
        5 => { f.w = wp.add(&wp.gen_like()).to_bytes(); "w-plus-G" }
        6 => { f.w = wp.sub(&wp).to_bytes(); "w-identity" }
        7 => { let i = (salt as usize) % (f.v.len() * 8); f.v[i / 8] ^= 1 << (i % 8); "v-bitflip" }
        8 => { f.v[0] ^= 1 << (salt % 8); "v-length-prefix-bitflip" }
        9 => { let l = (salt as usize) % f.v.len(); f.v.truncate(l); "v-truncated" }
        10 => { f.v.extend_from_slice(&x.bytes(1 + (salt % 40) as usize)); "v-extended" }
        11 => { f.v.push(0); "v-extended-by-zero" }
        12 => { f.scheme = (f.scheme + 1) % 3; "relabel+1" }
        13 => { f.scheme = (f.scheme + 2) % 3; "relabel+2" }
        14 => { if let Some(o) = &other_ct { f.u = o.u.clone(); } "u-spliced-from-other-ciphertext" }
        15 => { if let Some(o) = &other_ct { f.w = o.w.clone(); } "w-spliced-from-other-ciphertext" }
        16 => { if let Some(o) = &other_ct { f.v = o.v.clone(); } "v-spliced-from-other-ciphertext" }
        17 => { f.v.clear(); "v-emptied" }
        18 => { let l = f.v.len() - 1; f.v[l] ^= 0x80; "v-last-byte-flip" }
        19 => { f.u = up.mul(&k).to_bytes(); f.w = wp.mul(&k).to_bytes(); "u-and-w-scaled" }
        20 => { transport = Some(NetAction::Truncate { part: 0, len: salt as usize }); "in-flight-truncation" }
        21 => { transport = Some(NetAction::Extend { part: 0, extra: x.bytes(1 + (salt % 9) as usize) }); "in-flight-extension" }
        23 => { f.u = up.neg().to_bytes(); f.w = wp.neg().to_bytes(); "u-and-w-negated" }
        24 | 25 => {
            // both points the identity: the pairing relation holds trivially and the key stream of the identity point is
            // public; with v = frame(msg) xor that stream (24) every secret key would "decrypt" it
            f.u = up.sub(&up).to_bytes();
            f.w = wp.sub(&wp).to_bytes();
            if mode == 24 {
                let mut frame = refimpl::leb128(msg.len() as u128);
                frame.extend_from_slice(&msg);
                frame.resize(f.v.len().max(frame.len()), 0);
                f.v = refimpl::xor(&frame, &refimpl::shake128(&f.u, frame.len()));
                "u-and-w-identity-with-v-keyed-to-the-identity"
            } else {
                "u-and-w-identity"
            }
        }
        _ => { transport = Some(NetAction::BitFlip { part: 0, bit: salt as usize }); "in-flight-bitflip" }
    };
    if let Some(t) = transport {
        c.fault(K_CT, 0, t);
    }
    rec.fault("byz-relay");
    rec.case(&[11, g as u64, scheme as u64, mode as u64, (msg.len() > 31) as u64, 2], true);
    for r in c.ship(0, 1, K_CT, 0, vec![f.build()]) {
        if label == "in-flight-extension" {
            // trailing bytes after a complete ciphertext: the decoder may ignore them (value unchanged) or refuse
            let v = rec.call(lib, g, Op::ScValid, &[&r.parts[0]]);
            let d = rec.call(lib, g, Op::ScDecrypt, &[&r.parts[0], &a.sk]);
            let ok = matches!(d.opt_value(), Some(Some(m)) if m == msg.as_slice()) || !matches!(d.opt_value(), Some(Some(_)));
            rec.expect("C11", "altered-ciphertext-decrypts-to-nothing", ok, || format!("{} scheme={} g={} | returned a different message (valid={:?})", label, scheme_name(scheme), g.name(), v.flag()));
            continue;
        }
        sc_expect(rec, lib, g, &orig, &msg, &a.sk, &r.parts[0], label, scheme);
    }
    sc_expect(rec, lib, g, &orig, &msg, &a.sk, &ct, "honest-after", scheme);
    rec.sample(|| format!("perturbation={} scheme={} g={} len={}", label, scheme_name(scheme), g.name(), msg.len()));
    c.finish(rec);
}

// ------------------------------------------------------------------------------------------
// C12
// ------------------------------------------------------------------------------------------
fn thresh_decrypt(plan: &Plan, lib: &dyn Lib, rec: &mut Rec) {
    let g = grp_of(plan.get("g"));
    let scheme = plan.get("scheme") as u8;
    let n = plan.get("n").clamp(2, 255) as usize;
    let t = plan.get("t").clamp(2, n as i64) as usize;
    let mut x = Xo::derive(plan.seed, &[0xC2A]);
    let big = n > 12;
    let Some(d) = deal(rec, lib, g, plan.get("key_class") as u64, t as u64, n as u64, plan.seed) else { return };
    let msg = msg_of(plan, &mut x);
    let Some(ct) = rec.call(lib, g, Op::SignCrypt, &[&d.pk, &[scheme], &msg]).first().map(|v| v.to_vec()) else { return };
    let Some(ct2) = rec.call(lib, g, Op::SignCrypt, &[&d.pk, &[scheme], b"another ciphertext"]).first().map(|v| v.to_vec()) else { return };
    let sch = scheme_name(scheme);
    let mut dshares = vec![];
    for (i, s) in d.shares.iter().enumerate() {
        // every participant works on its OWN copy of the ciphertext (decoded from what it received, and — on the alternative
        // routes of §2.8 — cloned, cloned onto another value, or selected): the copy is the ciphertext
        if !big || i < 3 {
            let mine = recode(rec, lib, g, Ty::SignCryptCiphertext, Codec::Bytes, Codec::Bytes, &ct);
            rec.expect("C12", "decryption-share-created", mine.first() == Some(ct.as_slice()), || format!("own-copy scheme={} g={} | participant {}'s copy of the ciphertext is not the ciphertext ({})", sch, g.name(), i + 1, match &mine { Out::Ok(v) => format!("{} bytes, last byte {:?}", v[0].len(), v[0].last()), o => o.kind().to_string() }));
            if let Some(m) = mine.first() {
                if m != ct.as_slice() {
                    // what the participant then does with its copy
                    let o = rec.call(lib, g, Op::ScShare, &[m, s]);
                    if let Some(sh) = o.first() {
                        let v = rec.call(lib, g, Op::DShareVerify, &[sh, &d.pk_shares[i], &ct]);
                        rec.expect("C12", "share-verifies-own", v.is_ok(), || format!("own-copy scheme={} g={} | the share participant {} made from its copy does not verify against the ciphertext", sch, g.name(), i + 1));
                    }
                }
            }
        }
        let o = rec.call(lib, g, Op::ScShare, &[&ct, s]);
        match o.first() {
            Some(b) => dshares.push(b.to_vec()),
            None => {
                rec.expect("C12", "decryption-share-created", false, || format!("create scheme={} | participant {} could not create a decryption share: {:?}", sch, i + 1, o));
                return;
            }
        }
    }
    // the library offers a second way to make a participant's share — the trait function
    // `BlsSignCrypt::create_decryption_share` — and a participant's decryption share is one value, whichever is used
    for i in [0usize, n - 1] {
        let o = rec.call(lib, g, Op::ScShareTrait, &[&ct, &d.shares[i]]);
        let same = matches!(o.first(), Some(b) if b.len() == dshares[i].len() && b[0] == dshares[i][0] && b[1..] == dshares[i][1..]);
        rec.expect("C12", "decryption-share-created", same, || format!("create-via-trait scheme={} g={} | BlsSignCrypt::create_decryption_share for participant {} does not give the participant's decryption share ({} bytes + identifier expected): {}", sch, g.name(), i + 1, dshares[i].len() - 1, match &o { Out::Ok(v) => format!("Ok({} bytes)", v.first().map(|b| b.len()).unwrap_or(0)), other => format!("{:?}", other) }));
    }
    // each share verifies against its own public-key share and this ciphertext, for every scheme
    let to_verify: Vec<usize> = if big { let mut v = vec![0, n - 1, 126.min(n - 1), 127.min(n - 1)]; v.push(x.below(n as u64) as usize); v.dedup(); v } else { (0..n).collect() };
    for i in to_verify {
        let v = rec.call(lib, g, Op::DShareVerify, &[&dshares[i], &d.pk_shares[i], &ct]);
        rec.case(&[12, g as u64, scheme as u64, t as u64, n as u64, i as u64, 0], false);
        rec.expect("C12", "share-verifies-own", v.is_ok(), || format!("own scheme={} g={} | honest decryption share of participant {} rejected for its own key share and ciphertext: {:?}", sch, g.name(), i + 1, v));
        let j = (i + 1) % n;
        let v = rec.call(lib, g, Op::DShareVerify, &[&dshares[i], &d.pk_shares[j], &ct]);
        rec.case(&[12, g as u64, scheme as u64, t as u64, n as u64, i as u64, 1], true);
        rec.expect("C12", "share-rejected-for-other-participant", !v.is_ok(), || format!("other-participant scheme={} g={} | share {} verifies against key share {}", sch, g.name(), i + 1, j + 1));
        let v = rec.call(lib, g, Op::DShareVerify, &[&dshares[i], &d.pk_shares[i], &ct2]);
        rec.expect("C12", "share-rejected-for-other-ciphertext", !v.is_ok(), || format!("other-ciphertext scheme={} g={} | share {} verifies against another ciphertext", sch, g.name(), i + 1));
    }
    // what the undivided key opens, the committee opens: a VALID ciphertext made by hand (a sender who knows r), whose
    // payload is not padded to 32 bytes the way the library's own sealing pads it
    if !big {
        if let (Some((tags, _)), Some(pkp)) = (crate::sc_sign::own_tags(rec, lib, g), Pt::from_bytes(&d.pk)) {
            let bref = Bls::with_tags(sig_grp(g), tags.clone());
            let tag = [&tags.basic, &tags.aug, &tags.pop_sig][(scheme as usize).min(2)];
            let short = b"hand-made".to_vec();
            let mut frame = vec![short.len() as u8];
            frame.extend_from_slice(&short);
            let hm = refimpl::signcrypt_seal_framed(&bref, &pkp, &frame, tag, &refimpl::keygen(&x.bytes(19)));
            let hb = SignCryptFields { u: hm.u.to_bytes(), v: hm.v.clone(), w: hm.w.to_bytes(), scheme: scheme.min(2) }.build();
            let whole = rec.call(lib, g, Op::ScDecrypt, &[&hb, &d.sk]);
            if whole.opt_value() == Some(Some(short.as_slice())) {
                rec.probe("hand-made-unpadded-ciphertext-opened-by-the-undivided-key");
                let mut hs: Vec<Vec<u8>> = vec![];
                for (i, s) in d.shares.iter().enumerate().take(t) {
                    let o = rec.call(lib, g, Op::ScShare, &[&hb, s]);
                    rec.expect("C12", "decryption-share-created", o.is_ok(), || format!("create hand-made-unpadded scheme={} g={} | participant {} gets no decryption share for a ciphertext the undivided key opens: {:?}", sch, g.name(), i + 1, o.kind()));
                    if let Some(b) = o.first() {
                        hs.push(b.to_vec());
                    }
                }
                if hs.len() == t {
                    let args: Vec<&[u8]> = std::iter::once(hb.as_slice()).chain(hs.iter().map(|b| b.as_slice())).collect();
                    let a = rec.call(lib, g, Op::ScDecryptShares, &args);
                    rec.expect("C12", "t-shares-decrypt-exactly", a.opt_value() == Some(Some(short.as_slice())), || format!("decrypt_with_shares hand-made-unpadded scheme={} g={} | t={} n={}: the committee does not open what the undivided key opens: {}", sch, g.name(), t, n, describe(&a)));
                }
            }
        }
    }
    let check_set = |rec: &mut Rec, order: &[usize], how: &str| {
        let distinct: std::collections::BTreeSet<usize> = order.iter().copied().collect();
        let args: Vec<&[u8]> = std::iter::once(ct.as_slice()).chain(order.iter().map(|i| dshares[*i].as_slice())).collect();
        let a = rec.call(lib, g, Op::ScDecryptShares, &args);
        let kargs: Vec<&[u8]> = order.iter().map(|i| dshares[*i].as_slice()).collect();
        let dk = rec.call(lib, g, Op::DkFromShares, &kargs);
        let b = match dk.first() {
            Some(k) => rec.call(lib, g, Op::DkDecrypt, &[k, &ct]),
            None => Out::Rej("no key".into()),
        };
        let ids: Vec<usize> = order.iter().map(|i| i + 1).collect();
        rec.case(&[12, g as u64, scheme as u64, t as u64, n as u64, order.iter().fold(7u64, |a, i| a.wrapping_mul(131).wrapping_add(*i as u64 + 1))], distinct.len() != n);
        if distinct.len() != order.len() {
            rec.probe("duplicate-share-in-set");
            return; // duplicated identifiers: error or not is C08's clause; nothing claimed here
        }
        if distinct.len() >= t {
            if distinct.len() == t {
                rec.probe("decrypt-with-exactly-t");
            }
            rec.expect("C12", "t-shares-decrypt-exactly", a.opt_value() == Some(Some(msg.as_slice())), || {
                format!("decrypt_with_shares scheme={} g={} | t={} n={} ids={:?} ({}): {}", sch, g.name(), t, n, ids, how, describe(&a))
            });
            rec.expect("C12", "t-shares-decrypt-exactly", b.opt_value() == Some(Some(msg.as_slice())), || {
                format!("decryption-key-from-shares scheme={} g={} | t={} n={} ids={:?} ({}): {}", sch, g.name(), t, n, ids, how, describe(&b))
            });
        } else {
            if distinct.len() + 1 == t {
                rec.probe("decrypt-with-t-minus-1");
            }
            let leak = |o: &Out| matches!(o.opt_value(), Some(Some(m)) if m == msg.as_slice() && msg.len() >= 4);
            rec.expect("C12", "below-threshold-never-original", !leak(&a) && !leak(&b), || format!("below-threshold scheme={} g={} | t={} n={} ids={:?}: original message returned", sch, g.name(), t, n, ids));
        }
    };
    if plan.class == "td-subsets" {
        for mask in 1u32..(1 << n) {
            let mut order: Vec<usize> = (0..n).filter(|i| mask >> i & 1 == 1).collect();
            if x.chance(1, 2) {
                x.shuffle(&mut order);
            }
            check_set(rec, &order, "subset");
        }
        rec.sample(|| format!("(t,n)=({},{}) scheme={} g={} every subset, msg {}B", t, n, sch, g.name(), msg.len()));
        return;
    }
    // protocol: shares travel to the combiner; it uses what arrived, in arrival order
    let mut c = Courier::new(plan.seed, n + 2);
    install_faults(&mut c, &plan.faults);
    let comb = n + 1;
    // in a large committee only a handful of participants answer: the highest identifiers and a few drawn ones
    let senders: Vec<usize> = if big {
        let mut v: Vec<usize> = match x.below(4) {
            // exactly t answers: one identifier at one end of 1..=n and t-1 crowded at the other end
            0 => std::iter::once(0).chain(n - (t - 1)..n).collect(),
            1 => std::iter::once(n - 1).chain(0..t - 1).collect(),
            _ => {
                let mut v: Vec<usize> = (n - t..n).collect();
                v.push(126.min(n - 1));
                v.push(127.min(n - 1));
                v.push(x.below(n as u64) as usize);
                v
            }
        };
        v.sort();
        v.dedup();
        x.shuffle(&mut v);
        v
    } else {
        (0..n).collect()
    };
    for i in senders {
        c.sim.send(i + 1, comb, kernel::sim::Msg { kind: K_DSHARE, corr: i as u64, parts: vec![vec![i as u8], dshares[i].clone()] });
    }
    let arrived = c.settle(comb, K_DSHARE);
    let mut order: Vec<usize> = vec![];
    let mut dups = 0;
    for a in &arrived {
        let i = a.parts[0][0] as usize;
        // the combiner verifies what it receives before use
        let v = c.at(comb, || rec.call(lib, g, Op::DShareVerify, &[&a.parts[1], &d.pk_shares[i], &ct]));
        rec.expect("C12", "share-verifies-own", v.is_ok(), || format!("own-in-protocol scheme={} g={} | share {} rejected on arrival: {:?}", sch, g.name(), i + 1, v));
        if order.contains(&i) {
            dups += 1;
            continue;
        }
        order.push(i);
        if order.len() >= 1 {
            let o = order.clone();
            check_set(rec, &o, "arrival-prefix");
        }
    }
    if dups > 0 {
        rec.probe("duplicate-delivery-deduplicated");
    }
    rec.sample(|| format!("(t,n)=({},{}) scheme={} g={} arrival order={:?} dups={}", t, n, sch, g.name(), order.iter().map(|i| i + 1).collect::<Vec<_>>(), dups));
    c.finish(rec);
}

// ------------------------------------------------------------------------------------------
// C13
// ------------------------------------------------------------------------------------------
fn round_id(kind: i64, r: u64, x: &mut Xo) -> Vec<u8> {
    match kind {
        0 => r.to_be_bytes().to_vec(),
        1 => format!("round-{}", r).into_bytes(),
        2 => {
            if r == 0 {
                vec![]
            } else {
                vec![r as u8]
            }
        }
        _ => x.bytes(1 + (r as usize * 13) % 70),
    }
}

fn tl_beacon(plan: &Plan, lib: &dyn Lib, rec: &mut Rec) {
    let g = grp_of(plan.get("g"));
    let scheme = plan.get("scheme") as u8;
    let sch = scheme_name(scheme);
    let n = plan.get("n").clamp(2, 8) as usize;
    let t = plan.get("t").clamp(2, n as i64) as usize;
    let mut x = Xo::derive(plan.seed, &[0xC2B]);
    let Some(d) = deal(rec, lib, g, plan.get("key_class") as u64, t as u64, n as u64, plan.seed) else { return };
    let Some(other) = party(rec, lib, g, 5, plan.seed ^ 0x0DD) else { return };
    let rounds = plan.get("rounds").clamp(1, 4) as u64;
    let delta = 500 * MS;
    let mut c = Courier::new(plan.seed, n + 3);
    install_faults(&mut c, &plan.faults);
    let (beacon, holder, encryptor) = (n + 1, n + 2, 0usize);
    // encryptors seal to future rounds at the start
    let mut cts = vec![];
    for r in 0..rounds {
        let id = round_id(plan.get("id_kind"), r, &mut x);
        let msg = msg_of(plan, &mut x);
        let ct = c.at(encryptor, || rec.call(lib, g, Op::TimeLock, &[&d.pk, &[scheme], &msg, &id]));
        let Some(ct) = ct.first().map(|v| v.to_vec()) else {
            rec.expect("C13", "seal-succeeds", false, || format!("seal scheme={} | {:?}", sch, ct));
            return;
        };
        cts.push((id, msg, ct));
    }
    for r in 0..rounds {
        rec.step += 1;
        // round r opens at simulated time (r+1)·Δ
        let now = c.sim.now;
        let target = (r + 1) * delta;
        if target > now {
            c.pass(target - now);
        }
        let (id, msg, ct) = cts[r as usize].clone();
        // nothing released yet for this round: a holder trying earlier rounds' signatures gets nothing
        if r > 0 {
            let prev = rec.call(lib, g, Op::Sign, &[&d.sk, &[scheme], &cts[r as usize - 1].0]);
            if let Some(p) = prev.first() {
                if cts[r as usize - 1].0 != id {
                    let o = c.at(holder, || rec.call(lib, g, Op::TlDecrypt, &[&ct, p]));
                    rec.expect("C13", "other-identifier-opens-nothing", o.opt_value() == Some(None), || format!("other-round scheme={} g={} | the signature over round {} opens round {}: {}", sch, g.name(), r - 1, r, describe(&o)));
                }
            }
        }
        // the beacon: whole key (always for the augmentation scheme) or t-of-n partial signatures over the transport
        let use_shares = scheme != 1 && x.chance(2, 3);
        let sigma = if use_shares {
            for i in 0..n {
                let ps = c.at(i + 1, || rec.call(lib, g, Op::ShareSign, &[&d.shares[i], &[scheme], &id]));
                if let Some(p) = ps.first() {
                    c.sim.send(i + 1, beacon, kernel::sim::Msg { kind: K_SIGSHARE, corr: r, parts: vec![p.to_vec()] });
                }
            }
            let arrived = c.settle(beacon, K_SIGSHARE);
            let mut set: Vec<Vec<u8>> = vec![];
            for a in arrived {
                if set.iter().any(|s| s[1] == a.parts[0][1]) {
                    continue;
                }
                set.push(a.parts[0].clone());
                if set.len() == t {
                    break;
                }
            }
            if set.len() < t {
                rec.probe("beacon-short-of-shares");
                // fewer than t: whatever recombines must not open the round
                if set.len() >= 2 {
                    let args: Vec<&[u8]> = set.iter().map(|v| v.as_slice()).collect();
                    if let Some(s) = rec.call(lib, g, Op::SigFromShares, &args).first() {
                        let o = rec.call(lib, g, Op::TlDecrypt, &[&ct, s]);
                        rec.expect("C13", "below-threshold-opens-nothing", !matches!(o.opt_value(), Some(Some(m)) if m == msg.as_slice() && msg.len() >= 4), || format!("below-threshold scheme={} g={} | {} of {} shares opened the round", sch, g.name(), set.len(), t));
                    }
                }
                continue;
            }
            rec.probe("beacon-recombined-from-shares");
            let args: Vec<&[u8]> = set.iter().map(|v| v.as_slice()).collect();
            rec.call(lib, g, Op::SigFromShares, &args)
        } else {
            c.at(beacon, || rec.call(lib, g, Op::Sign, &[&d.sk, &[scheme], &id]))
        };
        let Some(sigma) = sigma.first().map(|v| v.to_vec()) else {
            rec.expect("C13", "beacon-signs", false, || format!("beacon scheme={} | {:?}", sch, sigma));
            continue;
        };
        rec.case(&[13, g as u64, scheme as u64, use_shares as u64, msg.len() as u64, id.len() as u64, plan.faults.len() as u64], use_shares || !plan.faults.is_empty());
        for rel in c.ship(beacon, holder, K_SIGSHARE + 100, r, vec![sigma.clone()]) {
            let o = c.at(holder, || rec.call(lib, g, Op::TlDecrypt, &[&ct, &rel.parts[0]]));
            rec.expect("C13", "correct-signature-opens-exactly", o.opt_value() == Some(Some(msg.as_slice())), || {
                format!("open scheme={} g={} shares={} | len={} id_len={}: the signature over the identifier did not recover the message: {}", sch, g.name(), use_shares, msg.len(), id.len(), describe(&o))
            });
        }
        // wrong key / wrong scheme / identity signatures open nothing
        let wrong_key = rec.call(lib, g, Op::Sign, &[&other.sk, &[scheme], &id]).first().map(|v| v.to_vec()).unwrap_or_default();
        let o = rec.call(lib, g, Op::TlDecrypt, &[&ct, &wrong_key]);
        rec.expect("C13", "other-key-opens-nothing", o.opt_value() == Some(None), || format!("other-key scheme={} g={} | {}", sch, g.name(), describe(&o)));
        for s2 in 0u8..3 {
            if s2 == scheme {
                continue;
            }
            let ws = rec.call(lib, g, Op::Sign, &[&d.sk, &[s2], &id]).first().map(|v| v.to_vec()).unwrap_or_default();
            let o = rec.call(lib, g, Op::TlDecrypt, &[&ct, &ws]);
            rec.expect("C13", "other-scheme-opens-nothing", o.opt_value() == Some(None), || format!("other-scheme {}->{} g={} | {}", sch, scheme_name(s2), g.name(), describe(&o)));
            // the right point under the wrong label
            let mut relabel = sigma.clone();
            relabel[0] = s2;
            let o = rec.call(lib, g, Op::TlDecrypt, &[&ct, &relabel]);
            rec.expect("C13", "other-scheme-opens-nothing", o.opt_value() == Some(None), || format!("relabelled-signature {}->{} g={} | {}", sch, scheme_name(s2), g.name(), describe(&o)));
        }
        let ident = refimpl::layout::tagged(scheme, &Pt::from_bytes(&sigma[1..]).map(|p| p.sub(&p).to_bytes()).unwrap_or_default());
        let o = rec.call(lib, g, Op::TlDecrypt, &[&ct, &ident]);
        rec.expect("C13", "identity-signature-opens-nothing", o.opt_value() == Some(None), || format!("identity scheme={} g={} | {}", sch, g.name(), describe(&o)));
    }
    rec.sample(|| format!("scheme={} g={} (t,n)=({},{}) rounds={} id_kind={} faults={}", sch, g.name(), t, n, rounds, plan.get("id_kind"), plan.faults.len()));
    c.finish(rec);
}

fn tl_tamper(plan: &Plan, lib: &dyn Lib, rec: &mut Rec, all_bits: bool) {
    let g = grp_of(plan.get("g"));
    // the augmentation scheme needs a signature that opens (after the fix of F9 it does)
    let scheme = plan.get("scheme") as u8;
    let sch = scheme_name(scheme);
    let pl = g.pk_len();
    let mut x = Xo::derive(plan.seed, &[0xC2C]);
    let Some(a) = party(rec, lib, g, 4 + plan.get("key_class") as u64 % 2, plan.seed) else { return };
    let msg = msg_of(plan, &mut x);
    let id = b"tamper-round".to_vec();
    let Some(ct) = rec.call(lib, g, Op::TimeLock, &[&a.pk, &[scheme], &msg, &id]).first().map(|v| v.to_vec()) else { return };
    let Some(sig) = rec.call(lib, g, Op::Sign, &[&a.sk, &[scheme], &id]).first().map(|v| v.to_vec()) else { return };
    let Some(orig) = TimeLockFields::parse(&ct, pl) else {
        rec.expect("C13", "ciphertext-layout", false, || "layout | own ciphertext does not have the documented layout u || v || len || w || scheme".into());
        return;
    };
    let base = rec.call(lib, g, Op::TlDecrypt, &[&ct, &sig]);
    if base.opt_value() != Some(Some(msg.as_slice())) {
        // reported by the beacon class; tampering an unopenable ciphertext proves nothing
        rec.expect("C13", "correct-signature-opens-exactly", false, || format!("open scheme={} g={} shares=false | len={} id_len={}: the signature over the identifier did not recover the message: {}", sch, g.name(), msg.len(), id.len(), describe(&base)));
        return;
    }
    // in every run: the identity "signature" opens nothing — neither the honest ciphertext nor one ASSEMBLED for it
    // (header re-keyed for the pairing value 1, which e(O, u) is for every u)
    {
        let sl = g.sig_len();
        let osig = refimpl::layout::tagged(scheme, &if sl == 48 { Pt::id1() } else { Pt::id2() }.to_bytes());
        let o = rec.call(lib, g, Op::TlDecrypt, &[&ct, &osig]);
        rec.expect("C13", "other-signature-opens-nothing", !matches!(o.opt_value(), Some(Some(_))), || format!("identity-signature scheme={} g={} | the honest ciphertext opened with the identity signature: {}", sch, g.name(), describe(&o)));
        if let (Some((tags, _)), Some(pkp)) = (own_tags(rec, lib, g), Pt::from_bytes(&a.pk)) {
            let b = Bls::with_tags(sig_grp(g), tags);
            let idp = if sl == 48 { Pt::id1() } else { Pt::id2() };
            let t = refimpl::timelock_seal(&b, &pkp, &msg, &idp, &refimpl::keygen(&x.bytes(10)));
            let forged = TimeLockFields { u: t.u.to_bytes(), v: t.v.to_vec(), w: t.w.clone(), scheme }.build();
            let o = rec.call(lib, g, Op::TlDecrypt, &[&forged, &osig]);
            rec.expect("C13", "other-signature-opens-nothing", !matches!(o.opt_value(), Some(Some(_))), || format!("identity-signature-with-assembled-ciphertext scheme={} g={} | a ciphertext keyed to the pairing value 1 opened with the identity signature: {}", sch, g.name(), describe(&o)));
        }
    }
    // authenticated prefix of w: the length prefix and the message bytes; the rest is zero padding
    let auth = refimpl::leb128(msg.len() as u128).len() + msg.len();
    let judge = |rec: &mut Rec, bytes: &[u8], label: &str| {
        let o = rec.call(lib, g, Op::TlDecrypt, &[bytes, &sig]);
        let key = format!("{} scheme={} g={}", label, sch, g.name());
        let got = o.opt_value();
        // never a different message
        let different = matches!(got, Some(Some(m)) if m != msg.as_slice());
        rec.expect("C13", "altered-ciphertext-never-other-message", !different && !o.is_panic(), || format!("{} | altered ciphertext yields a different message or aborts: {}", key, describe(&o)));
        let f = TimeLockFields::parse(bytes, pl);
        // "nothing" is required when a header component, the label, or a byte of the authenticated prefix of w
        // (length prefix + message) has another value. Framing damage (unparseable structure) and truncation
        // below the authenticated prefix are only required not to yield a different message.
        let must_none = match &f {
            None => false,
            Some(f) => {
                let u_same = Pt::from_bytes(&f.u).is_some() && Pt::from_bytes(&f.u) == Pt::from_bytes(&orig.u);
                let header_same = u_same && f.v == orig.v && norm_scheme(f.scheme) == norm_scheme(orig.scheme);
                !header_same || (f.w.len() >= auth && f.w[..auth] != orig.w[..auth])
            }
        };
        if must_none {
            rec.expect("C13", "altered-header-or-payload-opens-nothing", !matches!(got, Some(Some(_))), || format!("{} | change in u, v, the length prefix or the message bytes still opens: {}", key, describe(&o)));
        } else {
            rec.probe("alteration-confined-to-padding-or-value-unchanged");
        }
    };
    if all_bits {
        for bit in 0..ct.len() * 8 {
            let mut t = ct.clone();
            t[bit / 8] ^= 1 << (bit % 8);
            rec.fault("bitflip");
            rec.case(&[13, g as u64, scheme as u64, msg.len() as u64, bit as u64, 1], true);
            let region = if bit / 8 < pl { "u" } else if bit / 8 < pl + 32 { "v" } else if bit / 8 >= ct.len() - 1 { "scheme" } else { "w" };
            judge(rec, &t, &format!("bitflip-{}", region));
        }
        rec.sample(|| format!("every single-bit flip of a {}-byte time-lock ciphertext (msg {}B, authenticated prefix {}B of {}B) scheme={} g={}", ct.len(), msg.len(), auth, orig.w.len(), sch, g.name()));
        return;
    }
    let (mode, salt) = plan.faults.iter().find(|f| f.k == "perturb").map(|f| (f.arg(0), f.arg(1) as u64)).unwrap_or((0, 0));
    let mut f = orig.clone();
    let up = Pt::from_bytes(&f.u).unwrap();
    let k = refimpl::scalar_from_u64(2 + salt % 500);
    let label: &'static str = match mode % 20 {
        18 | 19 => {
            // the continuation bit set on the first k bytes of w: a length prefix that never terminates (k >= 19),
            // or one that swallows message / padding bytes (k < 19)
            let k = if mode % 20 == 18 { *x.pick(&[19usize, 19, 20, 32]) } else { *x.pick(&[1usize, 2, 3, 10, 18]) };
            for b in f.w.iter_mut().take(k) {
                *b ^= 0x80;
            }
            "w-continuation-bits-set"
        }
        16 | 17 => {
            // someone who knows the plaintext rewrites the (unauthenticated-by-itself) length prefix in place:
            // w' = w xor P xor P', P' = varint(V) over the leading bytes, V around a width boundary of the length arithmetic
            let sh = *x.pick(&[7u32, 14, 21, 31, 32, 63, 64, 127, 128]);
            let base: u128 = if sh == 128 { 0 } else { 1u128 << sh };
            let off = if mode % 20 == 16 { x.below(3) as i128 - 1 } else { x.below(49) as i128 - 24 };
            let v = if off < 0 { base.wrapping_sub((-off) as u128) } else { base.wrapping_add(off as u128) };
            let newp = refimpl::leb128(v);
            let mut plain = refimpl::leb128(msg.len() as u128);
            plain.extend_from_slice(&msg);
            plain.resize(f.w.len().max(plain.len()), 0);
            for (i, nb) in newp.iter().enumerate() {
                if i < f.w.len() {
                    f.w[i] ^= plain[i] ^ nb;
                }
            }
            "w-length-prefix-rewritten"
        }
        0 => { f.u = up.neg().to_bytes(); "u-neg" }
        1 => { f.u = up.add(&up.gen_like()).to_bytes(); "u-plus-G" }
        2 => { f.u = up.mul(&k).to_bytes(); "u-times-k" }
        3 => { f.u = up.sub(&up).to_bytes(); "u-identity" }
        4 => { let i = (salt as usize) % 256; f.v[i / 8] ^= 1 << (i % 8); "v-bitflip" }
        5 => { f.w[0] ^= 1 << (salt % 8); "w-length-prefix-bitflip" }
        6 => { if auth > 1 { let i = 8 + (salt as usize) % ((auth - 1) * 8); f.w[i / 8] ^= 1 << (i % 8); } else { f.w[0] ^= 1; } "w-message-bitflip" }
        7 => { if f.w.len() > auth { let i = auth * 8 + (salt as usize) % ((f.w.len() - auth) * 8); f.w[i / 8] ^= 1 << (i % 8); } "w-padding-bitflip" }
        8 => { f.w.extend_from_slice(&x.bytes(1 + (salt % 40) as usize)); "w-extended" }
        9 => { let l = (salt as usize) % f.w.len(); f.w.truncate(l); "w-truncated" }
        10 => { f.scheme = (f.scheme + 1) % 3; "relabel+1" }
        11 => { f.scheme = (f.scheme + 2) % 3; "relabel+2" }
        12 => { f.w.push(0); "w-extended-by-zero" }
        13 => { f.v = x.bytes(32); "v-replaced" }
        14 => { f.w.clear(); "w-emptied" }
        _ => { for b in f.w.iter_mut().skip(auth) { *b ^= 0xff; } "w-padding-inverted" }
    };
    rec.fault("byz-relay");
    rec.case(&[13, g as u64, scheme as u64, mode as u64 % 20, (msg.len() > 31) as u64, 2], true);
    let mut c = Courier::new(plan.seed, 2);
    for r in c.ship(0, 1, K_CT, 0, vec![f.build()]) {
        judge(rec, &r.parts[0], label);
    }
    let after = rec.call(lib, g, Op::TlDecrypt, &[&ct, &sig]);
    rec.expect("C13", "correct-signature-opens-exactly", after.opt_value() == Some(Some(msg.as_slice())), || format!("open-after-{} scheme={} g={} shares=false | the honest ciphertext no longer opens after an altered one was handled: {}", label, sch, g.name(), describe(&after)));
    rec.sample(|| format!("perturbation={} scheme={} g={} len={}", label, sch, g.name(), msg.len()));
    c.finish(rec);
}

// ------------------------------------------------------------------------------------------
// C14
// ------------------------------------------------------------------------------------------
fn eg_tally(plan: &Plan, lib: &dyn Lib, rec: &mut Rec) {
    let g = grp_of(plan.get("g"));
    let n = plan.get("n").clamp(2, 255) as usize;
    let t = plan.get("t").clamp(2, n as i64) as usize;
    let voters = plan.get("voters").clamp(1, 16) as usize;
    let mut x = Xo::derive(plan.seed, &[0xC2D]);
    let Some(d) = deal(rec, lib, g, plan.get("key_class") as u64, t as u64, n as u64, plan.seed) else { return };
    let Some((tags, enc_dst)) = own_tags(rec, lib, g) else { return };
    let b = Bls::with_tags(sig_grp(g), tags);
    let h = refimpl::elgamal_generator(&b, &enc_dst);
    let mg = rec.call(lib, g, Op::MsgGenerator, &[]);
    rec.expect("C14", "message-generator-is-hash-of-base-point", mg.first() == Some(h.to_bytes().as_slice()), || format!("generator g={} | message_generator() is not hash_to_curve(P) under the exposed tag", g.name()));
    let mut c = Courier::new(plan.seed, voters + 2);
    install_faults(&mut c, &plan.faults);
    let tally = voters + 1;
    let mut plain = vec![];
    for v in 0..voters {
        // plaintext scalars incl. 1 and r-1
        let m = match (v + plan.seed as usize) % 6 {
            0 => refimpl::scalar_from_u64(1),
            1 => refimpl::scalar_neg_u64(1),
            2 => refimpl::scalar_from_u64(x.below(1000) + 2),
            // machine-word boundaries: 2^k - 1, 2^k, 2^k + small for k = 8, 16, 31, 32, 33, 63, 64 and mid-range values
            3 => {
                let k = [8u32, 16, 31, 32, 33, 63, 64][x.below(7) as usize];
                let base = if k == 64 { refimpl::scalar_from_u64(u64::MAX) + refimpl::scalar_from_u64(1) } else { refimpl::scalar_from_u64(1u64 << k) };
                match x.below(4) {
                    0 => base - refimpl::scalar_from_u64(1),
                    1 => base,
                    2 => base + refimpl::scalar_from_u64(x.below(1 << 20)),
                    _ => refimpl::scalar_from_u64((1u64 << (k.min(63) - 1)) + (x.next() >> (65 - k.min(63)))),
                }
            }
            _ => refimpl::keygen(&x.bytes(16)),
        };
        let mb = refimpl::scalar_to_be(&m);
        let with_proof = x.chance(1, 2);
        let out = c.at(v + 1, || rec.call(lib, g, if with_proof { Op::EgEncryptProof } else { Op::EgEncrypt }, &[&d.pk, &mb]));
        let Some(ct) = out.first().map(|b| b.to_vec()) else {
            rec.expect("C14", "encrypt-succeeds", false, || format!("encrypt g={} proof={} | {:?}", g.name(), with_proof, out));
            return;
        };
        plain.push(m);
        c.sim.send(v + 1, tally, kernel::sim::Msg { kind: K_BALLOT, corr: v as u64, parts: vec![vec![v as u8, with_proof as u8], ct] });
    }
    let arrived = c.settle(tally, K_BALLOT);
    let pl = g.pk_len();
    let mut acc: Option<Vec<u8>> = None;
    let mut sum = refimpl::scalar_from_u64(0);
    let mut included = vec![];
    for (k, a) in arrived.iter().enumerate() {
        let v = a.parts[0][0] as usize;
        let with_proof = a.parts[0][1] == 1;
        let ctb = if with_proof {
            // the tally accepts a ballot with proof only if the proof verifies for the tally key
            let ok = c.at(tally, || rec.call(lib, g, Op::EgProofVerify, &[&a.parts[1], &d.pk]));
            rec.expect("C14", "honest-proof-verifies", ok.is_ok(), || format!("proof g={} | honest ciphertext proof rejected: {:?}", g.name(), ok));
            let vd = rec.call(lib, g, Op::EgVerifyDecrypt, &[&a.parts[1], &d.sk]);
            rec.expect("C14", "decrypt-is-m-times-generator", vd.first() == Some(h.mul(&plain[v]).to_bytes().as_slice()), || format!("verify_and_decrypt g={} | result is not m*H: {:?}", g.name(), vd.kind()));
            match ElGamalFields::parse(&a.parts[1], pl) {
                Some(f) => ElGamalFields { c1: f.c1, c2: f.c2, proof: None }.build(),
                None => continue,
            }
        } else {
            a.parts[1].clone()
        };
        // single ciphertext decrypts to m·H
        let one = rec.call(lib, g, Op::EgDecrypt, &[&ctb, &d.sk]);
        rec.expect("C14", "decrypt-is-m-times-generator", one.first() == Some(h.mul(&plain[v]).to_bytes().as_slice()), || format!("decrypt g={} | single ciphertext does not decrypt to m*H", g.name()));
        acc = Some(match acc {
            None => ctb,
            Some(prev) => {
                let mode = [k as u8 % 6];
                match rec.call(lib, g, Op::EgAdd, &[&prev, &ctb, &mode]).first() {
                    Some(s) => s.to_vec(),
                    None => return,
                }
            }
        });
        sum += plain[v];
        included.push(v);
    }
    rec.case(&[14, g as u64, voters as u64, included.len() as u64, plan.faults.len() as u64, included.iter().fold(3u64, |a, v| a.wrapping_mul(31).wrapping_add(*v as u64))], !plan.faults.is_empty() || included.len() > 1);
    let Some(acc) = acc else {
        rec.probe("no-ballot-arrived");
        c.finish(rec);
        return;
    };
    if included.len() != voters {
        rec.probe("tally-over-partial-arrivals");
    }
    let want = h.mul(&sum).to_bytes();
    // conservation: the sum of what was included, nothing more, nothing less
    let whole = rec.call(lib, g, Op::EgDecrypt, &[&acc, &d.sk]);
    rec.expect("C14", "sum-decrypts-to-sum-of-plaintexts", whole.first() == Some(want.as_slice()), || format!("sum whole-key g={} | {} ciphertexts (arrival order {:?}): the sum does not decrypt to the sum of the included plaintexts times H", g.name(), included.len(), included));
    // ciphertexts an application assembles itself through the public fields: the trivial encryption of a public constant
    // (O, k*H) that a tally adds to every ballot, and encryptions under blinders b and -b whose partial sum has c1 = O.
    // Every operator form, both operand orders, both associations: the sum is the component-wise sum, and it decrypts to the
    // sum of the plaintexts.
    if let Some(pkp) = Pt::from_bytes(&d.pk) {
        let p = b.pk_gen();
        let enc = |m: &refimpl::Sc, bl: &refimpl::Sc| -> (Pt, Pt) { (p.mul(bl), pkp.mul(bl).add(&h.mul(m))) };
        let bytes = |c: &(Pt, Pt)| ElGamalFields { c1: c.0.to_bytes(), c2: c.1.to_bytes(), proof: None }.build();
        let beta = refimpl::keygen(&x.bytes(17));
        let ms: Vec<refimpl::Sc> = (0..4).map(|i| if i == 3 { refimpl::scalar_from_u64(7) } else { refimpl::keygen(&x.bytes(18 + i)) }).collect();
        let ops: Vec<(&str, (Pt, Pt))> = vec![
            ("Enc(m1; b)", enc(&ms[0], &beta)),
            ("Enc(m2; -b)", enc(&ms[1], &(-beta))),
            ("Enc(m3; r)", enc(&ms[2], &refimpl::keygen(&x.bytes(22)))),
            ("public constant (O, k*H)", enc(&ms[3], &refimpl::scalar_from_u64(0))),
        ];
        let mode0 = (plan.seed % 6) as u8;
        for (i, (ni, ci)) in ops.iter().enumerate() {
            for (j, (nj, cj)) in ops.iter().enumerate() {
                if i == j {
                    continue;
                }
                let want = bytes(&(ci.0.add(&cj.0), ci.1.add(&cj.1)));
                for k in 0..2u8 {
                    let mode = [(mode0 + k * 3) % 6];
                    let got = rec.call(lib, g, Op::EgAdd, &[&bytes(ci), &bytes(cj), &mode]);
                    if !got.is_ok() && (ci.0.is_identity() || cj.0.is_identity()) {
                        rec.probe("ciphertext-with-identity-component-not-importable");
                        continue;
                    }
                    rec.expect("C14", "sum-decrypts-to-sum-of-plaintexts", got.first() == Some(want.as_slice()), || format!("assembled-operands g={} operator-form={} | {} + {} is not the component-wise sum", g.name(), mode[0], ni, nj));
                }
            }
        }
        // c + (a + b) and (c + a) + b, where a + b has c1 = O
        let ab = rec.call(lib, g, Op::EgAdd, &[&bytes(&ops[0].1), &bytes(&ops[1].1), &[mode0]]);
        let ca = rec.call(lib, g, Op::EgAdd, &[&bytes(&ops[2].1), &bytes(&ops[0].1), &[mode0]]);
        if let (Some(ab), Some(ca)) = (ab.first(), ca.first()) {
            let right = rec.call(lib, g, Op::EgAdd, &[&bytes(&ops[2].1), ab, &[(mode0 + 1) % 6]]);
            let left = rec.call(lib, g, Op::EgAdd, &[ca, &bytes(&ops[1].1), &[(mode0 + 1) % 6]]);
            let want3 = h.mul(&(ms[0] + ms[1] + ms[2])).to_bytes();
            for (what, s3) in [("c + (a + b)", &right), ("(c + a) + b", &left)] {
                if let Some(s3) = s3.first() {
                    let dec = rec.call(lib, g, Op::EgDecrypt, &[s3, &d.sk]);
                    rec.expect("C14", "sum-decrypts-to-sum-of-plaintexts", dec.first() == Some(want3.as_slice()), || format!("assembled-operands g={} | {} with cancelling blinders in a and b does not decrypt to (m1 + m2 + m3)*H", g.name(), what));
                }
            }
        }
    }
    // threshold decryption from any t-of-n shares, in any order
    let mut idx: Vec<usize> = (0..n).collect();
    if n > 12 {
        // exactly t holders answer: the last identifier(s) and/or the first, in a drawn order
        idx = match x.below(3) {
            0 => std::iter::once(0).chain(n - (t - 1)..n).collect(),
            1 => std::iter::once(n - 1).chain(0..t - 1).collect(),
            _ => {
                let mut v = vec![n - 1, 127.min(n - 1), 126.min(n - 1)];
                v.sort();
                v.dedup();
                while v.len() < (t + 2).min(n) {
                    let c = x.below(n as u64) as usize;
                    if !v.contains(&c) {
                        v.push(c);
                    }
                }
                v
            }
        };
        x.shuffle(&mut idx);
    } else {
        x.shuffle(&mut idx);
        idx.truncate(t + x.below((n - t + 1) as u64) as usize);
    }
    let mut es = vec![];
    for i in &idx {
        match rec.call(lib, g, Op::EgShare, &[&d.shares[*i], &acc]).first() {
            Some(s) => es.push(s.to_vec()),
            None => return,
        }
    }
    let args: Vec<&[u8]> = es.iter().map(|v| v.as_slice()).collect();
    let dk = rec.call(lib, g, Op::EgDkFromShares, &args);
    let ids: Vec<usize> = idx.iter().map(|i| i + 1).collect();
    match dk.first() {
        Some(k) => {
            let o = rec.call(lib, g, Op::EgDkDecrypt, &[k, &acc]);
            rec.expect("C14", "share-recombined-key-decrypts-equally", o.first() == Some(want.as_slice()), || format!("threshold g={} | t={} n={} share ids {:?}: decryption key recombined from shares gives another result", g.name(), t, n, ids));
        }
        None => {
            rec.expect("C14", "share-recombined-key-decrypts-equally", false, || format!("threshold g={} | t={} n={} share ids {:?}: from_shares failed: {:?}", g.name(), t, n, ids, dk));
        }
    }
    // a non-matching secret key fails verify_and_decrypt
    rec.sample(|| format!("g={} voters={} included in arrival order={:?} (t,n)=({},{}) share ids={:?}", g.name(), voters, included, t, n, ids));
    c.finish(rec);
}

fn eg_proof_tamper(plan: &Plan, lib: &dyn Lib, rec: &mut Rec) {
    let g = grp_of(plan.get("g"));
    let pl = g.pk_len();
    let mut x = Xo::derive(plan.seed, &[0xC2E]);
    let Some(a) = party(rec, lib, g, plan.get("key_class") as u64, plan.seed) else { return };
    let Some(o) = party(rec, lib, g, 5, plan.seed ^ 0x77) else { return };
    let m = refimpl::keygen(&x.bytes(8));
    let Some(pr) = rec.call(lib, g, Op::EgEncryptProof, &[&a.pk, &refimpl::scalar_to_be(&m)]).first().map(|v| v.to_vec()) else { return };
    let Some(orig) = ElGamalFields::parse(&pr, pl) else { return };
    let (mode, salt) = plan.faults.iter().find(|f| f.k == "perturb").map(|f| (f.arg(0), f.arg(1) as u64)).unwrap_or((0, 0));
    let mut f = orig.clone();
    let mut pk = a.pk.clone();
    let c1 = Pt::from_bytes(&f.c1).unwrap();
    let c2 = Pt::from_bytes(&f.c2).unwrap();
    let one = refimpl::scalar_from_u64(1);
    let bump = |b: &Vec<u8>| refimpl::scalar_to_be(&(refimpl::scalar_from_be(b).unwrap() + one));
    let p = f.proof.as_mut().unwrap();
    let label: &'static str = match mode {
        0 => { f.c1 = c1.add(&c1.gen_like()).to_bytes(); "c1-plus-G" }
        1 => { f.c1 = c1.neg().to_bytes(); "c1-neg" }
        2 => { f.c2 = c2.add(&c2.gen_like()).to_bytes(); "c2-plus-G" }
        3 => { f.c2 = c2.neg().to_bytes(); "c2-neg" }
        4 => { p[0] = bump(&p[0]); "message-proof+1" }
        5 => { p[1] = bump(&p[1]); "blinder-proof+1" }
        6 => { p[2] = bump(&p[2]); "challenge+1" }
        7 => { pk = o.pk.clone(); "pk-of-other-key" }
        8 => { let q = Pt::from_bytes(&pk).unwrap(); pk = q.add(&q.gen_like()).to_bytes(); "pk-plus-G" }
        9 => { std::mem::swap(&mut f.c1, &mut f.c2); "c1-c2-swapped" }
        10 => { p.swap(0, 1); "proof-scalars-swapped" }
        11 => { f.c2 = c2.add(&Pt::from_bytes(&a.pk).unwrap()).to_bytes(); "c2-plus-pk" }
        12 => { let i = (salt as usize) % 256; p[0][31 - i / 8 % 32] ^= 1 << (i % 8); "message-proof-bitflip" }
        13 => { p[2] = refimpl::scalar_to_be(&refimpl::keygen(&salt.to_le_bytes())); "challenge-replaced" }
        14 => { f.c1 = c1.mul(&refimpl::scalar_from_u64(2)).to_bytes(); f.c2 = c2.mul(&refimpl::scalar_from_u64(2)).to_bytes(); "ciphertext-doubled" }
        _ => { p[1] = refimpl::scalar_to_be(&refimpl::keygen(&salt.to_be_bytes())); "blinder-proof-replaced" }
    };
    rec.fault("byz-relay");
    rec.case(&[14, g as u64, mode as u64, 50], true);
    let mut c = Courier::new(plan.seed, 2);
    // honest proof first
    let ok = rec.call(lib, g, Op::EgProofVerify, &[&pr, &a.pk]);
    rec.expect("C14", "honest-proof-verifies", ok.is_ok(), || format!("proof g={} | honest ciphertext proof rejected: {:?}", g.name(), ok));
    let vd = rec.call(lib, g, Op::EgVerifyDecrypt, &[&pr, &o.sk]);
    rec.expect("C14", "non-matching-secret-fails", !vd.is_ok(), || format!("verify_and_decrypt g={} | succeeded under a non-matching secret key", g.name()));
    for r in c.ship(0, 1, K_BALLOT, 0, vec![f.build(), pk.clone()]) {
        let out = rec.call(lib, g, Op::EgProofVerify, &[&r.parts[0], &r.parts[1]]);
        // some byte-level changes of a scalar may produce a non-canonical encoding: decode error is a rejection too
        rec.expect("C14", "altered-proof-rejected", !out.is_ok(), || format!("{} g={} | a proof with one altered component still verifies", label, g.name()));
        if r.parts[1] == a.pk {
            let vd = rec.call(lib, g, Op::EgVerifyDecrypt, &[&r.parts[0], &a.sk]);
            rec.expect("C14", "altered-proof-rejected", !vd.is_ok(), || format!("{} verify_and_decrypt g={} | altered proof accepted", label, g.name()));
        }
    }
    rec.sample(|| format!("perturbation={} g={} key_class={}", label, g.name(), plan.get("key_class")));
    c.finish(rec);
}

/// Proofs an honest prover would make if the Fiat-Shamir transcript were a NEAR-MISS of the documented one (a pair dropped,
/// a label or an item removed and the rest zipped, one slot absorbing another item, neighbours swapped, the dst message
/// missing): they satisfy both verification equations for their own challenge, and a verifier that checks the documented
/// transcript — and only that — refuses every one of them. Also the reference's proof over the documented transcript
/// (accepted: the construction itself is right) and that proof's malleation c2 + d*H, message_proof + c*d (refused).
fn eg_transcripts(plan: &Plan, lib: &dyn Lib, rec: &mut Rec) {
    let g = grp_of(plan.get("g"));
    let mut x = Xo::derive(plan.seed, &[0xC2F]);
    let Some(a) = party(rec, lib, g, 4 + plan.get("key_class") as u64 % 2, plan.seed) else { return };
    let Some((tags, enc_dst)) = own_tags(rec, lib, g) else { return };
    let b = Bls::with_tags(sig_grp(g), tags);
    let h = refimpl::elgamal_generator(&b, &enc_dst);
    let Some(pkp) = Pt::from_bytes(&a.pk) else { return };
    let variants = refimpl::elgamal_transcript_variants();
    let build = |pr: &refimpl::ElGamalProofRef| ElGamalFields { c1: pr.c1.to_bytes(), c2: pr.c2.to_bytes(), proof: Some([refimpl::scalar_to_be(&pr.message_proof), refimpl::scalar_to_be(&pr.blinder_proof), refimpl::scalar_to_be(&pr.challenge)]) }.build();
    let (m, blind, r) = (refimpl::keygen(&x.bytes(8)), refimpl::keygen(&x.bytes(9)), refimpl::keygen(&x.bytes(10)));
    // the documented transcript through the reference prover: accepted, and decrypts to m*H
    let good = refimpl::elgamal_prove(&b, &pkp, &h, &m, &blind, &r);
    let gb = build(&good);
    let ok = rec.call(lib, g, Op::EgProofVerify, &[&gb, &a.pk]);
    rec.expect("C14", "honest-proof-verifies", ok.is_ok(), || format!("reference-made proof g={} | a proof over the documented transcript is rejected: {:?}", g.name(), ok));
    // its malleation: c2 + d*H with message_proof + c*d keeps the r2 equation; only the transcript (c2 is absorbed) stops it
    let d = refimpl::keygen(&x.bytes(11));
    let mal = refimpl::ElGamalProofRef { c1: good.c1, c2: good.c2.add(&h.mul(&d)), message_proof: good.message_proof + good.challenge * d, blinder_proof: good.blinder_proof, challenge: good.challenge };
    let o = rec.call(lib, g, Op::EgProofVerify, &[&build(&mal), &a.pk]);
    rec.expect("C14", "altered-proof-rejected", !o.is_ok(), || format!("c2+d*H with message_proof+c*d g={} | a proof whose ciphertext and message scalar were shifted together verifies", g.name()));
    // runs alternate between the groups: consecutive runs of one group walk through all variants 12 at a time
    let start = (plan.steps.first().map(|s| s.arg(0)).unwrap_or(0).max(0) as usize / 2 * 12) % variants.len();
    for k in 0..12 {
        let (name, with_dst, pairs) = &variants[(start + k) % variants.len()];
        let pr = refimpl::elgamal_prove_variant(&b, &pkp, &h, &m, &blind, &r, *with_dst, pairs);
        if pr.challenge == good.challenge {
            continue;
        }
        rec.fault("byz-near-miss-transcript");
        rec.case(&[14, g as u64, 60, (start + k) as u64], true);
        let pb = build(&pr);
        let o = rec.call(lib, g, Op::EgProofVerify, &[&pb, &a.pk]);
        rec.expect("C14", "altered-proof-rejected", !o.is_ok(), || format!("near-miss-transcript ({}) g={} | a proof whose challenge was derived over another transcript layout verifies", name, g.name()));
        let vd = rec.call(lib, g, Op::EgVerifyDecrypt, &[&pb, &a.sk]);
        rec.expect("C14", "altered-proof-rejected", !vd.is_ok(), || format!("near-miss-transcript ({}) verify_and_decrypt g={} | accepted", name, g.name()));
    }
    rec.sample(|| format!("g={} 12 of {} transcript near-misses from #{}", g.name(), variants.len(), start));
}

#[cfg(test)]
mod tests {
    #[test]
    fn big_count() {
        assert_eq!(super::big_lens().len(), 224);
    }
}
