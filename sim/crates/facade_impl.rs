// Byte-level facade over one blsful flavour. This file is `include!`d by each flavour crate
// (flav_blst, flav_rust, flav_pinned); in each of them the dependency named `blsful` is a
// different package (working tree/blst, working tree/rust, vendored pinned release), so the
// same source is compiled once against each. Only public API of blsful is used.

use blsful::inner_types::GroupEncoding;
use blsful::*;
use rand_chacha::ChaCha20Rng;
use rand_core::SeedableRng;
use simtypes::{Codec, Grp, Lib, Op, Out, Ty};
use std::panic::{catch_unwind, AssertUnwindSafe};

type R<T> = Result<T, String>;

/// Everything the two group-assignment marker types offer (needed because blsful derives
/// Default/PartialEq/Debug/serde on its generic types with a bound on the marker).
trait CI:
    BlsSignatureImpl + serde::Serialize + serde::de::DeserializeOwned + Default + PartialEq + Eq + core::fmt::Debug + Copy + 'static
{
}
impl<T> CI for T where
    T: BlsSignatureImpl + serde::Serialize + serde::de::DeserializeOwned + Default + PartialEq + Eq + core::fmt::Debug + Copy + 'static
{
}

fn e<E: core::fmt::Display>(x: E) -> String {
    let mut s = x.to_string();
    s.truncate(160);
    s
}


fn arg<'a>(a: &[&'a [u8]], i: usize) -> R<&'a [u8]> {
    a.get(i).copied().ok_or_else(|| format!("facade: missing argument {}", i))
}
fn scheme_of(b: &[u8]) -> R<SignatureSchemes> {
    match b {
        [0] => Ok(SignatureSchemes::Basic),
        [1] => Ok(SignatureSchemes::MessageAugmentation),
        [2] => Ok(SignatureSchemes::ProofOfPossession),
        _ => Err("facade: bad scheme byte".into()),
    }
}
/// A copy of `b` that does NOT start on an 8-byte boundary (a slice taken out of the middle of a frame): callers of the
/// trait-level routes hand over views into their own buffers, not fresh allocations.
struct Unaligned(Vec<u8>, usize);
impl Unaligned {
    fn of(b: &[u8]) -> Self {
        let mut v = vec![0u8; b.len() + 16];
        let base = v.as_ptr() as usize;
        let off = (8 - base % 8) % 8 + 1 + b.len() % 7;
        v[off..off + b.len()].copy_from_slice(b);
        Unaligned(v, off)
    }
    fn get(&self) -> &[u8] {
        &self.0[self.1..self.0.len() - 16 + self.1]
    }
}
fn u64_of(b: &[u8]) -> R<u64> {
    let a: [u8; 8] = b.try_into().map_err(|_| "facade: bad u64".to_string())?;
    Ok(u64::from_le_bytes(a))
}
fn seed32(b: &[u8]) -> R<[u8; 32]> {
    b.try_into().map_err(|_| "facade: bad seed32".to_string())
}
fn flag(c: bool) -> Vec<u8> {
    vec![c as u8]
}
fn ctopt(o: Option<Vec<u8>>) -> Vec<Vec<u8>> {
    match o {
        Some(v) => vec![vec![1u8], v],
        None => vec![vec![0u8]],
    }
}

/// The human-readable form through serde_json's three front ends: borrowed text, a reader (owned strings), a parsed `Value`.
fn json_dec<T: serde::de::DeserializeOwned>(c: Codec, b: &[u8]) -> R<T> {
    match c {
        Codec::JsonReader => serde_json::from_reader(b).map_err(e),
        Codec::JsonValue => {
            let v: serde_json::Value = serde_json::from_slice(b).map_err(e)?;
            serde_json::from_value(v).map_err(e)
        }
        _ => serde_json::from_slice(b).map_err(e),
    }
}
fn json_enc<T: serde::Serialize>(c: Codec, v: &T) -> R<Vec<u8>> {
    match c {
        Codec::JsonValue => serde_json::to_vec(&serde_json::to_value(v).map_err(e)?).map_err(e),
        _ => serde_json::to_vec(v).map_err(e),
    }
}

/// The harness-owned third serde format (simtypes::vtree): any type that implements the serde traits offers it.
fn tree_dec<T: serde::de::DeserializeOwned>(c: Codec, b: &[u8]) -> R<T> {
    simtypes::vtree::from_wire(b, c.tree_mode().ok_or("facade: not a tree codec")?).map_err(e)
}
fn tree_enc<T: serde::Serialize>(c: Codec, v: &T) -> R<Vec<u8>> {
    simtypes::vtree::to_wire(v, c.tree_mode().ok_or("facade: not a tree codec")?).map_err(e)
}

/// Encode / decode one data type in every codec it offers.
trait Wire: Sized {
    fn dec(c: Codec, b: &[u8]) -> R<Self>;
    fn enc(&self, c: Codec) -> R<Vec<u8>>;
    fn exercise(&self) {}
    /// the value after one of the value-preserving operations the type offers besides its codecs: `Clone::clone`, and —
    /// where implemented — `ConditionallySelectable::conditional_select` choosing it over the default value, from either
    /// argument position. None = the type offers none.
    fn copy_alt(&self, _route: u8) -> Option<Self> {
        None
    }
}

macro_rules! wire_std {
    ($t:ident) => {
        impl<C: CI> Wire for $t<C> {
            fn dec(c: Codec, b: &[u8]) -> R<Self> {
                match c {
                    Codec::Bytes => Self::try_from(b).map_err(e),
                    Codec::BytesVec => Self::try_from(b.to_vec()).map_err(e),
                    Codec::BytesRefVec => Self::try_from(&b.to_vec()).map_err(e),
                    Codec::BytesBox => Self::try_from(b.to_vec().into_boxed_slice()).map_err(e),
                    Codec::Bare => serde_bare::from_slice(b).map_err(e),
                    Codec::Json | Codec::JsonReader | Codec::JsonValue => json_dec(c, b),
                    Codec::TreeBin | Codec::TreeBinLend | Codec::TreeHr | Codec::TreeBinMap | Codec::TreeBinHint | Codec::TreeBinPacked => tree_dec(c, b),
                    _ => Err("facade: codec not offered by this type".into()),
                }
            }
            fn enc(&self, c: Codec) -> R<Vec<u8>> {
                match c {
                    Codec::Bytes | Codec::BytesRefVec | Codec::BytesBox => Ok(Vec::from(self)),
                    Codec::BytesVec => {
                        // the by-value conversion: needs an owned copy, obtained through the byte form
                        let copy = Self::try_from(Vec::from(self).as_slice()).map_err(e)?;
                        Ok(Vec::from(copy))
                    }
                    Codec::Bare => serde_bare::to_vec(self).map_err(e),
                    Codec::Json | Codec::JsonReader | Codec::JsonValue => json_enc(c, self),
                    Codec::TreeBin | Codec::TreeBinLend | Codec::TreeHr | Codec::TreeBinMap | Codec::TreeBinHint | Codec::TreeBinPacked => tree_enc(c, self),
                    _ => Err("facade: codec not offered by this type".into()),
                }
            }
            fn exercise(&self) {
                exercise::$t(self);
            }
            fn copy_alt(&self, route: u8) -> Option<Self> {
                copy_alt::$t(self, route)
            }
        }
    };
}

macro_rules! wire_scalar {
    ($t:ident) => {
        impl<C: CI> Wire for $t<C> {
            fn dec(c: Codec, b: &[u8]) -> R<Self> {
                match c {
                    Codec::Bytes => Self::try_from(b).map_err(e),
                    Codec::BytesVec => Self::try_from(b.to_vec()).map_err(e),
                    Codec::BytesRefVec => Self::try_from(&b.to_vec()).map_err(e),
                    Codec::BytesBox => Self::try_from(b.to_vec().into_boxed_slice()).map_err(e),
                    Codec::Bare => serde_bare::from_slice(b).map_err(e),
                    Codec::Json | Codec::JsonReader | Codec::JsonValue => json_dec(c, b),
                    Codec::TreeBin | Codec::TreeBinLend | Codec::TreeHr | Codec::TreeBinMap | Codec::TreeBinHint | Codec::TreeBinPacked => tree_dec(c, b),
                    Codec::Be => {
                        let a: [u8; 32] = b.try_into().map_err(|_| "bad length".to_string())?;
                        Option::from(Self::from_be_bytes(&a)).ok_or_else(|| "from_be_bytes: none".to_string())
                    }
                    Codec::Le => {
                        let a: [u8; 32] = b.try_into().map_err(|_| "bad length".to_string())?;
                        Option::from(Self::from_le_bytes(&a)).ok_or_else(|| "from_le_bytes: none".to_string())
                    }
                }
            }
            fn enc(&self, c: Codec) -> R<Vec<u8>> {
                match c {
                    Codec::Bytes | Codec::BytesRefVec | Codec::BytesBox => Ok(Vec::from(self)),
                    Codec::BytesVec => Ok(Vec::from(self.clone())),
                    Codec::Bare => serde_bare::to_vec(self).map_err(e),
                    Codec::Json | Codec::JsonReader | Codec::JsonValue => json_enc(c, self),
                    Codec::TreeBin | Codec::TreeBinLend | Codec::TreeHr | Codec::TreeBinMap | Codec::TreeBinHint | Codec::TreeBinPacked => tree_enc(c, self),
                    Codec::Be => Ok(self.to_be_bytes().to_vec()),
                    Codec::Le => Ok(self.to_le_bytes().to_vec()),
                }
            }
            fn exercise(&self) {
                let _ = format!("{:?}", self);
                let _ = self.to_be_bytes();
                let _ = self.to_le_bytes();
            }
            fn copy_alt(&self, _route: u8) -> Option<Self> {
                Some(self.clone())
            }
        }
    };
}

wire_scalar!(SecretKey);
wire_scalar!(ProofCommitmentSecret);
wire_scalar!(ProofCommitmentChallenge);
wire_std!(SecretKeyShare);
wire_std!(PublicKey);
wire_std!(PublicKeyShare);
wire_std!(Signature);
wire_std!(SignatureShare);
wire_std!(AggregateSignature);
wire_std!(MultiSignature);
wire_std!(MultiPublicKey);
wire_std!(ProofOfPossession);
wire_std!(ProofCommitment);
wire_std!(ProofOfKnowledge);
wire_std!(ProofOfKnowledgeTimestamp);
wire_std!(SignCryptCiphertext);
wire_std!(SignCryptDecryptionKey);
wire_std!(SignDecryptionShare);
wire_std!(TimeCryptCiphertext);
wire_std!(ElGamalCiphertext);
wire_std!(ElGamalProof);
wire_std!(ElGamalDecryptionShare);
wire_std!(ElGamalDecryptionKey);

macro_rules! wire_plain {
    ($t:ident) => {
        impl Wire for $t {
            fn dec(c: Codec, b: &[u8]) -> R<Self> {
                match c {
                    Codec::Bytes => Self::try_from(b).map_err(e),
                    Codec::BytesVec => Self::try_from(b.to_vec()).map_err(e),
                    Codec::BytesRefVec => Self::try_from(&b.to_vec()).map_err(e),
                    Codec::BytesBox => Self::try_from(b.to_vec().into_boxed_slice()).map_err(e),
                    Codec::Bare => serde_bare::from_slice(b).map_err(e),
                    Codec::Json | Codec::JsonReader | Codec::JsonValue => json_dec(c, b),
                    Codec::TreeBin | Codec::TreeBinLend | Codec::TreeHr | Codec::TreeBinMap | Codec::TreeBinHint | Codec::TreeBinPacked => tree_dec(c, b),
                    _ => Err("facade: codec not offered by this type".into()),
                }
            }
            fn enc(&self, c: Codec) -> R<Vec<u8>> {
                match c {
                    Codec::Bytes | Codec::BytesRefVec | Codec::BytesBox => Ok(Vec::from(self)),
                    Codec::BytesVec => Ok(Vec::from(self.clone())),
                    Codec::Bare => serde_bare::to_vec(self).map_err(e),
                    Codec::Json | Codec::JsonReader | Codec::JsonValue => json_enc(c, self),
                    Codec::TreeBin | Codec::TreeBinLend | Codec::TreeHr | Codec::TreeBinMap | Codec::TreeBinHint | Codec::TreeBinPacked => tree_enc(c, self),
                    _ => Err("facade: codec not offered by this type".into()),
                }
            }
            fn exercise(&self) {
                let _ = format!("{:?}", self);
            }
        }
    };
}
wire_plain!(InnerPointShareG1);
wire_plain!(InnerPointShareG2);

impl Wire for SecretKeyEnum {
    fn dec(c: Codec, b: &[u8]) -> R<Self> {
        match c {
            Codec::Bytes => Self::try_from(b).map_err(e),
            Codec::BytesVec => Self::try_from(b.to_vec()).map_err(e),
            Codec::BytesRefVec => Self::try_from(&b.to_vec()).map_err(e),
            Codec::BytesBox => Self::try_from(b.to_vec().into_boxed_slice()).map_err(e),
            Codec::Bare => serde_bare::from_slice(b).map_err(e),
            Codec::Json | Codec::JsonReader | Codec::JsonValue => json_dec(c, b),
                    Codec::TreeBin | Codec::TreeBinLend | Codec::TreeHr | Codec::TreeBinMap | Codec::TreeBinHint | Codec::TreeBinPacked => tree_dec(c, b),
            Codec::Be => Option::from(Self::from_be_bytes(b)).ok_or_else(|| "from_be_bytes: none".to_string()),
            Codec::Le => Option::from(Self::from_le_bytes(b)).ok_or_else(|| "from_le_bytes: none".to_string()),
        }
    }
    fn enc(&self, c: Codec) -> R<Vec<u8>> {
        match c {
            Codec::Bytes | Codec::BytesRefVec | Codec::BytesBox => Ok(Vec::from(self)),
            Codec::BytesVec => Ok(Vec::from(self.clone())),
            Codec::Bare => serde_bare::to_vec(self).map_err(e),
            Codec::Json | Codec::JsonReader | Codec::JsonValue => json_enc(c, self),
                    Codec::TreeBin | Codec::TreeBinLend | Codec::TreeHr | Codec::TreeBinMap | Codec::TreeBinHint | Codec::TreeBinPacked => tree_enc(c, self),
            Codec::Be => Ok(self.to_be_bytes()),
            Codec::Le => Ok(self.to_le_bytes()),
        }
    }
    fn exercise(&self) {
        let _ = format!("{:?}", self);
        let _ = self.to_be_bytes();
        let _ = self.to_le_bytes();
    }
}

impl Wire for SignatureSchemes {
    fn dec(c: Codec, b: &[u8]) -> R<Self> {
        match c {
            Codec::Bytes => match b {
                [x] => Ok(SignatureSchemes::from(*x)),
                _ => Err("bad length".into()),
            },
            Codec::Bare => serde_bare::from_slice(b).map_err(e),
            Codec::Json | Codec::JsonReader | Codec::JsonValue => json_dec(c, b),
                    Codec::TreeBin | Codec::TreeBinLend | Codec::TreeHr | Codec::TreeBinMap | Codec::TreeBinHint | Codec::TreeBinPacked => tree_dec(c, b),
            _ => Err("facade: codec not offered by this type".into()),
        }
    }
    fn enc(&self, c: Codec) -> R<Vec<u8>> {
        match c {
            Codec::Bytes => Ok(vec![*self as u8]),
            Codec::Bare => serde_bare::to_vec(self).map_err(e),
            Codec::Json | Codec::JsonReader | Codec::JsonValue => json_enc(c, self),
                    Codec::TreeBin | Codec::TreeBinLend | Codec::TreeHr | Codec::TreeBinMap | Codec::TreeBinHint | Codec::TreeBinPacked => tree_enc(c, self),
            _ => Err("facade: codec not offered by this type".into()),
        }
    }
    fn exercise(&self) {
        let s = format!("{}", self);
        let _ = format!("{:?}", self);
        let _ = SignatureSchemes::from(s.as_str());
        let _ = s.parse::<SignatureSchemes>();
    }
}

impl Wire for Bls12381 {
    fn dec(c: Codec, b: &[u8]) -> R<Self> {
        match c {
            Codec::Bytes => match b {
                [x] => Bls12381::try_from(*x).map_err(e),
                _ => Err("bad length".into()),
            },
            Codec::Bare => serde_bare::from_slice(b).map_err(e),
            Codec::Json | Codec::JsonReader | Codec::JsonValue => json_dec(c, b),
                    Codec::TreeBin | Codec::TreeBinLend | Codec::TreeHr | Codec::TreeBinMap | Codec::TreeBinHint | Codec::TreeBinPacked => tree_dec(c, b),
            _ => Err("facade: codec not offered by this type".into()),
        }
    }
    fn enc(&self, c: Codec) -> R<Vec<u8>> {
        match c {
            Codec::Bytes => Ok(vec![u8::from(self)]),
            Codec::Bare => serde_bare::to_vec(self).map_err(e),
            Codec::Json | Codec::JsonReader | Codec::JsonValue => json_enc(c, self),
                    Codec::TreeBin | Codec::TreeBinLend | Codec::TreeHr | Codec::TreeBinMap | Codec::TreeBinHint | Codec::TreeBinPacked => tree_enc(c, self),
            _ => Err("facade: codec not offered by this type".into()),
        }
    }
    fn exercise(&self) {
        let s = format!("{}", self);
        let _ = format!("{:?}", self);
        let _ = s.parse::<Bls12381>();
    }
}

/// "call every accessor on whatever a decoder returned" (C17). Nothing here may unwind.
#[allow(non_snake_case)]
mod exercise {
    use super::*;

    fn probe_sk<C: CI>() -> SecretKey<C> {
        SecretKey::<C>::from_hash(b"facade-exercise-key")
    }

    pub fn SecretKeyShare<C: CI>(v: &super::SecretKeyShare<C>) {
        let _ = format!("{:?}", v);
        let _ = v.as_raw_value();
        let _ = v.public_key();
        let _ = v.sign(SignatureSchemes::Basic, b"m");
        let _ = v.sign(SignatureSchemes::ProofOfPossession, b"");
        let _ = v.sign(SignatureSchemes::MessageAugmentation, b"m");
        let _ = SecretKey::<C>::combine(&[v.clone(), v.clone()]);
        let _ = SecretKey::<C>::combine(&[v.clone()]);
    }
    pub fn PublicKey<C: CI>(v: &super::PublicKey<C>) {
        let _ = format!("{} {:?}", v, v);
        let _ = v.sign_crypt(SignatureSchemes::Basic, b"");
        let _ = v.encrypt_time_lock(SignatureSchemes::Basic, b"", b"");
        let _ = v.encrypt_key_el_gamal(&probe_sk::<C>());
        let _ = v.encrypt_key_el_gamal_with_proof(&probe_sk::<C>());
        let _ = MultiPublicKey::<C>::from_public_keys([*v, *v]);
        let _ = Signature::<C>::default().verify(v, b"");
    }
    pub fn PublicKeyShare<C: CI>(v: &super::PublicKeyShare<C>) {
        let _ = format!("{} {:?}", v, v);
        let _ = super::PublicKey::<C>::from_shares(&[*v, *v]);
        let _ = super::PublicKey::<C>::from_shares(&[*v]);
        let _ = v.verify(&super::SignatureShare::<C>::default(), b"");
    }
    pub fn Signature<C: CI>(v: &super::Signature<C>) {
        let _ = format!("{} {:?}", v, v);
        let _ = v.as_raw_value();
        let _ = v.same_scheme(v);
        let _ = v.verify(&probe_sk::<C>().public_key(), b"");
        let _ = v.verify(&super::PublicKey::<C>::default(), b"x");
        let _ = AggregateSignature::<C>::from_signatures([*v, *v]);
        let _ = AggregateSignature::<C>::from_signatures([*v]);
        let _ = MultiSignature::<C>::from_signatures([*v, *v]);
        let _ = MultiSignature::<C>::from_signatures([*v]);
        let _ = ProofCommitment::<C>::generate(b"", *v);
        let _ = ProofOfKnowledgeTimestamp::<C>::generate(b"", *v);
    }
    pub fn SignatureShare<C: CI>(v: &super::SignatureShare<C>) {
        let _ = format!("{} {:?}", v, v);
        let _ = v.as_raw_value();
        let _ = v.same_scheme(v);
        let _ = super::Signature::<C>::from_shares(&[*v, *v]);
        let _ = super::Signature::<C>::from_shares(&[*v]);
        let _ = super::Signature::<C>::from_shares(&[]);
    }
    pub fn AggregateSignature<C: CI>(v: &super::AggregateSignature<C>) {
        let _ = format!("{} {:?}", v, v);
        let pk = probe_sk::<C>().public_key();
        let _ = v.verify(&[(pk, b"a".to_vec()), (pk, b"b".to_vec())]);
        let _ = v.verify::<Vec<u8>>(&[]);
        let _ = v.verify(&[(super::PublicKey::<C>::default(), b"a".to_vec())]);
    }
    pub fn MultiSignature<C: CI>(v: &super::MultiSignature<C>) {
        let _ = format!("{} {:?}", v, v);
        let _ = v.as_raw_value();
        let _ = v.verify(MultiPublicKey::<C>::default(), b"");
        let _ = v.verify(MultiPublicKey::<C>::from_public_keys([probe_sk::<C>().public_key()]), b"m");
    }
    pub fn MultiPublicKey<C: CI>(v: &super::MultiPublicKey<C>) {
        let _ = format!("{} {:?}", v, v);
        let _ = super::MultiSignature::<C>::default().verify(*v, b"");
    }
    pub fn ProofOfPossession<C: CI>(v: &super::ProofOfPossession<C>) {
        let _ = format!("{} {:?}", v, v);
        let _ = v.verify(probe_sk::<C>().public_key());
        let _ = v.verify(super::PublicKey::<C>::default());
    }
    pub fn ProofCommitment<C: CI>(v: &super::ProofCommitment<C>) {
        let _ = format!("{} {:?}", v, v);
        let sk = probe_sk::<C>();
        for s in [SignatureSchemes::Basic, SignatureSchemes::MessageAugmentation, SignatureSchemes::ProofOfPossession] {
            if let Ok(sig) = sk.sign(s, b"m") {
                let _ = v.finalize(
                    ProofCommitmentSecret::<C>::default(),
                    ProofCommitmentChallenge::<C>::from_hash(b"c"),
                    sig,
                );
            }
        }
    }
    pub fn ProofOfKnowledge<C: CI>(v: &super::ProofOfKnowledge<C>) {
        let _ = format!("{} {:?}", v, v);
        let _ = v.verify(probe_sk::<C>().public_key(), b"m", ProofCommitmentChallenge::<C>::from_hash(b"c"));
        let _ = v.verify(super::PublicKey::<C>::default(), b"", ProofCommitmentChallenge::<C>::default());
    }
    pub fn ProofOfKnowledgeTimestamp<C: CI>(v: &super::ProofOfKnowledgeTimestamp<C>) {
        let _ = format!("{} {:?}", v, v);
        let pk = probe_sk::<C>().public_key();
        for t in [None, Some(0u64), Some(1), Some(1000), Some(u64::MAX), Some(1u64 << 63)] {
            let _ = v.verify(pk, b"m", t);
        }
    }
    pub fn SignCryptCiphertext<C: CI>(v: &super::SignCryptCiphertext<C>) {
        let _ = format!("{} {:?}", v, v);
        let sk = probe_sk::<C>();
        let _ = v.is_valid();
        let _: Option<Vec<u8>> = v.decrypt(&sk).into();
        let _: Option<Vec<u8>> = v.decrypt_with_shares::<&[super::SignDecryptionShare<C>]>(&[]).into();
        let dk = sk.sign_decryption_key::<&[u8]>(v);
        let _: Option<Vec<u8>> = dk.decrypt(v).into();
        if let Ok(shares) = sk.split_with_rng(2, 3, ChaCha20Rng::from_seed([3u8; 32])) {
            let ds: Vec<_> = shares.iter().filter_map(|s| v.create_decryption_share(s).ok()).collect();
            let _: Option<Vec<u8>> = v.decrypt_with_shares(&ds).into();
            let _ = SignCryptDecryptionKey::<C>::from_shares(&ds);
            if let (Some(d), Ok(p)) = (ds.first(), shares[0].public_key()) {
                let _ = d.verify(&p, v);
            }
        }
    }
    pub fn SignCryptDecryptionKey<C: CI>(v: &super::SignCryptDecryptionKey<C>) {
        let _ = format!("{:?}", v);
        let ct = probe_sk::<C>().public_key().sign_crypt(SignatureSchemes::Basic, b"m");
        let _: Option<Vec<u8>> = v.decrypt(&ct).into();
        let _: Option<Vec<u8>> = v.decrypt(&super::SignCryptCiphertext::<C>::default()).into();
    }
    pub fn SignDecryptionShare<C: CI>(v: &super::SignDecryptionShare<C>) {
        let _ = format!("{:?}", v);
        let _ = super::SignCryptDecryptionKey::<C>::from_shares(&[v.clone(), v.clone()]);
        let _ = super::SignCryptDecryptionKey::<C>::from_shares(&[v.clone()]);
        let ct = probe_sk::<C>().public_key().sign_crypt(SignatureSchemes::Basic, b"m");
        let _: Option<Vec<u8>> = ct.decrypt_with_shares(&[v.clone(), v.clone()]).into();
        let _ = v.verify(&super::PublicKeyShare::<C>(v.0), &ct);
    }
    pub fn TimeCryptCiphertext<C: CI>(v: &super::TimeCryptCiphertext<C>) {
        let _ = format!("{:?}", v);
        let sk = probe_sk::<C>();
        let _: Option<Vec<u8>> = v.decrypt(&super::Signature::<C>::default()).into();
        for s in [SignatureSchemes::Basic, SignatureSchemes::MessageAugmentation, SignatureSchemes::ProofOfPossession] {
            if let Ok(sig) = sk.sign(s, b"id") {
                let _: Option<Vec<u8>> = v.decrypt(&sig).into();
            }
        }
    }
    pub fn ElGamalCiphertext<C: CI>(v: &super::ElGamalCiphertext<C>) {
        let _ = format!("{} {:?}", v, v);
        let _ = v.decrypt(&probe_sk::<C>());
        let mut w = *v + *v;
        w += v;
        w += *v;
        let _ = &w + v;
        let _ = super::ElGamalDecryptionKey::<C>::default().decrypt(v);
    }
    pub fn ElGamalProof<C: CI>(v: &super::ElGamalProof<C>) {
        let _ = format!("{} {:?}", v, v);
        let sk = probe_sk::<C>();
        let _ = v.verify(sk.public_key());
        let _ = v.verify(super::PublicKey::<C>::default());
        let _ = v.verify_and_decrypt(&sk);
        let _ = v.verify_and_decrypt(&SecretKey::<C>::default());
    }
    pub fn ElGamalDecryptionShare<C: CI>(v: &super::ElGamalDecryptionShare<C>) {
        let _ = format!("{:?}", v);
        let _ = ElGamalDecryptionKey::<C>::from_shares(&[v.clone(), v.clone()]);
        let _ = ElGamalDecryptionKey::<C>::from_shares(&[v.clone()]);
    }
    pub fn ElGamalDecryptionKey<C: CI>(v: &super::ElGamalDecryptionKey<C>) {
        let _ = v.decrypt(&super::ElGamalCiphertext::<C>::default());
        let _ = v.clone();
    }
}


/// `Clone` for every type; `conditional_select` for the types that implement it (choosing the value over the type's default
/// from the second position with choice 1, from the first with choice 0)
#[allow(non_snake_case)]
mod copy_alt {
    use super::*;
    use subtle_like::*;
    macro_rules! cloned {
        ($($t:ident),*) => { $(pub fn $t<C: CI>(v: &super::$t<C>, _route: u8) -> Option<super::$t<C>> { Some(v.clone()) })* };
    }
    // `conditional_select` between values of DIFFERENT scheme variants panics by documented design (it is an in-memory
    // helper, not a consumer of foreign data), so the other value must carry the same variant: the type's default is the
    // Basic variant; for values of another variant the selection is made between the value and a copy of itself
    macro_rules! selected {
        ($tagged:expr; $($t:ident),*) => { $(pub fn $t<C: CI>(v: &super::$t<C>, route: u8) -> Option<super::$t<C>> {
            let dflt = super::$t::<C>::default();
            let same_variant = !$tagged || Vec::from(v).first() == Vec::from(&dflt).first();
            let other = if same_variant { dflt } else { v.clone() };
            Some(match route % 4 {
                0 => v.clone(),
                1 => <super::$t<C> as ConditionallySelectable>::conditional_select(&other, v, Choice::from(1u8)),
                2 => <super::$t<C> as ConditionallySelectable>::conditional_select(v, &other, Choice::from(0u8)),
                _ => {
                    // cloned ONTO the type's default (another scheme label for most labelled values)
                    let mut dst = super::$t::<C>::default();
                    dst.clone_from(v);
                    dst
                }
            })
        })* };
    }
    // `Clone::clone_from` is a method of its own (types may override it "to reuse a buffer"): the value is cloned ONTO another
    // value of the type — the default, which for the labelled types carries another scheme label than most values
    macro_rules! cloned_onto_default {
        ($($t:ident),*) => { $(pub fn $t<C: CI>(v: &super::$t<C>, route: u8) -> Option<super::$t<C>> {
            if route % 2 == 0 {
                Some(v.clone())
            } else {
                let mut dst = super::$t::<C>::default();
                dst.clone_from(v);
                Some(dst)
            }
        })* };
    }
    cloned!(SecretKeyShare, SignDecryptionShare, ElGamalDecryptionShare);
    cloned_onto_default!(SignCryptCiphertext, SignCryptDecryptionKey, TimeCryptCiphertext, ElGamalProof, ElGamalDecryptionKey);
    pub fn PublicKeyShare<C: CI>(v: &super::PublicKeyShare<C>, route: u8) -> Option<super::PublicKeyShare<C>> {
        // another value of the type: the same share under another identifier
        let mut b = Vec::from(v);
        *b.first_mut()? ^= 0x55;
        let other = super::PublicKeyShare::<C>::try_from(b.as_slice()).ok()?;
        Some(match route % 3 {
            0 => v.clone(),
            1 => <super::PublicKeyShare<C> as ConditionallySelectable>::conditional_select(&other, v, Choice::from(1u8)),
            _ => <super::PublicKeyShare<C> as ConditionallySelectable>::conditional_select(v, &other, Choice::from(0u8)),
        })
    }
    selected!(false; PublicKey, MultiPublicKey, ProofOfPossession, ElGamalCiphertext);
    selected!(true; Signature, SignatureShare, AggregateSignature, MultiSignature, ProofCommitment, ProofOfKnowledge, ProofOfKnowledgeTimestamp);
}
mod subtle_like {
    pub use subtle::{Choice, ConditionallySelectable};
}

/// secret keys and PoK scalars: the byte decoders refuse zero, but C04 needs the zero value
/// to reach the signing entry points, so 32 zero bytes map to the type's Default (zero).
fn sk_lenient<C: CI>(b: &[u8]) -> R<SecretKey<C>> {
    if b.len() == 32 && b.iter().all(|x| *x == 0) {
        return Ok(SecretKey::<C>::default());
    }
    SecretKey::<C>::try_from(b).map_err(e)
}
fn chal_lenient<C: CI>(b: &[u8]) -> R<ProofCommitmentChallenge<C>> {
    if b.len() == 32 && b.iter().all(|x| *x == 0) {
        return Ok(ProofCommitmentChallenge::<C>::default());
    }
    ProofCommitmentChallenge::<C>::try_from(b).map_err(e)
}
fn secret_lenient<C: CI>(b: &[u8]) -> R<ProofCommitmentSecret<C>> {
    if b.len() == 32 && b.iter().all(|x| *x == 0) {
        return Ok(ProofCommitmentSecret::<C>::default());
    }
    ProofCommitmentSecret::<C>::try_from(b).map_err(e)
}
fn pt<P: GroupEncoding>(p: &P) -> Vec<u8> {
    p.to_bytes().as_ref().to_vec()
}

macro_rules! with_ty {
    ($ty:expr, $C:ident, $f:ident ( $($a:expr),* )) => {
        match $ty {
            Ty::SecretKey => $f::<SecretKey<$C>>($($a),*),
            Ty::SecretKeyShare => $f::<SecretKeyShare<$C>>($($a),*),
            Ty::PublicKey => $f::<PublicKey<$C>>($($a),*),
            Ty::PublicKeyShare => $f::<PublicKeyShare<$C>>($($a),*),
            Ty::Signature => $f::<Signature<$C>>($($a),*),
            Ty::SignatureShare => $f::<SignatureShare<$C>>($($a),*),
            Ty::AggregateSignature => $f::<AggregateSignature<$C>>($($a),*),
            Ty::MultiSignature => $f::<MultiSignature<$C>>($($a),*),
            Ty::MultiPublicKey => $f::<MultiPublicKey<$C>>($($a),*),
            Ty::ProofOfPossession => $f::<ProofOfPossession<$C>>($($a),*),
            Ty::ProofCommitment => $f::<ProofCommitment<$C>>($($a),*),
            Ty::ProofCommitmentSecret => $f::<ProofCommitmentSecret<$C>>($($a),*),
            Ty::ProofCommitmentChallenge => $f::<ProofCommitmentChallenge<$C>>($($a),*),
            Ty::ProofOfKnowledge => $f::<ProofOfKnowledge<$C>>($($a),*),
            Ty::ProofOfKnowledgeTimestamp => $f::<ProofOfKnowledgeTimestamp<$C>>($($a),*),
            Ty::SignCryptCiphertext => $f::<SignCryptCiphertext<$C>>($($a),*),
            Ty::SignCryptDecryptionKey => $f::<SignCryptDecryptionKey<$C>>($($a),*),
            Ty::SignDecryptionShare => $f::<SignDecryptionShare<$C>>($($a),*),
            Ty::TimeCryptCiphertext => $f::<TimeCryptCiphertext<$C>>($($a),*),
            Ty::ElGamalCiphertext => $f::<ElGamalCiphertext<$C>>($($a),*),
            Ty::ElGamalProof => $f::<ElGamalProof<$C>>($($a),*),
            Ty::ElGamalDecryptionShare => $f::<ElGamalDecryptionShare<$C>>($($a),*),
            Ty::ElGamalDecryptionKey => $f::<ElGamalDecryptionKey<$C>>($($a),*),
            Ty::SecretKeyEnum => $f::<SecretKeyEnum>($($a),*),
            Ty::InnerPointShareG1 => $f::<InnerPointShareG1>($($a),*),
            Ty::InnerPointShareG2 => $f::<InnerPointShareG2>($($a),*),
            Ty::SignatureSchemes => $f::<SignatureSchemes>($($a),*),
            Ty::Bls12381 => $f::<Bls12381>($($a),*),
        }
    };
}

fn do_recode<T: Wire>(ci: Codec, co: Codec, b: &[u8]) -> R<Vec<Vec<u8>>> {
    let v = T::dec(ci, b)?;
    Ok(vec![v.enc(co)?])
}
fn do_recode_alt<T: Wire>(ci: Codec, co: Codec, b: &[u8], route: u8) -> R<Vec<Vec<u8>>> {
    let v = T::dec(ci, b)?;
    let v = v.copy_alt(route).unwrap_or(v);
    Ok(vec![v.enc(co)?])
}
fn do_eq<T: Wire + PartialEq>(ca: Codec, a: &[u8], cb: Codec, b: &[u8]) -> R<Vec<Vec<u8>>> {
    let x = T::dec(ca, a)?;
    let y = T::dec(cb, b)?;
    Ok(vec![flag(x == y)])
}
fn do_exercise<T: Wire>(ci: Codec, b: &[u8]) -> R<Vec<Vec<u8>>> {
    let v = T::dec(ci, b)?;
    v.exercise();
    for c in Codec::ALL.iter().chain(Codec::JSON_FRONT_ENDS.iter()).chain(Codec::TREE_FORMATS.iter()) {
        let _ = v.enc(*c);
    }
    Ok(vec![])
}

fn many<T, F: Fn(&[u8]) -> R<T>>(a: &[&[u8]], from: usize, f: F) -> R<Vec<T>> {
    a.iter().skip(from).map(|b| f(b)).collect()
}

fn dispatch<C: CI>(op: Op, a: &[&[u8]]) -> R<Vec<Vec<u8>>> {
    let tag: Bls12381 = if core::any::TypeId::of::<C>() == core::any::TypeId::of::<Bls12381G1Impl>() {
        Bls12381::G1
    } else {
        Bls12381::G2
    };
    match op {
        Op::KeyFromHash => Ok(vec![Vec::from(&SecretKey::<C>::from_hash(arg(a, 0)?))]),
        Op::KeyRandomSeeded => {
            let rng = ChaCha20Rng::from_seed(seed32(arg(a, 0)?)?);
            Ok(vec![Vec::from(&SecretKey::<C>::random(rng))])
        }
        Op::KeyNew => Ok(vec![Vec::from(&SecretKey::<C>::new())]),
        Op::KeyNewViaBls => Ok(vec![Vec::from(&BlsSignature::<C>::new_secret_key())]),
        Op::KeyFromHashViaBls => Ok(vec![Vec::from(&BlsSignature::<C>::secret_key_from_hash(arg(a, 0)?))]),
        Op::KeyRandomViaBls => {
            let rng = ChaCha20Rng::from_seed(seed32(arg(a, 0)?)?);
            Ok(vec![Vec::from(&BlsSignature::<C>::random_secret_key(rng))])
        }
        Op::PublicKey => Ok(vec![Vec::from(&sk_lenient::<C>(arg(a, 0)?)?.public_key())]),
        Op::PublicKeyFrom => Ok(vec![Vec::from(&PublicKey::<C>::from(&sk_lenient::<C>(arg(a, 0)?)?))]),
        Op::Sign => {
            let sk = sk_lenient::<C>(arg(a, 0)?)?;
            let sig = sk.sign(scheme_of(arg(a, 1)?)?, arg(a, 2)?).map_err(e)?;
            Ok(vec![Vec::from(&sig)])
        }
        Op::Verify => {
            let sig = Signature::<C>::try_from(arg(a, 0)?).map_err(e)?;
            let pk = PublicKey::<C>::try_from(arg(a, 1)?).map_err(e)?;
            sig.verify(&pk, arg(a, 2)?).map_err(e)?;
            Ok(vec![])
        }
        Op::Pop => Ok(vec![Vec::from(&sk_lenient::<C>(arg(a, 0)?)?.proof_of_possession().map_err(e)?)]),
        Op::PopVerify => {
            let pop = ProofOfPossession::<C>::try_from(arg(a, 0)?).map_err(e)?;
            let pk = PublicKey::<C>::try_from(arg(a, 1)?).map_err(e)?;
            pop.verify(pk).map_err(e)?;
            Ok(vec![])
        }
        Op::Aggregate => {
            let sigs = many(a, 0, |b| Signature::<C>::try_from(b).map_err(e))?;
            Ok(vec![Vec::from(&AggregateSignature::<C>::from_signatures(&sigs).map_err(e)?)])
        }
        Op::AggVerify => {
            let agg = AggregateSignature::<C>::try_from(arg(a, 0)?).map_err(e)?;
            let mut data = Vec::new();
            let mut i = 1;
            while i + 1 < a.len() {
                data.push((PublicKey::<C>::try_from(a[i]).map_err(e)?, a[i + 1].to_vec()));
                i += 2;
            }
            agg.verify(&data).map_err(e)?;
            Ok(vec![])
        }
        Op::CoreSign => {
            let sk = sk_lenient::<C>(arg(a, 0)?)?;
            let sig = <C as BlsSignatureCore>::core_sign(&sk.0, arg(a, 1)?, arg(a, 2)?).map_err(e)?;
            Ok(vec![sig.to_bytes().as_ref().to_vec()])
        }
        Op::CoreVerify => {
            let pk = PublicKey::<C>::try_from(arg(a, 0)?).map_err(e)?;
            // the signature point through the Basic signature decoder (checked), then handed over bare
            let mut tagged = vec![0u8];
            tagged.extend_from_slice(arg(a, 1)?);
            let sp = match Signature::<C>::try_from(tagged.as_slice()).map_err(e)? {
                Signature::Basic(p) | Signature::MessageAugmentation(p) | Signature::ProofOfPossession(p) => p,
            };
            <C as BlsSignatureCore>::core_verify(pk.0, sp, arg(a, 2)?, arg(a, 3)?).map_err(e)?;
            Ok(vec![])
        }
        Op::AggVerifyTrait => {
            // the trait-level entry points take ANY iterator: exact-size, filtered (lower bound 0), generated, chained, flattened
            let kind = *arg(a, 0)?.first().ok_or("kind")?;
            let agg = AggregateSignature::<C>::try_from(arg(a, 1)?).map_err(e)?;
            let mut data: Vec<(<C as Pairing>::PublicKey, Vec<u8>)> = Vec::new();
            let mut i = 2;
            while i + 1 < a.len() {
                data.push((PublicKey::<C>::try_from(a[i]).map_err(e)?.0, a[i + 1].to_vec()));
                i += 2;
            }
            fn run<C: CI, P: Iterator<Item = (<C as Pairing>::PublicKey, Vec<u8>)>>(agg: &AggregateSignature<C>, it: P) -> BlsResult<()> {
                match agg {
                    AggregateSignature::Basic(s) => <C as BlsSignatureBasic>::aggregate_verify(it, *s),
                    AggregateSignature::MessageAugmentation(s) => <C as BlsSignatureMessageAugmentation>::aggregate_verify(it, *s),
                    AggregateSignature::ProofOfPossession(s) => <C as BlsSignaturePop>::aggregate_verify(it, *s),
                }
            }
            let half = data.len() / 2;
            match kind {
                0 => run::<C, _>(&agg, data.into_iter()),
                1 => run::<C, _>(&agg, data.into_iter().filter(|_| true)),
                2 => {
                    let mut it = data.into_iter();
                    run::<C, _>(&agg, std::iter::from_fn(move || it.next()))
                }
                3 => {
                    let tail = data.split_off(half);
                    run::<C, _>(&agg, data.into_iter().chain(tail))
                }
                4 => run::<C, _>(&agg, data.into_iter().flat_map(|e| std::iter::once(e))),
                // NOT fused (a paged source, `mpsc::Receiver::try_iter`): the list ends at the first None; what the source
                // yields when it is asked again after that is not part of the list
                5 => {
                    // the first half, None, then the second half
                    let mut it = data.into_iter();
                    let mut n = 0usize;
                    run::<C, _>(&agg, std::iter::from_fn(move || {
                        n += 1;
                        if n == half + 1 { None } else { it.next() }
                    }))
                }
                _ => {
                    // the whole list, None, then the whole list once more
                    let again = data.clone();
                    let len = data.len();
                    let mut it = data.into_iter().chain(again);
                    let mut n = 0usize;
                    run::<C, _>(&agg, std::iter::from_fn(move || {
                        n += 1;
                        if n == len + 1 { None } else { it.next() }
                    }))
                }
            }
            .map_err(e)?;
            Ok(vec![])
        }
        Op::MultiSig => {
            let sigs = many(a, 0, |b| Signature::<C>::try_from(b).map_err(e))?;
            Ok(vec![Vec::from(&MultiSignature::<C>::from_signatures(&sigs).map_err(e)?)])
        }
        Op::MultiPk => {
            let pks = many(a, 0, |b| PublicKey::<C>::try_from(b).map_err(e))?;
            Ok(vec![Vec::from(&MultiPublicKey::<C>::from_public_keys(&pks))])
        }
        Op::MultiVerify => {
            let ms = MultiSignature::<C>::try_from(arg(a, 0)?).map_err(e)?;
            let mpk = MultiPublicKey::<C>::try_from(arg(a, 1)?).map_err(e)?;
            ms.verify(mpk, arg(a, 2)?).map_err(e)?;
            Ok(vec![])
        }
        Op::Split => {
            let sk = sk_lenient::<C>(arg(a, 0)?)?;
            let rng = ChaCha20Rng::from_seed(seed32(arg(a, 3)?)?);
            let shares = sk
                .split_with_rng(u64_of(arg(a, 1)?)? as usize, u64_of(arg(a, 2)?)? as usize, rng)
                .map_err(e)?;
            Ok(shares.iter().map(Vec::from).collect())
        }
        Op::SplitEntropy => {
            let sk = sk_lenient::<C>(arg(a, 0)?)?;
            let shares = sk.split(u64_of(arg(a, 1)?)? as usize, u64_of(arg(a, 2)?)? as usize).map_err(e)?;
            Ok(shares.iter().map(Vec::from).collect())
        }
        Op::Combine => {
            let shares = many(a, 0, |b| SecretKeyShare::<C>::try_from(b).map_err(e))?;
            Ok(vec![Vec::from(&SecretKey::<C>::combine(&shares).map_err(e)?)])
        }
        Op::SharePk => {
            let s = SecretKeyShare::<C>::try_from(arg(a, 0)?).map_err(e)?;
            Ok(vec![Vec::from(&s.public_key().map_err(e)?)])
        }
        Op::ShareSign => {
            let s = SecretKeyShare::<C>::try_from(arg(a, 0)?).map_err(e)?;
            Ok(vec![Vec::from(&s.sign(scheme_of(arg(a, 1)?)?, arg(a, 2)?).map_err(e)?)])
        }
        Op::PkShareVerify => {
            let p = PublicKeyShare::<C>::try_from(arg(a, 0)?).map_err(e)?;
            let s = SignatureShare::<C>::try_from(arg(a, 1)?).map_err(e)?;
            p.verify(&s, arg(a, 2)?).map_err(e)?;
            Ok(vec![])
        }
        Op::SigShareVerify => {
            let s = SignatureShare::<C>::try_from(arg(a, 0)?).map_err(e)?;
            let p = PublicKeyShare::<C>::try_from(arg(a, 1)?).map_err(e)?;
            s.verify(&p, arg(a, 2)?).map_err(e)?;
            Ok(vec![])
        }
        Op::SigFromShares => {
            let s = many(a, 0, |b| SignatureShare::<C>::try_from(b).map_err(e))?;
            Ok(vec![Vec::from(&Signature::<C>::from_shares(&s).map_err(e)?)])
        }
        Op::PkFromShares => {
            let s = many(a, 0, |b| PublicKeyShare::<C>::try_from(b).map_err(e))?;
            Ok(vec![Vec::from(&PublicKey::<C>::from_shares(&s).map_err(e)?)])
        }
        Op::PokCommit => {
            let sig = Signature::<C>::try_from(arg(a, 1)?).map_err(e)?;
            let (c, x) = ProofCommitment::<C>::generate(arg(a, 0)?, sig).map_err(e)?;
            Ok(vec![Vec::from(&c), Vec::from(&x)])
        }
        Op::ChallengeNew => Ok(vec![Vec::from(&ProofCommitmentChallenge::<C>::new())]),
        Op::ChallengeNewViaBls => Ok(vec![Vec::from(&BlsSignature::<C>::new_proof_challenge())]),
        Op::ChallengeFromHash => Ok(vec![Vec::from(&ProofCommitmentChallenge::<C>::from_hash(arg(a, 0)?))]),
        Op::ChallengeRandom => {
            let rng = ChaCha20Rng::from_seed(seed32(arg(a, 0)?)?);
            Ok(vec![Vec::from(&ProofCommitmentChallenge::<C>::random(rng))])
        }
        Op::PokFinalize => {
            let c = ProofCommitment::<C>::try_from(arg(a, 0)?).map_err(e)?;
            let x = secret_lenient::<C>(arg(a, 1)?)?;
            let y = chal_lenient::<C>(arg(a, 2)?)?;
            let sig = Signature::<C>::try_from(arg(a, 3)?).map_err(e)?;
            Ok(vec![Vec::from(&c.finalize(x, y, sig).map_err(e)?)])
        }
        Op::PokVerify => {
            let p = ProofOfKnowledge::<C>::try_from(arg(a, 0)?).map_err(e)?;
            let pk = PublicKey::<C>::try_from(arg(a, 1)?).map_err(e)?;
            let y = chal_lenient::<C>(arg(a, 3)?)?;
            p.verify(pk, arg(a, 2)?, y).map_err(e)?;
            Ok(vec![])
        }
        Op::PokTsGenerate => {
            let sig = Signature::<C>::try_from(arg(a, 1)?).map_err(e)?;
            Ok(vec![Vec::from(&ProofOfKnowledgeTimestamp::<C>::generate(arg(a, 0)?, sig).map_err(e)?)])
        }
        Op::PokTsVerify => {
            let p = ProofOfKnowledgeTimestamp::<C>::try_from(arg(a, 0)?).map_err(e)?;
            let pk = PublicKey::<C>::try_from(arg(a, 1)?).map_err(e)?;
            let t = arg(a, 3)?;
            let timeout = if t.is_empty() { None } else { Some(u64_of(t)?) };
            let msg = arg(a, 2)?;
            // arguments are decoded: from here to the return the simulator may let time flow with the work done
            let _w = simtypes::Working::begin();
            p.verify(pk, msg, timeout).map_err(e)?;
            Ok(vec![])
        }
        Op::SignCrypt => {
            let pk = PublicKey::<C>::try_from(arg(a, 0)?).map_err(e)?;
            Ok(vec![Vec::from(&pk.sign_crypt(scheme_of(arg(a, 1)?)?, arg(a, 2)?))])
        }
        Op::ScValid => {
            let ct = SignCryptCiphertext::<C>::try_from(arg(a, 0)?).map_err(e)?;
            Ok(vec![flag(ct.is_valid().into())])
        }
        Op::ScDecrypt => {
            let ct = SignCryptCiphertext::<C>::try_from(arg(a, 0)?).map_err(e)?;
            let sk = sk_lenient::<C>(arg(a, 1)?)?;
            Ok(ctopt(ct.decrypt(&sk).into()))
        }
        Op::ScDecKey => {
            let sk = sk_lenient::<C>(arg(a, 0)?)?;
            let ct = SignCryptCiphertext::<C>::try_from(arg(a, 1)?).map_err(e)?;
            Ok(vec![Vec::from(&sk.sign_decryption_key::<&[u8]>(&ct))])
        }
        Op::DkDecrypt => {
            let dk = SignCryptDecryptionKey::<C>::try_from(arg(a, 0)?).map_err(e)?;
            let ct = SignCryptCiphertext::<C>::try_from(arg(a, 1)?).map_err(e)?;
            Ok(ctopt(dk.decrypt(&ct).into()))
        }
        Op::ScShare => {
            let ct = SignCryptCiphertext::<C>::try_from(arg(a, 0)?).map_err(e)?;
            let s = SecretKeyShare::<C>::try_from(arg(a, 1)?).map_err(e)?;
            Ok(vec![Vec::from(&ct.create_decryption_share(&s).map_err(e)?)])
        }
        Op::ScShareTrait => {
            // the other way the library offers to make a decryption share: the trait function itself
            let ct = SignCryptCiphertext::<C>::try_from(arg(a, 0)?).map_err(e)?;
            let s = SecretKeyShare::<C>::try_from(arg(a, 1)?).map_err(e)?;
            let sh = <C as BlsSignCrypt>::create_decryption_share(&s.0, ct.u).map_err(e)?;
            let mut out = vec![vsss_rs::Share::identifier(&sh)];
            out.extend(vsss_rs::Share::value_vec(&sh));
            Ok(vec![out])
        }
        Op::DShareVerify => {
            let d = SignDecryptionShare::<C>::try_from(arg(a, 0)?).map_err(e)?;
            let p = PublicKeyShare::<C>::try_from(arg(a, 1)?).map_err(e)?;
            let ct = SignCryptCiphertext::<C>::try_from(arg(a, 2)?).map_err(e)?;
            d.verify(&p, &ct).map_err(e)?;
            Ok(vec![])
        }
        Op::ScDecryptShares => {
            let ct = SignCryptCiphertext::<C>::try_from(arg(a, 0)?).map_err(e)?;
            let ds = many(a, 1, |b| SignDecryptionShare::<C>::try_from(b).map_err(e))?;
            Ok(ctopt(ct.decrypt_with_shares(&ds).into()))
        }
        Op::DkFromShares => {
            let ds = many(a, 0, |b| SignDecryptionShare::<C>::try_from(b).map_err(e))?;
            Ok(vec![Vec::from(&SignCryptDecryptionKey::<C>::from_shares(&ds).map_err(e)?)])
        }
        Op::TimeLock => {
            let pk = PublicKey::<C>::try_from(arg(a, 0)?).map_err(e)?;
            let ct = pk.encrypt_time_lock(scheme_of(arg(a, 1)?)?, arg(a, 2)?, arg(a, 3)?).map_err(e)?;
            Ok(vec![Vec::from(&ct)])
        }
        Op::TlDecrypt => {
            let ct = TimeCryptCiphertext::<C>::try_from(arg(a, 0)?).map_err(e)?;
            let sig = Signature::<C>::try_from(arg(a, 1)?).map_err(e)?;
            Ok(ctopt(ct.decrypt(&sig).into()))
        }
        Op::EgEncrypt => {
            let pk = PublicKey::<C>::try_from(arg(a, 0)?).map_err(e)?;
            let m = sk_lenient::<C>(arg(a, 1)?)?;
            Ok(vec![Vec::from(&pk.encrypt_key_el_gamal(&m).map_err(e)?)])
        }
        Op::EgEncryptProof => {
            let pk = PublicKey::<C>::try_from(arg(a, 0)?).map_err(e)?;
            let m = sk_lenient::<C>(arg(a, 1)?)?;
            Ok(vec![Vec::from(&pk.encrypt_key_el_gamal_with_proof(&m).map_err(e)?)])
        }
        Op::EgDecrypt => {
            let ct = ElGamalCiphertext::<C>::try_from(arg(a, 0)?).map_err(e)?;
            let sk = sk_lenient::<C>(arg(a, 1)?)?;
            Ok(vec![pt(&ct.decrypt(&sk))])
        }
        Op::EgAdd => {
            let x = ElGamalCiphertext::<C>::try_from(arg(a, 0)?).map_err(e)?;
            let y = ElGamalCiphertext::<C>::try_from(arg(a, 1)?).map_err(e)?;
            let r = match arg(a, 2)? {
                [0] => x + y,
                [1] => &x + &y,
                [2] => x + &y,
                [3] => &x + y,
                [4] => {
                    let mut t = x;
                    t += y;
                    t
                }
                [5] => {
                    let mut t = x;
                    t += &y;
                    t
                }
                _ => return Err("facade: bad add mode".into()),
            };
            Ok(vec![Vec::from(&r)])
        }
        Op::EgProofVerify => {
            let p = ElGamalProof::<C>::try_from(arg(a, 0)?).map_err(e)?;
            let pk = PublicKey::<C>::try_from(arg(a, 1)?).map_err(e)?;
            p.verify(pk).map_err(e)?;
            Ok(vec![])
        }
        Op::EgVerifyDecrypt => {
            let p = ElGamalProof::<C>::try_from(arg(a, 0)?).map_err(e)?;
            let sk = sk_lenient::<C>(arg(a, 1)?)?;
            Ok(vec![pt(&p.verify_and_decrypt(&sk).map_err(e)?)])
        }
        Op::EgShare => {
            let s = SecretKeyShare::<C>::try_from(arg(a, 0)?).map_err(e)?;
            let ct = ElGamalCiphertext::<C>::try_from(arg(a, 1)?).map_err(e)?;
            let sh = <C as BlsSignatureCore>::public_key_share_with_generator(&s.0, ct.c1).map_err(e)?;
            Ok(vec![Vec::from(&ElGamalDecryptionShare::<C>(sh))])
        }
        Op::EgDkFromShares => {
            let s = many(a, 0, |b| ElGamalDecryptionShare::<C>::try_from(b).map_err(e))?;
            Ok(vec![Vec::from(&ElGamalDecryptionKey::<C>::from_shares(&s).map_err(e)?)])
        }
        Op::EgDkDecrypt => {
            let dk = ElGamalDecryptionKey::<C>::try_from(arg(a, 0)?).map_err(e)?;
            let ct = ElGamalCiphertext::<C>::try_from(arg(a, 1)?).map_err(e)?;
            Ok(vec![pt(&dk.decrypt(&ct))])
        }
        Op::EgVerifyRaw => {
            // the trait-level verifier with a caller-supplied generator (public API: `BlsElGamal::verify_proof`)
            let point = |b: &[u8]| -> R<<C as Pairing>::PublicKey> { Ok(PublicKey::<C>::try_from(b).map_err(e)?.0) };
            let scalar = |b: &[u8]| -> R<_> {
                if b.len() == 32 && b.iter().all(|x| *x == 0) {
                    return Ok(SecretKey::<C>::default().0);
                }
                Ok(SecretKey::<C>::try_from(b).map_err(e)?.0)
            };
            let gen = if arg(a, 1)?.is_empty() { None } else { Some(point(arg(a, 1)?)?) };
            <C as BlsElGamal>::verify_proof(point(arg(a, 0)?)?, gen, point(arg(a, 2)?)?, point(arg(a, 3)?)?, scalar(arg(a, 4)?)?, scalar(arg(a, 5)?)?, scalar(arg(a, 6)?)?).map_err(e)?;
            Ok(vec![])
        }
        Op::VerifyUnchecked => {
            // what a caller can do with the public constructors (`Signature::Basic(point)`, `PublicKey(point)`, ...):
            // hand the verifiers points that are on the curve but were never subgroup-checked
            fn unchecked<G: GroupEncoding>(b: &[u8]) -> R<G> {
                let mut repr = G::Repr::default();
                if repr.as_ref().len() != b.len() {
                    return Err("length".into());
                }
                repr.as_mut().copy_from_slice(b);
                Option::<G>::from(G::from_bytes_unchecked(&repr)).ok_or_else(|| "not on curve".to_string())
            }
            let kind = *arg(a, 0)?.first().ok_or("kind")?;
            let sb = arg(a, 1)?;
            let pkp: <C as Pairing>::PublicKey = unchecked(arg(a, 2)?)?;
            let msg = arg(a, 3)?;
            match kind {
                0 | 1 => {
                    let (tag, body) = sb.split_first().ok_or("sig")?;
                    let sp: <C as Pairing>::Signature = unchecked(body)?;
                    if kind == 0 {
                        let sig = match tag {
                            0 => Signature::<C>::Basic(sp),
                            1 => Signature::<C>::MessageAugmentation(sp),
                            _ => Signature::<C>::ProofOfPossession(sp),
                        };
                        sig.verify(&PublicKey::<C>(pkp), msg).map_err(e)?;
                    } else {
                        let sig = match tag {
                            0 => MultiSignature::<C>::Basic(sp),
                            1 => MultiSignature::<C>::MessageAugmentation(sp),
                            _ => MultiSignature::<C>::ProofOfPossession(sp),
                        };
                        sig.verify(MultiPublicKey::<C>(pkp), msg).map_err(e)?;
                    }
                }
                _ => {
                    let sp: <C as Pairing>::Signature = unchecked(sb)?;
                    ProofOfPossession::<C>(sp).verify(PublicKey::<C>(pkp)).map_err(e)?;
                }
            }
            Ok(vec![])
        }
        Op::MsgGenerator => Ok(vec![pt(&<C as BlsElGamal>::message_generator())]),
        Op::Dsts => Ok(vec![
            <C as BlsSignatureBasic>::DST.to_vec(),
            <C as BlsSignatureMessageAugmentation>::DST.to_vec(),
            <C as BlsSignaturePop>::SIG_DST.to_vec(),
            <C as BlsSignaturePop>::POP_DST.to_vec(),
            <C as BlsElGamal>::ENC_DST.to_vec(),
        ]),
        Op::Recode => {
            let ty = Ty::from_u8(*arg(a, 0)?.first().ok_or("ty")?).ok_or("ty")?;
            let ci = Codec::from_u8(*arg(a, 1)?.first().ok_or("codec")?).ok_or("codec")?;
            let co = Codec::from_u8(*arg(a, 2)?.first().ok_or("codec")?).ok_or("codec")?;
            let b = arg(a, 3)?;
            with_ty!(ty, C, do_recode(ci, co, b))
        }
        Op::ValueEq => {
            let ty = Ty::from_u8(*arg(a, 0)?.first().ok_or("ty")?).ok_or("ty")?;
            let ca = Codec::from_u8(*arg(a, 1)?.first().ok_or("codec")?).ok_or("codec")?;
            let cb = Codec::from_u8(*arg(a, 3)?.first().ok_or("codec")?).ok_or("codec")?;
            with_ty!(ty, C, do_eq(ca, arg(a, 2)?, cb, arg(a, 4)?))
        }
        Op::Exercise => {
            let ty = Ty::from_u8(*arg(a, 0)?.first().ok_or("ty")?).ok_or("ty")?;
            let ci = Codec::from_u8(*arg(a, 1)?.first().ok_or("codec")?).ok_or("codec")?;
            with_ty!(ty, C, do_exercise(ci, arg(a, 2)?))
        }
        Op::EnumNew => {
            let v = SecretKeyEnum::new(tag);
            Ok(vec![Vec::from(&v), serde_json::to_vec(&v).map_err(e)?])
        }
        Op::EnumFromHash => {
            let v = SecretKeyEnum::from_hash(tag, arg(a, 0)?);
            Ok(vec![Vec::from(&v), serde_json::to_vec(&v).map_err(e)?])
        }
        Op::EnumRandom => {
            let rng = ChaCha20Rng::from_seed(seed32(arg(a, 0)?)?);
            let v = SecretKeyEnum::random(tag, rng);
            Ok(vec![Vec::from(&v), serde_json::to_vec(&v).map_err(e)?])
        }
        Op::EnumFromBe => {
            let o: Option<SecretKeyEnum> = SecretKeyEnum::from_be_bytes(arg(a, 0)?).into();
            Ok(ctopt(o.map(|v| serde_json::to_vec(&v).unwrap_or_default())))
        }
        Op::EnumFromLe => {
            let o: Option<SecretKeyEnum> = SecretKeyEnum::from_le_bytes(arg(a, 0)?).into();
            Ok(ctopt(o.map(|v| serde_json::to_vec(&v).unwrap_or_default())))
        }
        Op::SkFromBe => {
            let b: [u8; 32] = arg(a, 0)?.try_into().map_err(|_| "facade: need 32 bytes".to_string())?;
            let o: Option<SecretKey<C>> = SecretKey::<C>::from_be_bytes(&b).into();
            Ok(ctopt(o.map(|v| Vec::from(&v))))
        }
        Op::SkFromLe => {
            let b: [u8; 32] = arg(a, 0)?.try_into().map_err(|_| "facade: need 32 bytes".to_string())?;
            let o: Option<SecretKey<C>> = SecretKey::<C>::from_le_bytes(&b).into();
            Ok(ctopt(o.map(|v| Vec::from(&v))))
        }
        Op::MemLayout => Ok(vec![
            (core::mem::size_of::<Signature<C>>() as u64).to_le_bytes().to_vec(),
            (core::mem::size_of::<PublicKey<C>>() as u64).to_le_bytes().to_vec(),
            (core::mem::size_of::<(<C as Pairing>::PublicKey, Vec<u8>)>() as u64).to_le_bytes().to_vec(),
        ]),
        Op::AggVerifyReentrant => {
            // a caller that checks each signer's proof of possession lazily, inside the iterator it hands to the
            // aggregate verifier: library calls nested in a library call
            let agg = AggregateSignature::<C>::try_from(arg(a, 0)?).map_err(e)?;
            let mut entries: Vec<(PublicKey<C>, Vec<u8>, ProofOfPossession<C>)> = Vec::new();
            let mut i = 2;
            while i + 2 < a.len() {
                entries.push((PublicKey::<C>::try_from(a[i]).map_err(e)?, a[i + 1].to_vec(), ProofOfPossession::<C>::try_from(a[i + 2]).map_err(e)?));
                i += 3;
            }
            let nested_kind = *arg(a, 1)?.first().ok_or("kind")?;
            let verdicts = std::cell::RefCell::new(Vec::<u8>::new());
            let inner_list: Vec<(PkPt<C>, Vec<u8>)> = entries.iter().take(2).map(|(pk, m, _)| (pk.0, m.clone())).collect();
            let outer_point = match agg {
                AggregateSignature::Basic(s) | AggregateSignature::MessageAugmentation(s) | AggregateSignature::ProofOfPossession(s) => s,
            };
            let it = entries.iter().map(|(pk, m, pop)| {
                let v = match nested_kind {
                    // the entry's proof of possession
                    1 => pop.verify(*pk).is_ok(),
                    // another aggregate verification (Basic scheme, the first two entries of this list) — its verdict does not
                    // matter, only that it ran on this thread while the outer one is in progress
                    2 => <C as BlsSignatureBasic>::aggregate_verify(inner_list.iter().map(|(p, m)| (*p, m.as_slice())), outer_point).is_ok(),
                    // an ordinary signature verification of the entry's proof point as a PoP-scheme signature over the message
                    _ => Signature::<C>::ProofOfPossession(pop.0).verify(pk, m).is_ok(),
                };
                verdicts.borrow_mut().push(v as u8);
                (pk.0, m.clone())
            });
            let r = match agg {
                AggregateSignature::Basic(s) => <C as BlsSignatureBasic>::aggregate_verify(it, s),
                AggregateSignature::MessageAugmentation(s) => <C as BlsSignatureMessageAugmentation>::aggregate_verify(it, s),
                AggregateSignature::ProofOfPossession(s) => <C as BlsSignaturePop>::aggregate_verify(it, s),
            };
            let v = verdicts.into_inner();
            match r {
                Ok(()) => Ok(vec![v]),
                Err(x) => Err(format!("{} | nested verdicts {:?}", e(x), v)),
            }
        }
        Op::EgEncryptProofBlinder => {
            let pk = PublicKey::<C>::try_from(arg(a, 0)?).map_err(e)?;
            let m = sk_lenient::<C>(arg(a, 1)?)?;
            let b = sk_lenient::<C>(arg(a, 2)?)?;
            let (c1, c2, message_proof, blinder_proof, challenge) = <C as BlsElGamal>::seal_scalar_with_proof(pk.0, m.0, None, Some(b.0), own_rng()).map_err(e)?;
            Ok(vec![Vec::from(&ElGamalProof::<C> { ciphertext: ElGamalCiphertext { c1, c2 }, message_proof, blinder_proof, challenge })])
        }
        Op::VerifyIn => {
            let cs = Codec::from_u8(*arg(a, 0)?.first().ok_or("codec")?).ok_or("codec")?;
            let cp = Codec::from_u8(*arg(a, 2)?.first().ok_or("codec")?).ok_or("codec")?;
            let sig = <Signature<C> as Wire>::dec(cs, arg(a, 1)?)?;
            let pk = <PublicKey<C> as Wire>::dec(cp, arg(a, 3)?)?;
            sig.verify(&pk, arg(a, 4)?).map_err(e)?;
            Ok(vec![])
        }
        Op::EgSealRaw => {
            let pk = PublicKey::<C>::try_from(arg(a, 0)?).map_err(e)?;
            let m = sk_lenient::<C>(arg(a, 1)?)?;
            let gen = PublicKey::<C>::try_from(arg(a, 2)?).map_err(e)?.0;
            let (c1, c2, mp, bp, ch) = <C as BlsElGamal>::seal_scalar_with_proof(pk.0, m.0, Some(gen), None, own_rng()).map_err(e)?;
            Ok(vec![pt(&c1), pt(&c2), Vec::from(&SecretKey::<C>(mp)), Vec::from(&SecretKey::<C>(bp)), Vec::from(&SecretKey::<C>(ch))])
        }
        Op::ScShareOverBase => {
            fn unchecked<G: GroupEncoding>(b: &[u8]) -> R<G> {
                let mut repr = G::Repr::default();
                if repr.as_ref().len() != b.len() {
                    return Err("length".into());
                }
                repr.as_mut().copy_from_slice(b);
                Option::<G>::from(G::from_bytes_unchecked(&repr)).ok_or_else(|| "not on curve".to_string())
            }
            let u: PkPt<C> = unchecked(arg(a, 0)?)?;
            let s = SecretKeyShare::<C>::try_from(arg(a, 1)?).map_err(e)?;
            let ct = SignCryptCiphertext::<C> { u, v: vec![0u8; 32], w: SigPt::<C>::default(), scheme: SignatureSchemes::Basic };
            Ok(vec![Vec::from(&ct.create_decryption_share(&s).map_err(e)?)])
        }
        Op::PairingRaw => {
            fn unchecked<G: GroupEncoding>(b: &[u8]) -> R<G> {
                let mut repr = G::Repr::default();
                if repr.as_ref().len() != b.len() {
                    return Err("length".into());
                }
                repr.as_mut().copy_from_slice(b);
                Option::<G>::from(G::from_bytes_unchecked(&repr)).ok_or_else(|| "not on curve".to_string())
            }
            use blsful::inner_types::Group;
            let mut pairs: Vec<(SigPt<C>, PkPt<C>)> = vec![];
            let mut i = 0;
            while i + 1 < a.len() {
                pairs.push((unchecked(a[i])?, unchecked(a[i + 1])?));
                i += 2;
            }
            let all = <C as Pairing>::pairing(&pairs);
            let half = pairs.len() / 2;
            let split = <C as Pairing>::pairing(&pairs[..half]) + <C as Pairing>::pairing(&pairs[half..]);
            Ok(vec![flag(all.is_identity().into()), flag(split == all)])
        }
        Op::EncodeInterrupted => {
            // the CALLER's side of an encoding call fails part-way (the sink, not the value)
            struct Failing(usize, bool);
            impl std::io::Write for Failing {
                fn write(&mut self, b: &[u8]) -> std::io::Result<usize> {
                    if self.0 == 0 {
                        if self.1 {
                            panic!("caller: sink failed");
                        }
                        return Err(std::io::Error::new(std::io::ErrorKind::Other, "sink full"));
                    }
                    let n = b.len().min(self.0);
                    self.0 -= n;
                    Ok(n)
                }
                fn flush(&mut self) -> std::io::Result<()> {
                    Ok(())
                }
            }
            fn interrupted<T: Wire + serde::Serialize>(ci: Codec, b: &[u8], k: usize, panics: bool) -> R<Vec<Vec<u8>>> {
                let v = T::dec(ci, b)?;
                // the caller's own unwinding is the caller's business: caught here
                let r = catch_unwind(AssertUnwindSafe(|| serde_json::to_writer(Failing(k, panics), &v).is_err()));
                simtypes::take_panic();
                Ok(vec![flag(r.unwrap_or(true))])
            }
            let ty = Ty::from_u8(*arg(a, 0)?.first().ok_or("ty")?).ok_or("ty")?;
            let ci = Codec::from_u8(*arg(a, 1)?.first().ok_or("codec")?).ok_or("codec")?;
            let k = u64_of(arg(a, 3)?)? as usize;
            let panics = a.get(4).map(|b| b == &[1u8]).unwrap_or(false);
            with_ty!(ty, C, interrupted(ci, arg(a, 2)?, k, panics))
        }
        Op::DecodeInterrupted => {
            struct Failing<'a>(&'a [u8], usize, bool);
            impl<'a> std::io::Read for Failing<'a> {
                fn read(&mut self, out: &mut [u8]) -> std::io::Result<usize> {
                    if self.1 == 0 {
                        if self.2 {
                            panic!("caller: source failed");
                        }
                        return Err(std::io::Error::new(std::io::ErrorKind::Other, "source failed"));
                    }
                    let n = out.len().min(self.1).min(self.0.len());
                    out[..n].copy_from_slice(&self.0[..n]);
                    self.0 = &self.0[n..];
                    self.1 -= n;
                    Ok(n)
                }
            }
            fn interrupted<T: Wire + serde::de::DeserializeOwned>(text: &[u8], k: usize, panics: bool) -> R<Vec<Vec<u8>>> {
                let r = catch_unwind(AssertUnwindSafe(|| serde_json::from_reader::<_, T>(Failing(text, k, panics)).is_ok()));
                simtypes::take_panic();
                Ok(vec![flag(r.unwrap_or(false))])
            }
            let ty = Ty::from_u8(*arg(a, 0)?.first().ok_or("ty")?).ok_or("ty")?;
            let k = u64_of(arg(a, 2)?)? as usize;
            let panics = a.get(3).map(|b| b == &[1u8]).unwrap_or(false);
            with_ty!(ty, C, interrupted(arg(a, 1)?, k, panics))
        }
        Op::PokCommitNestedAsRef => {
            struct Nested<'a, C: CI> {
                msg: &'a [u8],
                sig: Signature<C>,
                inner: std::cell::RefCell<Option<(Vec<u8>, Vec<u8>)>>,
            }
            impl<'a, C: CI> AsRef<[u8]> for Nested<'a, C> {
                fn as_ref(&self) -> &[u8] {
                    if self.inner.borrow().is_none() {
                        if let Ok((c, x)) = ProofCommitment::<C>::generate(self.msg, self.sig) {
                            *self.inner.borrow_mut() = Some((Vec::from(&c), Vec::from(&x)));
                        }
                    }
                    self.msg
                }
            }
            let sig = Signature::<C>::try_from(arg(a, 1)?).map_err(e)?;
            let m = Nested::<C> { msg: arg(a, 0)?, sig, inner: std::cell::RefCell::new(None) };
            let (c, x) = ProofCommitment::<C>::generate(&m, sig).map_err(e)?;
            let (ic, ix) = m.inner.borrow().clone().ok_or("the message value was never read")?;
            Ok(vec![Vec::from(&c), Vec::from(&x), ic, ix])
        }
        Op::AggVerifyCallerPanics => {
            let agg = AggregateSignature::<C>::try_from(arg(a, 0)?).map_err(e)?;
            let k = u64_of(arg(a, 1)?)? as usize;
            let how = *arg(a, 2)?.first().ok_or("how")?;
            let mut data: Vec<(PublicKey<C>, Vec<u8>)> = Vec::new();
            let mut i = 3;
            while i + 1 < a.len() {
                data.push((PublicKey::<C>::try_from(a[i]).map_err(e)?, a[i + 1].to_vec()));
                i += 2;
            }
            struct Bomb(Vec<u8>, bool);
            impl AsRef<[u8]> for Bomb {
                fn as_ref(&self) -> &[u8] {
                    if self.1 {
                        panic!("caller: message source failed");
                    }
                    &self.0
                }
            }
            // the caller's own unwinding is the caller's business: caught here, reported as an ordinary refusal
            let r = catch_unwind(AssertUnwindSafe(|| {
                if how == 0 {
                    let it = data.iter().enumerate().map(|(i, (pk, m))| {
                        if i == k {
                            panic!("caller: entry source failed");
                        }
                        (pk.0, m.clone())
                    });
                    match agg {
                        AggregateSignature::Basic(s) => <C as BlsSignatureBasic>::aggregate_verify(it, s),
                        AggregateSignature::MessageAugmentation(s) => <C as BlsSignatureMessageAugmentation>::aggregate_verify(it, s),
                        AggregateSignature::ProofOfPossession(s) => <C as BlsSignaturePop>::aggregate_verify(it, s),
                    }
                } else {
                    let list: Vec<(PublicKey<C>, Bomb)> = data.iter().enumerate().map(|(i, (pk, m))| (*pk, Bomb(m.clone(), i == k))).collect();
                    agg.verify(&list)
                }
            }));
            simtypes::take_panic();
            match r {
                Err(_) => Err("caller panicked inside the call and caught it".into()),
                Ok(v) => Err(format!("no entry {}: {:?}", k, v.is_ok())),
            }
        }
        Op::FickleMessage => {
            struct Fickle {
                views: [Vec<u8>; 2],
                calls: std::cell::Cell<usize>,
            }
            impl AsRef<[u8]> for Fickle {
                fn as_ref(&self) -> &[u8] {
                    let n = self.calls.get();
                    self.calls.set(n + 1);
                    &self.views[n % 2]
                }
            }
            let which = *arg(a, 0)?.first().ok_or("which")?;
            let scheme = scheme_of(arg(a, 2)?)?;
            let f = Fickle { views: [arg(a, 3)?.to_vec(), arg(a, 4)?.to_vec()], calls: std::cell::Cell::new(0) };
            match which {
                0 => {
                    let pk = PublicKey::<C>::try_from(arg(a, 1)?).map_err(e)?;
                    Ok(vec![Vec::from(&pk.sign_crypt(scheme, &f))])
                }
                1 => {
                    let pk = PublicKey::<C>::try_from(arg(a, 1)?).map_err(e)?;
                    Ok(vec![Vec::from(&pk.encrypt_time_lock(scheme, &f, arg(a, 5)?).map_err(e)?)])
                }
                2 => {
                    let sk = sk_lenient::<C>(arg(a, 1)?)?;
                    let sig = match scheme {
                        SignatureSchemes::Basic => Signature::<C>::Basic(<C as BlsSignatureBasic>::sign(&sk.0, &f).map_err(e)?),
                        SignatureSchemes::MessageAugmentation => Signature::<C>::MessageAugmentation(<C as BlsSignatureMessageAugmentation>::sign(&sk.0, &f).map_err(e)?),
                        SignatureSchemes::ProofOfPossession => Signature::<C>::ProofOfPossession(<C as BlsSignaturePop>::sign(&sk.0, &f).map_err(e)?),
                    };
                    Ok(vec![Vec::from(&sig)])
                }
                _ => {
                    let pk = PublicKey::<C>::try_from(arg(a, 1)?).map_err(e)?;
                    let (u, v, w) = <C as BlsSignCrypt>::seal(pk.0, &f, dst_of::<C>(scheme));
                    Ok(vec![Vec::from(&SignCryptCiphertext::<C> { u, v, w, scheme })])
                }
            }
        }
        Op::FromFickleList => {
            struct Fickle<C: CI> {
                views: [Vec<Signature<C>>; 2],
                calls: std::cell::Cell<usize>,
            }
            impl<C: CI> AsRef<[Signature<C>]> for Fickle<C> {
                fn as_ref(&self) -> &[Signature<C>] {
                    let n = self.calls.get();
                    self.calls.set(n + 1);
                    &self.views[n % 2]
                }
            }
            let kind = *arg(a, 0)?.first().ok_or("kind")?;
            let n1 = u64_of(arg(a, 1)?)? as usize;
            let sigs = many(a, 2, |b| Signature::<C>::try_from(b).map_err(e))?;
            let n1 = n1.min(sigs.len());
            let f = Fickle::<C> { views: [sigs[..n1].to_vec(), sigs[n1..].to_vec()], calls: std::cell::Cell::new(0) };
            if kind == 0 {
                Ok(vec![Vec::from(&MultiSignature::<C>::from_signatures(f).map_err(e)?)])
            } else {
                Ok(vec![Vec::from(&AggregateSignature::<C>::from_signatures(f).map_err(e)?)])
            }
        }
        Op::SplitFaultyRng => {
            struct Faulty {
                inner: ChaCha20Rng,
                n: u64,
                at: u64,
                width: u64,
                fill: u8,
                panics: bool,
            }
            impl rand_core::RngCore for Faulty {
                fn next_u32(&mut self) -> u32 {
                    let mut b = [0u8; 4];
                    self.fill_bytes(&mut b);
                    u32::from_le_bytes(b)
                }
                fn next_u64(&mut self) -> u64 {
                    let mut b = [0u8; 8];
                    self.fill_bytes(&mut b);
                    u64::from_le_bytes(b)
                }
                fn fill_bytes(&mut self, dest: &mut [u8]) {
                    let hit = self.n >= self.at && self.n < self.at + self.width;
                    self.n += 1;
                    self.inner.fill_bytes(dest);
                    if hit && self.panics {
                        panic!("caller: entropy source failed");
                    }
                    if hit {
                        dest.iter_mut().for_each(|b| *b = self.fill);
                    }
                }
                fn try_fill_bytes(&mut self, dest: &mut [u8]) -> Result<(), rand_core::Error> {
                    self.fill_bytes(dest);
                    Ok(())
                }
            }
            impl rand_core::CryptoRng for Faulty {}
            let sk = sk_lenient::<C>(arg(a, 0)?)?;
            let rng = Faulty { inner: ChaCha20Rng::from_seed(seed32(arg(a, 3)?)?), n: 0, at: u64_of(arg(a, 4)?)?, width: a.get(6).map(|b| u64_of(b)).transpose()?.unwrap_or(1).max(1), fill: *arg(a, 5)?.first().ok_or("fill")?, panics: a.get(7).map(|b| b == &[1u8]).unwrap_or(false) };
            let (t, n) = (u64_of(arg(a, 1)?)? as usize, u64_of(arg(a, 2)?)? as usize);
            // the caller's own unwinding (its generator panicked) is the caller's business: caught here, reported as a refusal
            let r = catch_unwind(AssertUnwindSafe(|| sk.split_with_rng(t, n, rng)));
            simtypes::take_panic();
            let shares = r.map_err(|_| "caller's generator panicked inside the call and the caller caught it".to_string())?.map_err(e)?;
            Ok(shares.iter().map(Vec::from).collect())
        }
        Op::MultiSigVerifyKeys => {
            let ms = MultiSignature::<C>::try_from(arg(a, 0)?).map_err(e)?;
            let pks = many(a, 2, |b| PublicKey::<C>::try_from(b).map_err(e))?;
            <C as BlsSignaturePop>::multi_sig_verify(pks.iter().map(|k| k.0), *ms.as_raw_value(), arg(a, 1)?).map_err(e)?;
            Ok(vec![])
        }
        Op::SchemeFrom => {
            let b = arg(a, 0)?;
            let s = if b.len() == 1 {
                SignatureSchemes::from(b[0])
            } else {
                let st = core::str::from_utf8(b).map_err(e)?;
                let x = SignatureSchemes::from(st);
                let y: SignatureSchemes = st.parse().map_err(e)?;
                if x != y {
                    return Err("from(&str) and FromStr disagree".into());
                }
                x
            };
            Ok(vec![vec![s as u8]])
        }
    }
}


// ------------------------------------------------------------------------------------------------------------------
// Alternative public routes. A deployment is not made of parties that all call the struct-level methods: some are
// built on the scheme traits (`BlsSignatureBasic::sign`, `BlsSignCrypt::unseal_with_shares`, `BlsElGamal::seal_scalar`
// with explicit generator / blinder, ...), on `BlsSignature::<C>`'s constructors, or on sibling conversions. For every
// operation that has one, `dispatch_alt` performs the SAME operation through such a route; `None` = this operation has
// no alternative route for these arguments (the caller falls back to the struct-level route). `route` (>= 1) selects
// among several alternatives where there are some. Whatever an oracle demands of the struct-level result it demands
// of these results too: they are public API for the same thing.
// ------------------------------------------------------------------------------------------------------------------
type PkPt<C> = <C as Pairing>::PublicKey;
type SigPt<C> = <C as Pairing>::Signature;
type Sc<C> = <<C as Pairing>::PublicKey as blsful::inner_types::Group>::Scalar;

fn dst_of<C: CI>(s: SignatureSchemes) -> &'static [u8] {
    match s {
        SignatureSchemes::Basic => <C as BlsSignatureBasic>::DST,
        SignatureSchemes::MessageAugmentation => <C as BlsSignatureMessageAugmentation>::DST,
        SignatureSchemes::ProofOfPossession => <C as BlsSignaturePop>::SIG_DST,
    }
}
fn sig_parts<C: CI>(s: &Signature<C>) -> (SignatureSchemes, SigPt<C>) {
    match s {
        Signature::Basic(p) => (SignatureSchemes::Basic, *p),
        Signature::MessageAugmentation(p) => (SignatureSchemes::MessageAugmentation, *p),
        Signature::ProofOfPossession(p) => (SignatureSchemes::ProofOfPossession, *p),
    }
}
fn sig_wrap<C: CI>(s: SignatureSchemes, p: SigPt<C>) -> Signature<C> {
    match s {
        SignatureSchemes::Basic => Signature::Basic(p),
        SignatureSchemes::MessageAugmentation => Signature::MessageAugmentation(p),
        SignatureSchemes::ProofOfPossession => Signature::ProofOfPossession(p),
    }
}
fn trait_verify<C: CI>(s: SignatureSchemes, pk: PkPt<C>, sig: SigPt<C>, msg: &[u8]) -> BlsResult<()> {
    match s {
        SignatureSchemes::Basic => <C as BlsSignatureBasic>::verify(pk, sig, msg),
        SignatureSchemes::MessageAugmentation => <C as BlsSignatureMessageAugmentation>::verify(pk, sig, msg),
        SignatureSchemes::ProofOfPossession => <C as BlsSignaturePop>::verify(pk, sig, msg),
    }
}
fn choice_ok<T: Into<bool>>(c: T) -> R<Vec<Vec<u8>>> {
    if c.into() {
        Ok(vec![])
    } else {
        Err("alt: not valid".into())
    }
}
fn own_rng() -> ChaCha20Rng {
    // the caller's own generator, seeded from the operating system like the library's
    ChaCha20Rng::from_entropy()
}

fn dispatch_alt<C: CI>(op: Op, a: &[&[u8]], route: u8) -> R<Option<Vec<Vec<u8>>>> {
    use blsful::inner_types::{Field, Group};
    let some = |v: Vec<Vec<u8>>| -> R<Option<Vec<Vec<u8>>>> { Ok(Some(v)) };
    match op {
        Op::Recode => {
            let ty = Ty::from_u8(*arg(a, 0)?.first().ok_or("ty")?).ok_or("ty")?;
            let ci = Codec::from_u8(*arg(a, 1)?.first().ok_or("codec")?).ok_or("codec")?;
            let co = Codec::from_u8(*arg(a, 2)?.first().ok_or("codec")?).ok_or("codec")?;
            let b = arg(a, 3)?;
            if ty == Ty::SecretKey && co == Codec::Bytes && route % 2 == 1 {
                // the fixed-size array conversions of the secret key
                let v = <SecretKey<C> as Wire>::dec(ci, b)?;
                let by_ref: [u8; 32] = (&v).into();
                let by_val: [u8; 32] = v.into();
                if by_ref != by_val {
                    return Err("alt: the two array conversions of a secret key differ".into());
                }
                return some(vec![by_val.to_vec()]);
            }
            with_ty!(ty, C, do_recode_alt(ci, co, b, route)).map(Some)
        }
        Op::ChallengeFromHash => some(vec![Vec::from(&BlsSignature::<C>::proof_challenge_from_hash(arg(a, 0)?))]),
        Op::ChallengeRandom => some(vec![Vec::from(&BlsSignature::<C>::random_proof_challenge(ChaCha20Rng::from_seed(seed32(arg(a, 0)?)?)))]),
        Op::KeyFromHash => some(vec![Vec::from(&BlsSignature::<C>::secret_key_from_hash(arg(a, 0)?))]),
        Op::KeyRandomSeeded => some(vec![Vec::from(&BlsSignature::<C>::random_secret_key(ChaCha20Rng::from_seed(seed32(arg(a, 0)?)?)))]),
        Op::KeyNew => match route % 2 {
            0 => some(vec![Vec::from(&BlsSignature::<C>::new_secret_key())]),
            _ => some(vec![Vec::from(&SecretKey::<C>::random(own_rng()))]),
        },
        Op::ChallengeNew => match route % 2 {
            0 => some(vec![Vec::from(&BlsSignature::<C>::new_proof_challenge())]),
            _ => some(vec![Vec::from(&ProofCommitmentChallenge::<C>::random(own_rng()))]),
        },
        Op::PublicKey => match route % 2 {
            0 => some(vec![Vec::from(&PublicKey::<C>(<C as BlsSignatureCore>::public_key(&sk_lenient::<C>(arg(a, 0)?)?.0)))]),
            _ => some(vec![Vec::from(&PublicKey::<C>::from(&sk_lenient::<C>(arg(a, 0)?)?))]),
        },
        Op::Sign => {
            let sk = sk_lenient::<C>(arg(a, 0)?)?;
            let msg = arg(a, 2)?;
            let s = scheme_of(arg(a, 1)?)?;
            let p = match s {
                SignatureSchemes::Basic => <C as BlsSignatureBasic>::sign(&sk.0, msg),
                SignatureSchemes::MessageAugmentation => <C as BlsSignatureMessageAugmentation>::sign(&sk.0, msg),
                SignatureSchemes::ProofOfPossession => <C as BlsSignaturePop>::sign(&sk.0, msg),
            }
            .map_err(e)?;
            some(vec![Vec::from(&sig_wrap::<C>(s, p))])
        }
        Op::Verify => {
            let sig = Signature::<C>::try_from(arg(a, 0)?).map_err(e)?;
            let pk = PublicKey::<C>::try_from(arg(a, 1)?).map_err(e)?;
            let (s, p) = sig_parts(&sig);
            trait_verify::<C>(s, pk.0, p, arg(a, 2)?).map_err(e)?;
            some(vec![])
        }
        Op::Pop => some(vec![Vec::from(&ProofOfPossession::<C>(<C as BlsSignaturePop>::pop_prove(&sk_lenient::<C>(arg(a, 0)?)?.0).map_err(e)?))]),
        Op::PopVerify => {
            let pop = ProofOfPossession::<C>::try_from(arg(a, 0)?).map_err(e)?;
            let pk = PublicKey::<C>::try_from(arg(a, 1)?).map_err(e)?;
            <C as BlsSignaturePop>::pop_verify(pk.0, pop.0).map_err(e)?;
            some(vec![])
        }
        Op::Aggregate | Op::MultiSig => {
            let sigs = many(a, 0, |b| Signature::<C>::try_from(b).map_err(e))?;
            // the trait-level accumulators only add: the struct-level refusals (fewer than two, mixed schemes,
            // augmentation in a multi-signature) have no counterpart there
            if sigs.len() < 2 || !sigs.iter().all(|s| s.same_scheme(&sigs[0])) {
                return Ok(None);
            }
            let (s0, _) = sig_parts(&sigs[0]);
            if op == Op::MultiSig && s0 == SignatureSchemes::MessageAugmentation {
                return Ok(None);
            }
            let pts = sigs.iter().map(|s| sig_parts(s).1);
            let sum = if op == Op::MultiSig && route % 2 == 0 { <C as BlsMultiSignature>::from_signatures(pts) } else { <C as BlsSignatureCore>::aggregate_signatures(pts) };
            if op == Op::Aggregate {
                some(vec![Vec::from(&match s0 {
                    SignatureSchemes::Basic => AggregateSignature::<C>::Basic(sum),
                    SignatureSchemes::MessageAugmentation => AggregateSignature::<C>::MessageAugmentation(sum),
                    SignatureSchemes::ProofOfPossession => AggregateSignature::<C>::ProofOfPossession(sum),
                })])
            } else {
                some(vec![Vec::from(&match s0 {
                    SignatureSchemes::Basic => MultiSignature::<C>::Basic(sum),
                    SignatureSchemes::MessageAugmentation => MultiSignature::<C>::MessageAugmentation(sum),
                    SignatureSchemes::ProofOfPossession => MultiSignature::<C>::ProofOfPossession(sum),
                })])
            }
        }
        Op::AggVerify => {
            let agg = AggregateSignature::<C>::try_from(arg(a, 0)?).map_err(e)?;
            let mut data: Vec<(PkPt<C>, Vec<u8>)> = Vec::new();
            let mut i = 1;
            while i + 1 < a.len() {
                data.push((PublicKey::<C>::try_from(a[i]).map_err(e)?.0, a[i + 1].to_vec()));
                i += 2;
            }
            match agg {
                AggregateSignature::Basic(s) => <C as BlsSignatureBasic>::aggregate_verify(data.into_iter(), s),
                AggregateSignature::MessageAugmentation(s) => <C as BlsSignatureMessageAugmentation>::aggregate_verify(data.into_iter(), s),
                AggregateSignature::ProofOfPossession(s) => <C as BlsSignaturePop>::aggregate_verify(data.into_iter(), s),
            }
            .map_err(e)?;
            some(vec![])
        }
        Op::MultiPk => {
            let pks = many(a, 0, |b| PublicKey::<C>::try_from(b).map_err(e))?;
            let p = match route % 3 {
                0 => MultiPublicKey::<C>(<C as BlsMultiKey>::from_public_keys(pks.iter().map(|k| k.0))),
                1 => MultiPublicKey::<C>::from(pks.as_slice()),
                _ => MultiPublicKey::<C>(<C as BlsSignatureCore>::aggregate_public_keys(pks.iter().map(|k| k.0))),
            };
            some(vec![Vec::from(&p)])
        }
        Op::MultiVerify => {
            let ms = MultiSignature::<C>::try_from(arg(a, 0)?).map_err(e)?;
            let mpk = MultiPublicKey::<C>::try_from(arg(a, 1)?).map_err(e)?;
            let (s, p) = match ms {
                MultiSignature::Basic(p) => (SignatureSchemes::Basic, p),
                MultiSignature::MessageAugmentation(p) => (SignatureSchemes::MessageAugmentation, p),
                MultiSignature::ProofOfPossession(p) => (SignatureSchemes::ProofOfPossession, p),
            };
            match route % 2 {
                // "verification = ordinary verification against the accumulated key": the sibling types
                0 => sig_wrap::<C>(s, p).verify(&PublicKey::<C>(mpk.0), arg(a, 2)?),
                _ => trait_verify::<C>(s, mpk.0, p, arg(a, 2)?),
            }
            .map_err(e)?;
            some(vec![])
        }
        Op::SharePk => {
            let s = SecretKeyShare::<C>::try_from(arg(a, 0)?).map_err(e)?;
            some(vec![Vec::from(&PublicKeyShare::<C>(<C as BlsSignatureCore>::public_key_share(&s.0).map_err(e)?))])
        }
        Op::ShareSign => {
            let s = SecretKeyShare::<C>::try_from(arg(a, 0)?).map_err(e)?;
            let msg = arg(a, 2)?;
            match scheme_of(arg(a, 1)?)? {
                SignatureSchemes::Basic => some(vec![Vec::from(&SignatureShare::<C>::Basic(<C as BlsSignatureBasic>::partial_sign(&s.0, msg).map_err(e)?))]),
                SignatureSchemes::ProofOfPossession => some(vec![Vec::from(&SignatureShare::<C>::ProofOfPossession(<C as BlsSignaturePop>::partial_sign(&s.0, msg).map_err(e)?))]),
                SignatureSchemes::MessageAugmentation => Ok(None),
            }
        }
        Op::PkShareVerify | Op::SigShareVerify => {
            let (pi, si) = if op == Op::PkShareVerify { (0, 1) } else { (1, 0) };
            let p = PublicKeyShare::<C>::try_from(arg(a, pi)?).map_err(e)?;
            let s = SignatureShare::<C>::try_from(arg(a, si)?).map_err(e)?;
            let msg = arg(a, 2)?;
            match s {
                SignatureShare::Basic(inner) => <C as BlsSignatureBasic>::partial_verify(p.0, inner, msg),
                SignatureShare::ProofOfPossession(inner) => <C as BlsSignaturePop>::partial_verify(p.0, inner, msg),
                SignatureShare::MessageAugmentation(_) => return Ok(None),
            }
            .map_err(e)?;
            some(vec![])
        }
        Op::SigFromShares => {
            let s = many(a, 0, |b| SignatureShare::<C>::try_from(b).map_err(e))?;
            if s.is_empty() || !s.iter().all(|x| x.same_scheme(&s[0])) {
                return Ok(None);
            }
            let pts: Vec<_> = s.iter().map(|x| *x.as_raw_value()).collect();
            let sig = <C as BlsSignatureCore>::core_combine_signature_shares(&pts).map_err(e)?;
            some(vec![Vec::from(&match s[0] {
                SignatureShare::Basic(_) => Signature::<C>::Basic(sig),
                SignatureShare::MessageAugmentation(_) => Signature::<C>::MessageAugmentation(sig),
                SignatureShare::ProofOfPossession(_) => Signature::<C>::ProofOfPossession(sig),
            })])
        }
        Op::PkFromShares => {
            let s = many(a, 0, |b| PublicKeyShare::<C>::try_from(b).map_err(e))?;
            let pts: Vec<_> = s.iter().map(|x| x.0).collect();
            some(vec![Vec::from(&PublicKey::<C>(<C as BlsSignatureCore>::core_combine_public_key_shares(&pts).map_err(e)?))])
        }
        Op::DkFromShares => {
            let s = many(a, 0, |b| SignDecryptionShare::<C>::try_from(b).map_err(e))?;
            let pts: Vec<_> = s.iter().map(|x| x.0).collect();
            some(vec![Vec::from(&SignCryptDecryptionKey::<C>(<C as BlsSignatureCore>::core_combine_public_key_shares(&pts).map_err(e)?))])
        }
        Op::EgDkFromShares => {
            let s = many(a, 0, |b| ElGamalDecryptionShare::<C>::try_from(b).map_err(e))?;
            let pts: Vec<_> = s.iter().map(|x| x.0).collect();
            some(vec![Vec::from(&ElGamalDecryptionKey::<C>(<C as BlsSignatureCore>::core_combine_public_key_shares(&pts).map_err(e)?))])
        }
        Op::PokCommit => {
            let sig = Signature::<C>::try_from(arg(a, 1)?).map_err(e)?;
            let (s, _) = sig_parts(&sig);
            let (u, x) = <C as BlsSignatureProof>::generate_commitment(arg(a, 0)?, dst_of::<C>(s)).map_err(e)?;
            let c = match s {
                SignatureSchemes::Basic => ProofCommitment::<C>::Basic(u),
                SignatureSchemes::MessageAugmentation => ProofCommitment::<C>::MessageAugmentation(u),
                SignatureSchemes::ProofOfPossession => ProofCommitment::<C>::ProofOfPossession(u),
            };
            some(vec![Vec::from(&c), Vec::from(&ProofCommitmentSecret::<C>(x))])
        }
        Op::PokFinalize => {
            let c = ProofCommitment::<C>::try_from(arg(a, 0)?).map_err(e)?;
            let x = secret_lenient::<C>(arg(a, 1)?)?;
            let y = chal_lenient::<C>(arg(a, 2)?)?;
            let sig = Signature::<C>::try_from(arg(a, 3)?).map_err(e)?;
            let (ss, sp) = sig_parts(&sig);
            let (cs, u) = match c {
                ProofCommitment::Basic(u) => (SignatureSchemes::Basic, u),
                ProofCommitment::MessageAugmentation(u) => (SignatureSchemes::MessageAugmentation, u),
                ProofCommitment::ProofOfPossession(u) => (SignatureSchemes::ProofOfPossession, u),
            };
            if cs != ss {
                return Ok(None);
            }
            let (u, v) = <C as BlsSignatureProof>::generate_proof(u, x.0, y.0, sp).map_err(e)?;
            some(vec![Vec::from(&match cs {
                SignatureSchemes::Basic => ProofOfKnowledge::<C>::Basic { u, v },
                SignatureSchemes::MessageAugmentation => ProofOfKnowledge::<C>::MessageAugmentation { u, v },
                SignatureSchemes::ProofOfPossession => ProofOfKnowledge::<C>::ProofOfPossession { u, v },
            })])
        }
        Op::PokVerify | Op::PokTsVerify => {
            let pk = PublicKey::<C>::try_from(arg(a, 1)?).map_err(e)?;
            let msg = arg(a, 2)?;
            let parts = |p: &ProofOfKnowledge<C>| match p {
                ProofOfKnowledge::Basic { u, v } => (SignatureSchemes::Basic, *u, *v),
                ProofOfKnowledge::MessageAugmentation { u, v } => (SignatureSchemes::MessageAugmentation, *u, *v),
                ProofOfKnowledge::ProofOfPossession { u, v } => (SignatureSchemes::ProofOfPossession, *u, *v),
            };
            if op == Op::PokVerify {
                let p = ProofOfKnowledge::<C>::try_from(arg(a, 0)?).map_err(e)?;
                let y = chal_lenient::<C>(arg(a, 3)?)?;
                let (s, u, v) = parts(&p);
                <C as BlsSignatureProof>::verify(u, v, pk.0, y.0, msg, dst_of::<C>(s)).map_err(e)?;
            } else {
                let p = ProofOfKnowledgeTimestamp::<C>::try_from(arg(a, 0)?).map_err(e)?;
                let t = arg(a, 3)?;
                let timeout = if t.is_empty() { None } else { Some(u64_of(t)?) };
                let (s, u, v) = parts(&p.proof);
                let _w = simtypes::Working::begin();
                <C as BlsSignatureProof>::verify_timestamp_proof(u, v, pk.0, p.timestamp, timeout, msg, dst_of::<C>(s)).map_err(e)?;
            }
            some(vec![])
        }
        Op::PokTsGenerate => {
            let sig = Signature::<C>::try_from(arg(a, 1)?).map_err(e)?;
            let (s, sp) = sig_parts(&sig);
            let (u, v, timestamp) = <C as BlsSignatureProof>::generate_timestamp_proof(arg(a, 0)?, dst_of::<C>(s), sp).map_err(e)?;
            let proof = match s {
                SignatureSchemes::Basic => ProofOfKnowledge::<C>::Basic { u, v },
                SignatureSchemes::MessageAugmentation => ProofOfKnowledge::<C>::MessageAugmentation { u, v },
                SignatureSchemes::ProofOfPossession => ProofOfKnowledge::<C>::ProofOfPossession { u, v },
            };
            some(vec![Vec::from(&ProofOfKnowledgeTimestamp::<C> { proof, timestamp })])
        }
        Op::SignCrypt => {
            let pk = PublicKey::<C>::try_from(arg(a, 0)?).map_err(e)?;
            let scheme = scheme_of(arg(a, 1)?)?;
            let (u, v, w) = <C as BlsSignCrypt>::seal(pk.0, arg(a, 2)?, dst_of::<C>(scheme));
            some(vec![Vec::from(&SignCryptCiphertext::<C> { u, v, w, scheme })])
        }
        Op::ScValid => {
            let ct = SignCryptCiphertext::<C>::try_from(arg(a, 0)?).map_err(e)?;
            some(vec![flag(<C as BlsSignCrypt>::valid(ct.u, &ct.v, ct.w, dst_of::<C>(ct.scheme)).into())])
        }
        Op::ScDecrypt => {
            let ct = SignCryptCiphertext::<C>::try_from(arg(a, 0)?).map_err(e)?;
            let sk = sk_lenient::<C>(arg(a, 1)?)?;
            let v = Unaligned::of(&ct.v);
            some(ctopt(<C as BlsSignCrypt>::unseal(ct.u, v.get(), ct.w, &sk.0, dst_of::<C>(ct.scheme)).into()))
        }
        Op::DkDecrypt => {
            let dk = SignCryptDecryptionKey::<C>::try_from(arg(a, 0)?).map_err(e)?;
            let ct = SignCryptCiphertext::<C>::try_from(arg(a, 1)?).map_err(e)?;
            let ok = <C as BlsSignCrypt>::valid(ct.u, &ct.v, ct.w, dst_of::<C>(ct.scheme));
            let v = Unaligned::of(&ct.v);
            some(ctopt(<C as BlsSignCrypt>::decrypt(v.get(), dk.0, ok).into()))
        }
        Op::DShareVerify => {
            let d = SignDecryptionShare::<C>::try_from(arg(a, 0)?).map_err(e)?;
            let p = PublicKeyShare::<C>::try_from(arg(a, 1)?).map_err(e)?;
            let ct = SignCryptCiphertext::<C>::try_from(arg(a, 2)?).map_err(e)?;
            let share: PkPt<C> = vsss_rs::Share::as_group_element(&d.0).map_err(e)?;
            let pk: PkPt<C> = vsss_rs::Share::as_group_element(&p.0).map_err(e)?;
            choice_ok(<C as BlsSignCrypt>::verify_share(share, pk, ct.u, &ct.v, ct.w, dst_of::<C>(ct.scheme))).map(Some)
        }
        Op::ScDecryptShares => {
            let ct = SignCryptCiphertext::<C>::try_from(arg(a, 0)?).map_err(e)?;
            let ds = many(a, 1, |b| SignDecryptionShare::<C>::try_from(b).map_err(e))?;
            let inner: Vec<_> = ds.iter().map(|s| s.0).collect();
            let v = Unaligned::of(&ct.v);
            some(ctopt(<C as BlsSignCrypt>::unseal_with_shares(ct.u, v.get(), ct.w, &inner, dst_of::<C>(ct.scheme)).into()))
        }
        Op::TimeLock => {
            let pk = PublicKey::<C>::try_from(arg(a, 0)?).map_err(e)?;
            let scheme = scheme_of(arg(a, 1)?)?;
            let (msg, id) = (arg(a, 2)?, arg(a, 3)?);
            let (u, v, w) = if scheme == SignatureSchemes::MessageAugmentation {
                // the key's augmentation-scheme signature over `id` is a signature over pk || id
                let mut aug = <C as BlsSignatureMessageAugmentation>::pk_bytes(pk.0, id.len());
                aug.extend_from_slice(id);
                <C as BlsTimeCrypt>::seal(pk.0, msg, &aug, dst_of::<C>(scheme))
            } else {
                <C as BlsTimeCrypt>::seal(pk.0, msg, id, dst_of::<C>(scheme))
            }
            .map_err(e)?;
            some(vec![Vec::from(&TimeCryptCiphertext::<C> { u, v, w, scheme })])
        }
        Op::TlDecrypt => {
            let ct = TimeCryptCiphertext::<C>::try_from(arg(a, 0)?).map_err(e)?;
            let sig = Signature::<C>::try_from(arg(a, 1)?).map_err(e)?;
            let (s, p) = sig_parts(&sig);
            let w = Unaligned::of(&ct.w);
            let out = if s == ct.scheme { <C as BlsTimeCrypt>::unseal(ct.u, &ct.v, w.get(), p, 1u8.into()) } else { <C as BlsTimeCrypt>::unseal(ct.u, &ct.v, w.get(), SigPt::<C>::default(), 0u8.into()) };
            some(ctopt(out.into()))
        }
        Op::EgEncrypt => {
            let pk = PublicKey::<C>::try_from(arg(a, 0)?).map_err(e)?;
            let m = sk_lenient::<C>(arg(a, 1)?)?;
            let mut rng = own_rng();
            let (c1, c2) = match route % 3 {
                0 => <C as BlsElGamal>::seal_scalar(pk.0, m.0, Some(<C as BlsElGamal>::message_generator()), Some(Sc::<C>::random(&mut rng)), &mut rng),
                1 => <C as BlsElGamal>::seal_point(pk.0, <C as BlsElGamal>::message_generator() * m.0, None, &mut rng),
                _ => <C as BlsElGamal>::seal_scalar(pk.0, m.0, None, None, &mut rng),
            }
            .map_err(e)?;
            some(vec![Vec::from(&ElGamalCiphertext::<C> { c1, c2 })])
        }
        Op::EgEncryptProof => {
            let pk = PublicKey::<C>::try_from(arg(a, 0)?).map_err(e)?;
            let m = sk_lenient::<C>(arg(a, 1)?)?;
            let mut rng = own_rng();
            let (gen, b) = match route % 3 {
                0 => (Some(<C as BlsElGamal>::message_generator()), Some(Sc::<C>::random(&mut rng))),
                1 => (None, Some(Sc::<C>::random(&mut rng))),
                _ => (Some(<C as BlsElGamal>::message_generator()), None),
            };
            let (c1, c2, message_proof, blinder_proof, challenge) = <C as BlsElGamal>::seal_scalar_with_proof(pk.0, m.0, gen, b, &mut rng).map_err(e)?;
            some(vec![Vec::from(&ElGamalProof::<C> { ciphertext: ElGamalCiphertext { c1, c2 }, message_proof, blinder_proof, challenge })])
        }
        Op::EgDecrypt => {
            let ct = ElGamalCiphertext::<C>::try_from(arg(a, 0)?).map_err(e)?;
            let sk = sk_lenient::<C>(arg(a, 1)?)?;
            some(vec![pt(&<C as BlsElGamal>::decrypt(sk.0, ct.c1, ct.c2))])
        }
        Op::EgProofVerify => {
            let p = ElGamalProof::<C>::try_from(arg(a, 0)?).map_err(e)?;
            let pk = PublicKey::<C>::try_from(arg(a, 1)?).map_err(e)?;
            let gen = if route % 2 == 0 { Some(<C as BlsElGamal>::message_generator()) } else { None };
            <C as BlsElGamal>::verify_proof(pk.0, gen, p.ciphertext.c1, p.ciphertext.c2, p.message_proof, p.blinder_proof, p.challenge).map_err(e)?;
            some(vec![])
        }
        Op::EgVerifyDecrypt => {
            let p = ElGamalProof::<C>::try_from(arg(a, 0)?).map_err(e)?;
            let sk = sk_lenient::<C>(arg(a, 1)?)?;
            let gen = if route % 2 == 0 { Some(<C as BlsElGamal>::message_generator()) } else { None };
            some(vec![pt(&<C as BlsElGamal>::verify_and_decrypt(sk.0, gen, p.ciphertext.c1, p.ciphertext.c2, p.message_proof, p.blinder_proof, p.challenge).map_err(e)?)])
        }
        _ => Ok(None),
    }
}

pub struct Flavour(pub &'static str);

impl Flavour {
    fn guarded(&self, f: impl FnOnce() -> R<Vec<Vec<u8>>>) -> Out {
        simtypes::take_panic();
        simtypes::set_in_facade(true);
        let r = catch_unwind(AssertUnwindSafe(f));
        simtypes::set_in_facade(false);
        match r {
            Ok(Ok(v)) => Out::Ok(v),
            Ok(Err(s)) => Out::Rej(s),
            Err(p) => {
                let loc = simtypes::take_panic();
                let msg = if let Some(s) = p.downcast_ref::<&str>() {
                    s.to_string()
                } else if let Some(s) = p.downcast_ref::<String>() {
                    s.clone()
                } else {
                    "panic".to_string()
                };
                let mut m = format!("{} @ {}", msg, loc.unwrap_or_else(|| "?".into()));
                m.truncate(300);
                Out::Panic(m)
            }
        }
    }
}

impl Lib for Flavour {
    fn name(&self) -> &'static str {
        self.0
    }
    fn call(&self, g: Grp, op: Op, args: &[&[u8]]) -> Out {
        self.guarded(|| match g {
            Grp::G1 => dispatch::<Bls12381G1Impl>(op, args),
            Grp::G2 => dispatch::<Bls12381G2Impl>(op, args),
        })
    }
    /// `route` 0 = the struct-level methods; >= 1 = an alternative public route where the operation has one.
    /// (The vendored pinned release is only ever driven through the struct-level methods.)
    fn call_routed(&self, g: Grp, op: Op, args: &[&[u8]], route: u8) -> Out {
        if route == 0 || self.0 == "pinned" {
            return self.call(g, op, args);
        }
        self.guarded(|| {
            let alt = match g {
                Grp::G1 => dispatch_alt::<Bls12381G1Impl>(op, args, route)?,
                Grp::G2 => dispatch_alt::<Bls12381G2Impl>(op, args, route)?,
            };
            match alt {
                Some(v) => {
                    simtypes::note_alt_route(op);
                    Ok(v)
                }
                None => match g {
                    Grp::G1 => dispatch::<Bls12381G1Impl>(op, args),
                    Grp::G2 => dispatch::<Bls12381G2Impl>(op, args),
                },
            }
        })
    }
}
