//! `ref` — an independent re-implementation of the constructions blsful documents, written
//! from draft-irtf-cfrg-bls-signature and the papers cited in the sources, on `bls12_381_plus`
//! primitives (field / curve arithmetic, hash-to-curve, pairing) with a hand-written
//! HMAC/HKDF, LEB128 framing and hand-typed domain-separation strings.
//! It is an ORACLE and a PEER in the simulation, never code under test.

use bls12_381_plus::elliptic_curve::hash2curve::ExpandMsgXmd;
use bls12_381_plus::ff::Field;
use bls12_381_plus::group::Curve;
use bls12_381_plus::{pairing, G1Affine, G1Projective, G2Affine, G2Projective, Gt, Scalar};
/// the scalar field element type, for callers that have to name it
pub type Sc = Scalar;
pub use bls12_381_plus::Scalar as RefScalar;
use sha2::{Digest, Sha256};
use sha3::digest::{ExtendableOutput, Update, XofReader};
use sha3::Shake128;

pub mod layout;

// ------------------------------------------------------------------------------------------
// Draft strings, typed by hand from draft-irtf-cfrg-bls-signature (section 4.2) — the group in
// the name is the *signature* group: G1 = minimal-signature-size, G2 = minimal-pubkey-size.
// ------------------------------------------------------------------------------------------
pub const DRAFT_SIG_G1_NUL: &[u8] = b"BLS_SIG_BLS12381G1_XMD:SHA-256_SSWU_RO_NUL_";
pub const DRAFT_SIG_G1_AUG: &[u8] = b"BLS_SIG_BLS12381G1_XMD:SHA-256_SSWU_RO_AUG_";
pub const DRAFT_SIG_G1_POP: &[u8] = b"BLS_SIG_BLS12381G1_XMD:SHA-256_SSWU_RO_POP_";
pub const DRAFT_POP_G1: &[u8] = b"BLS_POP_BLS12381G1_XMD:SHA-256_SSWU_RO_POP_";
pub const DRAFT_SIG_G2_NUL: &[u8] = b"BLS_SIG_BLS12381G2_XMD:SHA-256_SSWU_RO_NUL_";
pub const DRAFT_SIG_G2_AUG: &[u8] = b"BLS_SIG_BLS12381G2_XMD:SHA-256_SSWU_RO_AUG_";
pub const DRAFT_SIG_G2_POP: &[u8] = b"BLS_SIG_BLS12381G2_XMD:SHA-256_SSWU_RO_POP_";
pub const DRAFT_POP_G2: &[u8] = b"BLS_POP_BLS12381G2_XMD:SHA-256_SSWU_RO_POP_";
pub const KEYGEN_SALT: &[u8] = b"BLS-SIG-KEYGEN-SALT-";

// own-protocol strings (from the pinned release's sources; C18 only)
pub const SIGNCRYPT_SALT: &[u8] = b"SIGNCRYPT_BLS12381_XOF:HKDF-SHA2-256_";
pub const TIMELOCK_SALT: &[u8] = b"TIMELOCK_BLS12381_XOF:HKDF-SHA2-256_";
pub const POK_SALT: &[u8] = b"BLS_POK__BLS12381_XOF:HKDF-SHA2-256_";
pub const ELGAMAL_SALT: &[u8] = b"ELGAMAL_BLS12381_XOF:HKDF-SHA2-256_";
pub const ELGAMAL_DST_PKG2: &[u8] = b"BLS_ELGAMAL_BLS12381G2_XMD:SHA-256_SSWU_RO_NUL_";
pub const ELGAMAL_DST_PKG1: &[u8] = b"BLS_ELGAMAL_BLS12381G1_XMD:SHA-256_SSWU_RO_NUL_";

/// Which group holds signatures. Mirrors `simtypes::Grp` without depending on it.
#[derive(Clone, Copy, Debug, PartialEq, Eq, Hash)]
pub enum SigGrp {
    G1,
    G2,
}

#[derive(Clone, Copy, Debug, PartialEq, Eq, Hash)]
pub enum Scheme {
    Basic = 0,
    Aug = 1,
    Pop = 2,
}
impl Scheme {
    pub const ALL: [Scheme; 3] = [Scheme::Basic, Scheme::Aug, Scheme::Pop];
    pub fn from_u8(b: u8) -> Scheme {
        match b {
            0 => Scheme::Basic,
            1 => Scheme::Aug,
            _ => Scheme::Pop,
        }
    }
}

/// The tags a tree uses: [basic, aug, pop_sig, pop_pop]. Either the draft's or the tree's own.
#[derive(Clone, Debug, PartialEq, Eq)]
pub struct Tags {
    pub basic: Vec<u8>,
    pub aug: Vec<u8>,
    pub pop_sig: Vec<u8>,
    pub pop_pop: Vec<u8>,
}
impl Tags {
    pub fn draft(g: SigGrp) -> Tags {
        match g {
            SigGrp::G1 => Tags {
                basic: DRAFT_SIG_G1_NUL.to_vec(),
                aug: DRAFT_SIG_G1_AUG.to_vec(),
                pop_sig: DRAFT_SIG_G1_POP.to_vec(),
                pop_pop: DRAFT_POP_G1.to_vec(),
            },
            SigGrp::G2 => Tags {
                basic: DRAFT_SIG_G2_NUL.to_vec(),
                aug: DRAFT_SIG_G2_AUG.to_vec(),
                pop_sig: DRAFT_SIG_G2_POP.to_vec(),
                pop_pop: DRAFT_POP_G2.to_vec(),
            },
        }
    }
    pub fn sig(&self, s: Scheme) -> &[u8] {
        match s {
            Scheme::Basic => &self.basic,
            Scheme::Aug => &self.aug,
            Scheme::Pop => &self.pop_sig,
        }
    }
}

// ------------------------------------------------------------------------------------------
// primitives: HMAC-SHA-256, HKDF (RFC 5869), LEB128
// ------------------------------------------------------------------------------------------
pub fn hmac_sha256(key: &[u8], data: &[&[u8]]) -> [u8; 32] {
    let mut k = [0u8; 64];
    if key.len() > 64 {
        k[..32].copy_from_slice(&Sha256::digest(key));
    } else {
        k[..key.len()].copy_from_slice(key);
    }
    let mut ipad = [0x36u8; 64];
    let mut opad = [0x5cu8; 64];
    for i in 0..64 {
        ipad[i] ^= k[i];
        opad[i] ^= k[i];
    }
    let mut h = Sha256::new();
    Digest::update(&mut h, ipad);
    for d in data {
        Digest::update(&mut h, d);
    }
    let inner = h.finalize();
    let mut h = Sha256::new();
    Digest::update(&mut h, opad);
    Digest::update(&mut h, inner);
    h.finalize().into()
}
pub fn hkdf_extract(salt: &[u8], ikm: &[&[u8]]) -> [u8; 32] {
    hmac_sha256(salt, ikm)
}
pub fn hkdf_expand(prk: &[u8; 32], info: &[u8], len: usize) -> Vec<u8> {
    let mut out = Vec::with_capacity(len);
    let mut t: Vec<u8> = vec![];
    let mut ctr = 1u8;
    while out.len() < len {
        let block = hmac_sha256(prk, &[&t, info, &[ctr]]);
        t = block.to_vec();
        out.extend_from_slice(&block);
        ctr = ctr.wrapping_add(1);
    }
    out.truncate(len);
    out
}
/// OS2IP(48 big-endian bytes) mod r
pub fn os2ip_mod_r(okm: &[u8]) -> Scalar {
    assert!(okm.len() <= 64);
    let mut wide = [0u8; 64];
    for (i, b) in okm.iter().rev().enumerate() {
        wide[i] = *b; // little-endian
    }
    Scalar::from_bytes_wide(&wide)
}
/// The construction blsful calls `hash_to_scalar(m, dst)`:
/// HKDF-Extract(salt = dst, IKM = m || 0x00), Expand(info = I2OSP(48, 2), 48), OS2IP mod r.
/// With salt "BLS-SIG-KEYGEN-SALT-" this is the KeyGen of the property statement.
pub fn hkdf_scalar(salt: &[u8], ikm: &[u8]) -> Scalar {
    let prk = hkdf_extract(salt, &[ikm, &[0u8]]);
    let okm = hkdf_expand(&prk, &[0u8, 48u8], 48);
    os2ip_mod_r(&okm)
}
pub fn keygen(ikm: &[u8]) -> Scalar {
    hkdf_scalar(KEYGEN_SALT, ikm)
}

pub fn leb128(mut v: u128) -> Vec<u8> {
    let mut out = vec![];
    loop {
        let b = (v & 0x7f) as u8;
        v >>= 7;
        if v == 0 {
            out.push(b);
            return out;
        }
        out.push(b | 0x80);
    }
}
/// returns (value, bytes used)
pub fn leb128_read(b: &[u8]) -> Option<(u128, usize)> {
    let mut x = 0u128;
    let mut s = 0u32;
    for (i, v) in b.iter().enumerate().take(19) {
        if *v < 0x80 {
            if s >= 128 {
                return None;
            }
            return Some((x | ((*v as u128) << s), i + 1));
        }
        if s < 128 {
            x |= ((*v & 0x7f) as u128) << s;
        }
        s += 7;
    }
    None
}

// ------------------------------------------------------------------------------------------
// points
// ------------------------------------------------------------------------------------------
#[derive(Clone, Copy, Debug)]
pub enum Pt {
    G1(G1Projective),
    G2(G2Projective),
}
impl PartialEq for Pt {
    fn eq(&self, o: &Self) -> bool {
        match (self, o) {
            (Pt::G1(a), Pt::G1(b)) => a == b,
            (Pt::G2(a), Pt::G2(b)) => a == b,
            _ => false,
        }
    }
}
impl Pt {
    pub fn gen1() -> Pt {
        Pt::G1(G1Projective::GENERATOR)
    }
    pub fn gen2() -> Pt {
        Pt::G2(G2Projective::GENERATOR)
    }
    pub fn id1() -> Pt {
        Pt::G1(G1Projective::IDENTITY)
    }
    pub fn id2() -> Pt {
        Pt::G2(G2Projective::IDENTITY)
    }
    pub fn is_g1(&self) -> bool {
        matches!(self, Pt::G1(_))
    }
    /// checked decoding (on curve and in the prime-order subgroup); by length 48 / 96
    pub fn from_bytes(b: &[u8]) -> Option<Pt> {
        match b.len() {
            48 => {
                let a: [u8; 48] = b.try_into().ok()?;
                Option::<G1Affine>::from(G1Affine::from_compressed(&a)).map(|p| Pt::G1(p.into()))
            }
            96 => {
                let a: [u8; 96] = b.try_into().ok()?;
                Option::<G2Affine>::from(G2Affine::from_compressed(&a)).map(|p| Pt::G2(p.into()))
            }
            _ => None,
        }
    }
    /// decoding WITHOUT the subgroup check (on-curve only) — for manufacturing Byzantine points
    pub fn from_bytes_unchecked(b: &[u8]) -> Option<Pt> {
        match b.len() {
            48 => {
                let a: [u8; 48] = b.try_into().ok()?;
                Option::<G1Affine>::from(G1Affine::from_compressed_unchecked(&a)).map(|p| Pt::G1(p.into()))
            }
            96 => {
                let a: [u8; 96] = b.try_into().ok()?;
                Option::<G2Affine>::from(G2Affine::from_compressed_unchecked(&a)).map(|p| Pt::G2(p.into()))
            }
            _ => None,
        }
    }
    pub fn to_bytes(&self) -> Vec<u8> {
        match self {
            Pt::G1(p) => p.to_affine().to_compressed().to_vec(),
            Pt::G2(p) => p.to_affine().to_compressed().to_vec(),
        }
    }
    /// the OTHER standard serialization: x || y (96 / 192 bytes, flag bits clear)
    pub fn to_uncompressed(&self) -> Vec<u8> {
        match self {
            Pt::G1(p) => p.to_affine().to_uncompressed().to_vec(),
            Pt::G2(p) => p.to_affine().to_uncompressed().to_vec(),
        }
    }
    pub fn is_identity(&self) -> bool {
        match self {
            Pt::G1(p) => bool::from(p.is_identity()),
            Pt::G2(p) => bool::from(p.is_identity()),
        }
    }
    pub fn add(&self, o: &Pt) -> Pt {
        match (self, o) {
            (Pt::G1(a), Pt::G1(b)) => Pt::G1(a + b),
            (Pt::G2(a), Pt::G2(b)) => Pt::G2(a + b),
            _ => panic!("ref: mixed-group addition"),
        }
    }
    pub fn neg(&self) -> Pt {
        match self {
            Pt::G1(a) => Pt::G1(-a),
            Pt::G2(a) => Pt::G2(-a),
        }
    }
    pub fn sub(&self, o: &Pt) -> Pt {
        self.add(&o.neg())
    }
    pub fn mul(&self, s: &Scalar) -> Pt {
        match self {
            Pt::G1(a) => Pt::G1(a * s),
            Pt::G2(a) => Pt::G2(a * s),
        }
    }
    pub fn gen_like(&self) -> Pt {
        match self {
            Pt::G1(_) => Pt::gen1(),
            Pt::G2(_) => Pt::gen2(),
        }
    }
    pub fn hash(in_g1: bool, msg: &[u8], dst: &[u8]) -> Pt {
        if in_g1 {
            Pt::G1(G1Projective::hash::<ExpandMsgXmd<Sha256>>(msg, dst))
        } else {
            Pt::G2(G2Projective::hash::<ExpandMsgXmd<Sha256>>(msg, dst))
        }
    }
}

/// What an encoding of a point *is*, judged without the library: used by C16.
#[derive(Clone, Copy, Debug, PartialEq, Eq)]
pub enum PointClass {
    Valid,
    Identity,
    OnCurveNotInSubgroup,
    Malformed,
}
pub fn classify_point(b: &[u8]) -> PointClass {
    match b.len() {
        48 => {
            let a: [u8; 48] = b.try_into().unwrap();
            match Option::<G1Affine>::from(G1Affine::from_compressed_unchecked(&a)) {
                None => PointClass::Malformed,
                Some(p) => {
                    if bool::from(p.is_identity()) {
                        PointClass::Identity
                    } else if bool::from(p.is_torsion_free()) && bool::from(p.is_on_curve()) {
                        PointClass::Valid
                    } else if bool::from(p.is_on_curve()) {
                        PointClass::OnCurveNotInSubgroup
                    } else {
                        PointClass::Malformed
                    }
                }
            }
        }
        96 => {
            let a: [u8; 96] = b.try_into().unwrap();
            match Option::<G2Affine>::from(G2Affine::from_compressed_unchecked(&a)) {
                None => PointClass::Malformed,
                Some(p) => {
                    if bool::from(p.is_identity()) {
                        PointClass::Identity
                    } else if bool::from(p.is_torsion_free()) && bool::from(p.is_on_curve()) {
                        PointClass::Valid
                    } else if bool::from(p.is_on_curve()) {
                        PointClass::OnCurveNotInSubgroup
                    } else {
                        PointClass::Malformed
                    }
                }
            }
        }
        _ => PointClass::Malformed,
    }
}

/// Manufacture a compressed encoding (48 or 96 bytes) of an on-curve point OUTSIDE the
/// prime-order subgroup, deterministically from `salt`.
pub fn off_subgroup_point(len: usize, salt: u64) -> Vec<u8> {
    let mut ctr = salt.wrapping_mul(0x9E3779B97F4A7C15);
    loop {
        ctr = ctr.wrapping_add(1);
        let mut b = vec![0u8; len];
        let h = Sha256::digest(ctr.to_le_bytes());
        let h2 = Sha256::digest(h);
        for (i, x) in b.iter_mut().enumerate() {
            *x = if i < 32 { h[i] } else { h2[i % 32] ^ (i as u8) };
        }
        b[0] = (b[0] & 0x1f) | 0x80; // compressed, not infinity, sign 0, top bits small => x < p
        b[0] &= 0x8f;
        if len == 96 {
            b[48] &= 0x0f;
        }
        if classify_point(&b) == PointClass::OnCurveNotInSubgroup {
            return b;
        }
    }
}
/// A non-identity point whose order divides the cofactor: T = r·Q for an on-curve Q outside the
/// subgroup. Adding T to a valid signature gives different bytes that satisfy the same pairing equation.
pub fn small_order_point(len: usize, salt: u64) -> Pt {
    let mut s = salt;
    loop {
        let q = Pt::from_bytes_unchecked(&off_subgroup_point(len, s)).expect("on curve");
        // r·Q = (r-1)·Q + Q
        let t = q.mul(&(-Scalar::ONE)).add(&q);
        if !t.is_identity() {
            return t;
        }
        s = s.wrapping_add(1);
    }
}
/// An x-coordinate with no curve point (compressed form), deterministically from `salt`.
pub fn off_curve_point(len: usize, salt: u64) -> Vec<u8> {
    let mut ctr = salt.wrapping_mul(0xD6E8FEB86659FD93);
    loop {
        ctr = ctr.wrapping_add(1);
        let mut b = vec![0u8; len];
        let h = Sha256::digest(ctr.to_le_bytes());
        let h2 = Sha256::digest(h);
        for (i, x) in b.iter_mut().enumerate() {
            *x = if i < 32 { h[i] } else { h2[i % 32] ^ (i as u8) };
        }
        b[0] = (b[0] & 0x0f) | 0x80;
        if len == 96 {
            b[48] &= 0x0f;
        }
        let ok = match len {
            48 => Option::<G1Affine>::from(G1Affine::from_compressed_unchecked(&b.clone().try_into().unwrap())).is_none(),
            _ => Option::<G2Affine>::from(G2Affine::from_compressed_unchecked(&b.clone().try_into().unwrap())).is_none(),
        };
        if ok {
            return b;
        }
    }
}

/// Π e(P_i, Q_i) == 1 for pairs given in any (G1,G2) order.
pub fn pairing_product_is_one(pairs: &[(Pt, Pt)]) -> bool {
    let mut acc = Gt::IDENTITY;
    for (a, b) in pairs {
        let (p, q) = match (a, b) {
            (Pt::G1(p), Pt::G2(q)) => (p, q),
            (Pt::G2(q), Pt::G1(p)) => (p, q),
            _ => panic!("ref: pairing needs one point from each group"),
        };
        acc += pairing(&p.to_affine(), &q.to_affine());
    }
    acc == Gt::IDENTITY
}
pub fn pair(a: &Pt, b: &Pt) -> Gt {
    match (a, b) {
        (Pt::G1(p), Pt::G2(q)) => pairing(&p.to_affine(), &q.to_affine()),
        (Pt::G2(q), Pt::G1(p)) => pairing(&p.to_affine(), &q.to_affine()),
        _ => panic!("ref: pairing needs one point from each group"),
    }
}

pub fn scalar_from_be(b: &[u8]) -> Option<Scalar> {
    let a: [u8; 32] = b.try_into().ok()?;
    Option::from(Scalar::from_be_bytes(&a))
}
pub fn scalar_to_be(s: &Scalar) -> Vec<u8> {
    s.to_be_bytes().to_vec()
}
pub fn scalar_from_u64(v: u64) -> Scalar {
    Scalar::from(v)
}
/// r - k
pub fn scalar_neg_u64(k: u64) -> Scalar {
    -Scalar::from(k)
}

// ------------------------------------------------------------------------------------------
// The BLS signature schemes of the draft (sections 2 and 3)
// ------------------------------------------------------------------------------------------
pub struct Bls {
    pub g: SigGrp,
    pub tags: Tags,
}
impl Bls {
    pub fn draft(g: SigGrp) -> Bls {
        Bls { g, tags: Tags::draft(g) }
    }
    pub fn with_tags(g: SigGrp, tags: Tags) -> Bls {
        Bls { g, tags }
    }
    fn sig_in_g1(&self) -> bool {
        self.g == SigGrp::G1
    }
    pub fn pk_gen(&self) -> Pt {
        if self.sig_in_g1() {
            Pt::gen2()
        } else {
            Pt::gen1()
        }
    }
    pub fn sig_len(&self) -> usize {
        if self.sig_in_g1() {
            48
        } else {
            96
        }
    }
    pub fn pk_len(&self) -> usize {
        144 - self.sig_len()
    }
    pub fn sk_to_pk(&self, sk: &Scalar) -> Pt {
        self.pk_gen().mul(sk)
    }
    pub fn hash_msg(&self, msg: &[u8], dst: &[u8]) -> Pt {
        Pt::hash(self.sig_in_g1(), msg, dst)
    }
    pub fn core_sign(&self, sk: &Scalar, msg: &[u8], dst: &[u8]) -> Pt {
        self.hash_msg(msg, dst).mul(sk)
    }
    /// CoreVerify of the draft: pk must be a valid non-identity subgroup point (KeyValidate),
    /// the signature a subgroup point; e(pk, H(m)) == e(P, sig).
    pub fn core_verify(&self, pk: &Pt, sig: &Pt, msg: &[u8], dst: &[u8]) -> bool {
        if pk.is_identity() {
            return false;
        }
        if pk.is_g1() == self.sig_in_g1() || sig.is_g1() != self.sig_in_g1() {
            return false;
        }
        let h = self.hash_msg(msg, dst);
        pairing_product_is_one(&[(h, *pk), (*sig, self.pk_gen().neg())])
    }
    pub fn aug_msg(&self, pk: &Pt, msg: &[u8]) -> Vec<u8> {
        let mut m = pk.to_bytes();
        m.extend_from_slice(msg);
        m
    }
    pub fn sign(&self, s: Scheme, sk: &Scalar, msg: &[u8]) -> Pt {
        match s {
            Scheme::Basic => self.core_sign(sk, msg, &self.tags.basic),
            Scheme::Aug => {
                let m = self.aug_msg(&self.sk_to_pk(sk), msg);
                self.core_sign(sk, &m, &self.tags.aug)
            }
            Scheme::Pop => self.core_sign(sk, msg, &self.tags.pop_sig),
        }
    }
    pub fn verify(&self, s: Scheme, pk: &Pt, sig: &Pt, msg: &[u8]) -> bool {
        match s {
            Scheme::Basic => self.core_verify(pk, sig, msg, &self.tags.basic),
            Scheme::Aug => {
                let m = self.aug_msg(pk, msg);
                self.core_verify(pk, sig, &m, &self.tags.aug)
            }
            Scheme::Pop => self.core_verify(pk, sig, msg, &self.tags.pop_sig),
        }
    }
    pub fn pop_prove(&self, sk: &Scalar) -> Pt {
        let pk = self.sk_to_pk(sk);
        self.core_sign(sk, &pk.to_bytes(), &self.tags.pop_pop)
    }
    pub fn pop_verify(&self, pk: &Pt, proof: &Pt) -> bool {
        self.core_verify(pk, proof, &pk.to_bytes(), &self.tags.pop_pop)
    }
    pub fn aggregate(&self, sigs: &[Pt]) -> Pt {
        let mut acc = if self.sig_in_g1() { Pt::id1() } else { Pt::id2() };
        for s in sigs {
            acc = acc.add(s);
        }
        acc
    }
    /// CoreAggregateVerify (no distinctness rule — that is the scheme's job)
    pub fn core_aggregate_verify(&self, pairs: &[(Pt, Vec<u8>)], sig: &Pt, dst: &[u8]) -> bool {
        if pairs.is_empty() || sig.is_g1() != self.sig_in_g1() {
            return false;
        }
        let mut v = Vec::with_capacity(pairs.len() + 1);
        for (pk, m) in pairs {
            if pk.is_identity() || pk.is_g1() == self.sig_in_g1() {
                return false;
            }
            v.push((self.hash_msg(m, dst), *pk));
        }
        v.push((*sig, self.pk_gen().neg()));
        pairing_product_is_one(&v)
    }
    /// AggregateVerify of the three schemes incl. the Basic distinct-message rule
    pub fn aggregate_verify(&self, s: Scheme, pairs: &[(Pt, Vec<u8>)], sig: &Pt) -> bool {
        match s {
            Scheme::Basic => {
                for i in 0..pairs.len() {
                    for j in 0..i {
                        if pairs[i].1 == pairs[j].1 {
                            return false;
                        }
                    }
                }
                self.core_aggregate_verify(pairs, sig, &self.tags.basic)
            }
            Scheme::Aug => {
                let p: Vec<(Pt, Vec<u8>)> = pairs.iter().map(|(pk, m)| (*pk, self.aug_msg(pk, m))).collect();
                self.core_aggregate_verify(&p, sig, &self.tags.aug)
            }
            Scheme::Pop => self.core_aggregate_verify(pairs, sig, &self.tags.pop_sig),
        }
    }
}

// ------------------------------------------------------------------------------------------
// blsful's own protocols, re-implemented from the papers / documented constructions (C18)
// ------------------------------------------------------------------------------------------
pub fn shake128(input: &[u8], out_len: usize) -> Vec<u8> {
    let mut h = Shake128::default();
    h.update(input);
    let mut r = h.finalize_xof();
    let mut out = vec![0u8; out_len];
    r.read(&mut out);
    out
}
pub fn xor(a: &[u8], b: &[u8]) -> Vec<u8> {
    a.iter().zip(b.iter()).map(|(x, y)| x ^ y).collect()
}
/// length-prefixed (LEB128) payload, zero padded to at least 32 bytes
pub fn frame(msg: &[u8]) -> Vec<u8> {
    let mut f = leb128(msg.len() as u128);
    f.extend_from_slice(msg);
    while f.len() < 32 {
        f.push(0);
    }
    f
}
pub fn unframe(f: &[u8]) -> Option<Vec<u8>> {
    let (len, used) = leb128_read(f)?;
    let len = usize::try_from(len).ok()?;
    if len <= f.len() - used {
        Some(f[used..used + len].to_vec())
    } else {
        None
    }
}

pub struct SignCrypt {
    pub u: Pt,
    pub v: Vec<u8>,
    pub w: Pt,
}
/// Signcryption seal (Baek–Zheng style as documented in the sources):
/// U = rP, V = SHAKE128(r·pk) ⊕ frame(M), W = r·H(U ‖ V).
pub fn signcrypt_seal(b: &Bls, pk: &Pt, msg: &[u8], dst: &[u8], r: &Scalar) -> SignCrypt {
    let u = b.pk_gen().mul(r);
    let f = frame(msg);
    let ks = shake128(&pk.mul(r).to_bytes(), f.len());
    let v = xor(&f, &ks);
    let mut t = u.to_bytes();
    t.extend_from_slice(&v);
    let w = b.hash_msg(&t, dst).mul(r);
    SignCrypt { u, v, w }
}
/// the same with a frame the caller made by hand (not padded, any length)
pub fn signcrypt_seal_framed(b: &Bls, pk: &Pt, f: &[u8], dst: &[u8], r: &Scalar) -> SignCrypt {
    let u = b.pk_gen().mul(r);
    let ks = shake128(&pk.mul(r).to_bytes(), f.len());
    let v = xor(f, &ks);
    let mut t = u.to_bytes();
    t.extend_from_slice(&v);
    let w = b.hash_msg(&t, dst).mul(r);
    SignCrypt { u, v, w }
}
pub fn signcrypt_valid(b: &Bls, c: &SignCrypt, dst: &[u8]) -> bool {
    if c.u.is_identity() || c.w.is_identity() {
        return false;
    }
    let mut t = c.u.to_bytes();
    t.extend_from_slice(&c.v);
    let h = b.hash_msg(&t, dst);
    pairing_product_is_one(&[(c.w, b.pk_gen().neg()), (h, c.u)])
}
pub fn signcrypt_open(b: &Bls, c: &SignCrypt, sk: &Scalar, dst: &[u8]) -> Option<Vec<u8>> {
    if !signcrypt_valid(b, c, dst) {
        return None;
    }
    let ks = shake128(&c.u.mul(sk).to_bytes(), c.v.len());
    unframe(&xor(&c.v, &ks))
}

pub struct TimeLock {
    pub u: Pt,
    pub v: [u8; 32],
    pub w: Vec<u8>,
}
fn gt_bytes(k: &Gt) -> Vec<u8> {
    k.to_bytes().to_vec()
}
/// Time-lock (IBE with Fujisaki–Okamoto): r = H(α ‖ SHA256(M)), U = rP,
/// V = SHA256(e(H(id), r·pk)) ⊕ α, W = SHAKE128(α) ⊕ frame(M); α given as a scalar.
pub fn timelock_seal(b: &Bls, pk: &Pt, msg: &[u8], id_point: &Pt, alpha: &Scalar) -> TimeLock {
    let alpha_le = alpha.to_le_bytes();
    let mut r_in = alpha_le.to_vec();
    r_in.extend_from_slice(&Sha256::digest(msg));
    let r = hkdf_scalar(TIMELOCK_SALT, &r_in);
    let k = pair(id_point, &pk.mul(&r));
    let u = b.pk_gen().mul(&r);
    let hk = Sha256::digest(gt_bytes(&k));
    let v: [u8; 32] = xor(&alpha_le, &hk).try_into().unwrap();
    let f = frame(msg);
    let w = xor(&f, &shake128(&alpha_le, f.len()));
    TimeLock { u, v, w }
}
/// the same with alpha given as the 32 bytes the opener will see (it treats them as an opaque string: another
/// implementation may write its alpha big-endian, or draw it from {0,1}^256)
pub fn timelock_seal_raw_alpha(b: &Bls, pk: &Pt, msg: &[u8], id_point: &Pt, alpha32: &[u8; 32]) -> TimeLock {
    let mut r_in = alpha32.to_vec();
    r_in.extend_from_slice(&Sha256::digest(msg));
    let r = hkdf_scalar(TIMELOCK_SALT, &r_in);
    let k = pair(id_point, &pk.mul(&r));
    let u = b.pk_gen().mul(&r);
    let hk = Sha256::digest(gt_bytes(&k));
    let v: [u8; 32] = xor(alpha32, &hk).try_into().unwrap();
    let f = frame(msg);
    let w = xor(&f, &shake128(alpha32, f.len()));
    TimeLock { u, v, w }
}
pub fn timelock_open(b: &Bls, c: &TimeLock, sig: &Pt) -> Option<Vec<u8>> {
    if sig.is_identity() || c.u.is_identity() {
        return None;
    }
    let k = pair(sig, &c.u);
    let hk = Sha256::digest(gt_bytes(&k));
    let alpha = xor(&c.v, &hk);
    let f = xor(&c.w, &shake128(&alpha, c.w.len()));
    let msg = unframe(&f)?;
    let mut r_in = alpha.clone();
    r_in.extend_from_slice(&Sha256::digest(&msg));
    let r = hkdf_scalar(TIMELOCK_SALT, &r_in);
    if b.pk_gen().mul(&r) == c.u {
        Some(msg)
    } else {
        None
    }
}

/// PoK of a signature (M-Pin style): y = H(u ‖ t_le) for the timestamp variant
pub fn pok_challenge_ts(u: &Pt, t: u64) -> Scalar {
    let mut bytes = u.to_bytes();
    bytes.extend_from_slice(&t.to_le_bytes());
    hkdf_scalar(POK_SALT, &bytes)
}
/// (u, v) = (x·H(m), −(x+y)·sig)
pub fn pok_make(b: &Bls, msg: &[u8], dst: &[u8], sig: &Pt, x: &Scalar, y: &Scalar) -> (Pt, Pt) {
    let u = b.hash_msg(msg, dst).mul(x);
    let v = sig.mul(&(x + y)).neg();
    (u, v)
}
/// e(v, P) · e(u + y·H(m), pk) == 1
pub fn pok_verify(b: &Bls, u: &Pt, v: &Pt, pk: &Pt, y: &Scalar, msg: &[u8], dst: &[u8]) -> bool {
    if u.is_identity() || v.is_identity() || pk.is_identity() || bool::from(y.is_zero()) {
        return false;
    }
    let a = b.hash_msg(msg, dst);
    pairing_product_is_one(&[(*v, b.pk_gen()), (u.add(&a.mul(y)), *pk)])
}

/// Ciphersuite identifiers of EARLIER drafts of draft-irtf-cfrg-bls-signature (-00/-01 spelling) and a few other
/// near-misses of the current ones: what a "compatibility" path would accept. Nothing made under them is valid.
pub fn historical_tags(sig_in_g1: bool) -> Vec<Vec<u8>> {
    let g = if sig_in_g1 { "G1" } else { "G2" };
    let mut v: Vec<String> = vec![];
    for kind in ["NUL", "AUG", "POP"] {
        v.push(format!("BLS_SIG_BLS12381{}-SHA256-SSWU-RO-_{}_", g, kind));
        v.push(format!("BLS_SIG_BLS12381{}_XMD:SHA-256_SSWU_RO_{}", g, kind));
        v.push(format!("BLS_SIG_BLS12381{}_XMD:SHA-256_SSWU_NU_{}_", g, kind));
    }
    v.push(format!("BLS_POP_BLS12381{}-SHA256-SSWU-RO-_POP_", g));
    v.push(format!("BLS_POP_BLS12381{}_XMD:SHA-256_SSWU_RO_POP", g));
    v.push(format!("BLS_POP_BLS12381{}_XMD:SHA-256_SSWU_RO_NUL_", g));
    v.push(format!("QUUX-V01-CS02-with-BLS12381{}_XMD:SHA-256_SSWU_RO_", g));
    v.into_iter().map(|s| s.into_bytes()).collect()
}

/// ElGamal in the public-key group with message generator H = hash_to_curve(P) under ENC_DST
pub fn elgamal_generator(b: &Bls, enc_dst: &[u8]) -> Pt {
    let g = b.pk_gen();
    Pt::hash(g.is_g1(), &g.to_bytes(), enc_dst)
}
pub struct ElGamalProofRef {
    pub c1: Pt,
    pub c2: Pt,
    pub message_proof: Scalar,
    pub blinder_proof: Scalar,
    pub challenge: Scalar,
}
fn elgamal_challenge(b: &Bls, pk: &Pt, h: &Pt, c1: &Pt, c2: &Pt, r1: &Pt, r2: &Pt) -> Scalar {
    let mut t = merlin::Transcript::new(b"ElGamalProof");
    t.append_message(b"dst", ELGAMAL_SALT);
    t.append_message(b"base point", &b.pk_gen().to_bytes());
    t.append_message(b"pk", &pk.to_bytes());
    t.append_message(b"generator", &h.to_bytes());
    t.append_message(b"c1", &c1.to_bytes());
    t.append_message(b"c2", &c2.to_bytes());
    t.append_message(b"r1", &r1.to_bytes());
    t.append_message(b"r2", &r2.to_bytes());
    let mut ch = [0u8; 64];
    t.challenge_bytes(b"challenge", &mut ch);
    Scalar::from_bytes_wide(&ch)
}
/// Near-misses of the documented Fiat-Shamir transcript (labels L0..L6 = base point, pk, generator, c1, c2, r1, r2 over the
/// items I0..I6 in that order): each variant is the list of (label index, item index) pairs that get absorbed, plus
/// whether the leading "dst" message is kept. What a "legacy layout" / "compatibility" branch of a verifier would accept.
pub fn elgamal_transcript_variants() -> Vec<(String, bool, Vec<(usize, usize)>)> {
    let full: Vec<(usize, usize)> = (0..7).map(|i| (i, i)).collect();
    let mut v = vec![];
    for i in 0..7 {
        let mut p = full.clone();
        p.remove(i);
        v.push((format!("pair {} dropped", i), true, p));
        // one label removed, the rest zipped against all items (labels shift, the last item is never absorbed)
        let labels: Vec<usize> = (0..7).filter(|l| *l != i).collect();
        v.push((format!("label {} removed, zipped", i), true, labels.iter().enumerate().map(|(k, l)| (*l, k)).collect()));
        // one item removed, labels zipped against the remaining items
        let items: Vec<usize> = (0..7).filter(|l| *l != i).collect();
        v.push((format!("item {} removed, zipped", i), true, items.iter().enumerate().map(|(k, it)| (k, *it)).collect()));
        for j in 0..7 {
            if i != j {
                let mut p = full.clone();
                p[i] = (i, j);
                v.push((format!("slot {} absorbs item {}", i, j), true, p));
            }
        }
    }
    for i in 0..6 {
        let mut p = full.clone();
        p.swap(i, i + 1);
        v.push((format!("pairs {} and {} swapped", i, i + 1), true, p));
    }
    v.push(("dst message dropped".into(), false, full));
    v
}
fn elgamal_challenge_variant(b: &Bls, items: &[Pt; 7], with_dst: bool, pairs: &[(usize, usize)]) -> Scalar {
    const LABELS: [&[u8]; 7] = [b"base point", b"pk", b"generator", b"c1", b"c2", b"r1", b"r2"];
    let _ = b;
    let mut t = merlin::Transcript::new(b"ElGamalProof");
    if with_dst {
        t.append_message(b"dst", ELGAMAL_SALT);
    }
    for (l, i) in pairs {
        t.append_message(LABELS[*l], &items[*i].to_bytes());
    }
    let mut ch = [0u8; 64];
    t.challenge_bytes(b"challenge", &mut ch);
    Scalar::from_bytes_wide(&ch)
}
/// An honest prover's proof, except that the challenge is derived over a variant transcript: it satisfies both
/// verification equations for ITS challenge, which is not the documented one — a correct verifier refuses it.
pub fn elgamal_prove_variant(b: &Bls, pk: &Pt, h: &Pt, m: &Scalar, blind: &Scalar, r: &Scalar, with_dst: bool, pairs: &[(usize, usize)]) -> ElGamalProofRef {
    let p = b.pk_gen();
    let c1 = p.mul(blind);
    let c2 = pk.mul(blind).add(&h.mul(m));
    let r1 = p.mul(r);
    let r2 = pk.mul(r).add(&h.mul(blind));
    let c = elgamal_challenge_variant(b, &[p, *pk, *h, c1, c2, r1, r2], with_dst, pairs);
    ElGamalProofRef { c1, c2, message_proof: blind + c * m, blinder_proof: r + c * blind, challenge: c }
}
pub fn elgamal_prove(b: &Bls, pk: &Pt, h: &Pt, m: &Scalar, blind: &Scalar, r: &Scalar) -> ElGamalProofRef {
    let p = b.pk_gen();
    let c1 = p.mul(blind);
    let c2 = pk.mul(blind).add(&h.mul(m));
    let r1 = p.mul(r);
    let r2 = pk.mul(r).add(&h.mul(blind));
    let c = elgamal_challenge(b, pk, h, &c1, &c2, &r1, &r2);
    ElGamalProofRef { c1, c2, message_proof: blind + c * m, blinder_proof: r + c * blind, challenge: c }
}
pub fn elgamal_verify(b: &Bls, pk: &Pt, h: &Pt, pr: &ElGamalProofRef) -> bool {
    if pk.is_identity() || pr.c1.is_identity() || pr.c2.is_identity() {
        return false;
    }
    if bool::from(pr.message_proof.is_zero() | pr.blinder_proof.is_zero() | pr.challenge.is_zero()) {
        return false;
    }
    let nc = -pr.challenge;
    let r1 = pr.c1.mul(&nc).add(&b.pk_gen().mul(&pr.blinder_proof));
    let r2 = pr.c2.mul(&nc).add(&h.mul(&pr.message_proof)).add(&pk.mul(&pr.blinder_proof));
    elgamal_challenge(b, pk, h, &pr.c1, &pr.c2, &r1, &r2) == pr.challenge
}

/// Lagrange interpolation at zero over one-byte identifiers (scalars)
pub fn lagrange_at_zero(ids: &[u8]) -> Option<Vec<Scalar>> {
    let mut out = vec![];
    for (i, xi) in ids.iter().enumerate() {
        let mut num = Scalar::ONE;
        let mut den = Scalar::ONE;
        for (j, xj) in ids.iter().enumerate() {
            if i == j {
                continue;
            }
            let xi_s = Scalar::from(*xi as u64);
            let xj_s = Scalar::from(*xj as u64);
            num *= xj_s;
            den *= xj_s - xi_s;
        }
        let inv: Option<Scalar> = den.invert().into();
        out.push(num * inv?);
    }
    Some(out)
}

#[cfg(test)]
mod tests {
    use super::*;
    fn hx(s: &str) -> Vec<u8> {
        (0..s.len()).step_by(2).map(|i| u8::from_str_radix(&s[i..i + 2], 16).unwrap()).collect()
    }
    #[test]
    fn rfc5869_tc1() {
        let ikm = [0x0bu8; 22];
        let salt: Vec<u8> = (0u8..=0x0c).collect();
        let info: Vec<u8> = (0xf0u8..=0xf9).collect();
        let prk = hkdf_extract(&salt, &[&ikm]);
        let okm = hkdf_expand(&prk, &info, 42);
        assert_eq!(
            okm,
            hx("3cb25f25faacd57a90434f64d0362f2a2d2d0a90cf1a5a4c5db02d56ecc4c5bf34007208d5b887185865")
        );
    }
    #[test]
    fn leb() {
        for v in [0u128, 1, 127, 128, 16383, 16384, 65536, u64::MAX as u128] {
            let e = leb128(v);
            assert_eq!(leb128_read(&e), Some((v, e.len())));
        }
    }
}
