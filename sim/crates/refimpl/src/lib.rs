pub fn hello() {}
