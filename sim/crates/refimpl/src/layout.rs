//! Field-level view of the library's `Bytes` encodings (serde_bare layouts), written
//! independently of the library so the harness can tamper with single fields, build Byzantine
//! artefacts and exchange values with the reference implementation.
//!
//! Layouts (S = signature-group point length, P = public-key-group point length):
//!   Signature / AggregateSignature / MultiSignature / ProofCommitment : tag(1) ‖ point(S)
//!   ProofOfKnowledge            : tag(1) ‖ u(S) ‖ v(S)
//!   ProofOfKnowledgeTimestamp   : tag(1) ‖ u(S) ‖ v(S) ‖ t(8, LE)
//!   SignCryptCiphertext         : u(P) ‖ leb128(len) ‖ v ‖ w(S) ‖ scheme(1)
//!   TimeCryptCiphertext         : u(P) ‖ v(32) ‖ leb128(len) ‖ w ‖ scheme(1)
//!   ElGamalCiphertext           : c1(P) ‖ c2(P)
//!   ElGamalProof                : c1(P) ‖ c2(P) ‖ mp(32 BE) ‖ bp(32 BE) ‖ ch(32 BE)
//!   SecretKeyShare              : id(1) ‖ value(32, LE)
//!   PublicKeyShare / SignDecryptionShare / ElGamalDecryptionShare : id(1) ‖ point(P)
//!   SignatureShare              : scheme(1) ‖ id(1) ‖ point(S)
//!   keys / PoP / multi-key / decryption keys : the bare point; scalars: 32 bytes BE

use crate::{leb128, leb128_read};

#[derive(Clone, Debug, PartialEq, Eq)]
pub struct SignCryptFields {
    pub u: Vec<u8>,
    pub v: Vec<u8>,
    pub w: Vec<u8>,
    pub scheme: u8,
}
impl SignCryptFields {
    pub fn parse(b: &[u8], pk_len: usize) -> Option<Self> {
        let sig_len = 144 - pk_len;
        if b.len() < pk_len {
            return None;
        }
        let u = b[..pk_len].to_vec();
        let (len, used) = leb128_read(&b[pk_len..])?;
        let len = usize::try_from(len).ok()?;
        let vs = pk_len + used;
        if b.len() != vs + len + sig_len + 1 {
            return None;
        }
        Some(SignCryptFields {
            u,
            v: b[vs..vs + len].to_vec(),
            w: b[vs + len..vs + len + sig_len].to_vec(),
            scheme: b[vs + len + sig_len],
        })
    }
    pub fn build(&self) -> Vec<u8> {
        let mut o = self.u.clone();
        o.extend_from_slice(&leb128(self.v.len() as u128));
        o.extend_from_slice(&self.v);
        o.extend_from_slice(&self.w);
        o.push(self.scheme);
        o
    }
}

#[derive(Clone, Debug, PartialEq, Eq)]
pub struct TimeLockFields {
    pub u: Vec<u8>,
    pub v: Vec<u8>, // 32
    pub w: Vec<u8>,
    pub scheme: u8,
}
impl TimeLockFields {
    pub fn parse(b: &[u8], pk_len: usize) -> Option<Self> {
        if b.len() < pk_len + 32 {
            return None;
        }
        let u = b[..pk_len].to_vec();
        let v = b[pk_len..pk_len + 32].to_vec();
        let (len, used) = leb128_read(&b[pk_len + 32..])?;
        let len = usize::try_from(len).ok()?;
        let ws = pk_len + 32 + used;
        if b.len() != ws + len + 1 {
            return None;
        }
        Some(TimeLockFields { u, v, w: b[ws..ws + len].to_vec(), scheme: b[ws + len] })
    }
    pub fn build(&self) -> Vec<u8> {
        let mut o = self.u.clone();
        o.extend_from_slice(&self.v);
        o.extend_from_slice(&leb128(self.w.len() as u128));
        o.extend_from_slice(&self.w);
        o.push(self.scheme);
        o
    }
}

#[derive(Clone, Debug, PartialEq, Eq)]
pub struct PokFields {
    pub tag: u8,
    pub u: Vec<u8>,
    pub v: Vec<u8>,
    pub ts: Option<u64>,
}
impl PokFields {
    pub fn parse(b: &[u8], sig_len: usize) -> Option<Self> {
        if b.len() == 1 + 2 * sig_len {
            Some(PokFields { tag: b[0], u: b[1..1 + sig_len].to_vec(), v: b[1 + sig_len..].to_vec(), ts: None })
        } else if b.len() == 1 + 2 * sig_len + 8 {
            let t: [u8; 8] = b[1 + 2 * sig_len..].try_into().ok()?;
            Some(PokFields {
                tag: b[0],
                u: b[1..1 + sig_len].to_vec(),
                v: b[1 + sig_len..1 + 2 * sig_len].to_vec(),
                ts: Some(u64::from_le_bytes(t)),
            })
        } else {
            None
        }
    }
    pub fn build(&self) -> Vec<u8> {
        let mut o = vec![self.tag];
        o.extend_from_slice(&self.u);
        o.extend_from_slice(&self.v);
        if let Some(t) = self.ts {
            o.extend_from_slice(&t.to_le_bytes());
        }
        o
    }
}

#[derive(Clone, Debug, PartialEq, Eq)]
pub struct ElGamalFields {
    pub c1: Vec<u8>,
    pub c2: Vec<u8>,
    /// message_proof, blinder_proof, challenge (32 bytes BE each) when this is a proof
    pub proof: Option<[Vec<u8>; 3]>,
}
impl ElGamalFields {
    pub fn parse(b: &[u8], pk_len: usize) -> Option<Self> {
        if b.len() == 2 * pk_len {
            Some(ElGamalFields { c1: b[..pk_len].to_vec(), c2: b[pk_len..].to_vec(), proof: None })
        } else if b.len() == 2 * pk_len + 96 {
            let s = 2 * pk_len;
            Some(ElGamalFields {
                c1: b[..pk_len].to_vec(),
                c2: b[pk_len..s].to_vec(),
                proof: Some([b[s..s + 32].to_vec(), b[s + 32..s + 64].to_vec(), b[s + 64..].to_vec()]),
            })
        } else {
            None
        }
    }
    pub fn build(&self) -> Vec<u8> {
        let mut o = self.c1.clone();
        o.extend_from_slice(&self.c2);
        if let Some(p) = &self.proof {
            for x in p {
                o.extend_from_slice(x);
            }
        }
        o
    }
}

/// tag(1) ‖ point — Signature, AggregateSignature, MultiSignature, ProofCommitment
pub fn tagged(tag: u8, point: &[u8]) -> Vec<u8> {
    let mut o = vec![tag];
    o.extend_from_slice(point);
    o
}
pub fn untag(b: &[u8]) -> Option<(u8, &[u8])> {
    b.split_first().map(|(t, r)| (*t, r))
}
/// id(1) ‖ payload — key shares and point shares
pub fn share(id: u8, payload: &[u8]) -> Vec<u8> {
    tagged(id, payload)
}
/// scheme(1) ‖ id(1) ‖ point — SignatureShare
pub fn sig_share(scheme: u8, id: u8, point: &[u8]) -> Vec<u8> {
    let mut o = vec![scheme, id];
    o.extend_from_slice(point);
    o
}

/// Byte offsets of every point in the `Bytes` form of a type, as (offset, len). `ty` uses the
/// names of `simtypes::Ty`. Used by the Byzantine encoder (C16) to replace points in place.
pub fn point_positions(ty: &str, pk_len: usize, b: &[u8]) -> Vec<(usize, usize)> {
    let s = 144 - pk_len;
    match ty {
        "PublicKey" | "MultiPublicKey" | "SignCryptDecryptionKey" | "ElGamalDecryptionKey" => vec![(0, pk_len)],
        "ProofOfPossession" => vec![(0, s)],
        "Signature" | "AggregateSignature" | "MultiSignature" | "ProofCommitment" => vec![(1, s)],
        "ProofOfKnowledge" | "ProofOfKnowledgeTimestamp" => vec![(1, s), (1 + s, s)],
        "PublicKeyShare" | "SignDecryptionShare" | "ElGamalDecryptionShare" => vec![(1, pk_len)],
        "SignatureShare" => vec![(2, s)],
        "ElGamalCiphertext" | "ElGamalProof" => vec![(0, pk_len), (pk_len, pk_len)],
        "TimeCryptCiphertext" => vec![(0, pk_len)],
        "SignCryptCiphertext" => {
            let mut v = vec![(0, pk_len)];
            if b.len() > s + 1 {
                v.push((b.len() - 1 - s, s));
            }
            v
        }
        _ => vec![],
    }
}
