//! Facade instance for flavour `pinned` (package blsful_pinned). See ../facade_impl.rs.
include!("../../facade_impl.rs");
pub static LIB: Flavour = Flavour("pinned");
