//! A third serde format, owned by the harness: a self-describing value tree with a small TLV wire form.
//!
//! serde_bare and serde_json are only two of the formats a user of the library may plug in. They share habits
//! that a `Deserialize` impl must not rely on: serde_bare hands a tuple visitor exactly as many elements as it
//! asked for and always *owns* the byte buffers it hands over; serde_json only ever shows strings. Self-describing
//! binary formats (CBOR, MessagePack, postcard with borrowed input, ...) let the *sender* choose how many elements
//! an array has, lend byte slices and strings instead of giving them away, and may present a struct as a map. This
//! format does all of that, under the caller's control, so the simulator can stand for "some other serde format":
//!
//! * `Mode::human_readable` — what `is_human_readable()` answers on both sides;
//! * `Mode::lend` — byte strings and strings are handed to visitors as transient borrows (`visit_bytes`,
//!   `visit_str`) instead of owned values (`visit_byte_buf`, `visit_string`);
//! * `Mode::structs_as_maps` — structs are written as maps keyed by field name instead of sequences;
//! * sequences are presented to visitors with the length the *document* has, whatever the visitor asked for.
//!
//! The tree (`V`) is also the place where a Byzantine encoder works: `mutations` yields structure-level
//! corruptions (one element more or fewer in a sequence, a byte string where a sequence was, a wrong scalar kind,
//! an unknown map key, ...), each a well-formed document.

use serde::de::{self, DeserializeSeed, EnumAccess, IntoDeserializer, MapAccess, SeqAccess, VariantAccess, Visitor};
use serde::ser::{self, Serialize};
use std::fmt;

#[derive(Clone, Debug, PartialEq)]
pub enum V {
    Unit,
    Bool(bool),
    U(u64),
    I(i64),
    U128(u128),
    F(u64), // f64 bits (never produced by the library's types; kept so hostile documents can contain one)
    Bytes(Vec<u8>),
    Str(String),
    Seq(Vec<V>),
    Map(Vec<(V, V)>),
    None,
    Some(Box<V>),
    /// enum variant: index, name, payload (Unit for unit variants; Seq for tuple variants; Seq/Map for struct variants)
    Variant(u32, String, Box<V>),
}

#[derive(Clone, Copy, Debug, PartialEq, Eq)]
pub struct Mode {
    pub human_readable: bool,
    pub lend: bool,
    pub structs_as_maps: bool,
    /// what `SeqAccess::size_hint` / `MapAccess::size_hint` announce: 0 = the true remaining count, 1 = usize::MAX,
    /// 2 = 2^40 (a length-prefixed format reports what the document's header SAYS; a hint is only a hint)
    pub hint: u8,
    /// how a struct written as a map names its fields: 0 = the field name as a string, 1 = "packed": the field's index as
    /// an integer for fields at even positions and the field name as a byte string for those at odd positions (codecs that
    /// key struct fields by position, or hand names out as bytes)
    pub keys: u8,
}

#[derive(Debug)]
pub struct Error(pub String);
impl fmt::Display for Error {
    fn fmt(&self, f: &mut fmt::Formatter) -> fmt::Result {
        f.write_str(&self.0)
    }
}
impl std::error::Error for Error {}
impl ser::Error for Error {
    fn custom<T: fmt::Display>(m: T) -> Self {
        Error(m.to_string())
    }
}
impl de::Error for Error {
    fn custom<T: fmt::Display>(m: T) -> Self {
        Error(m.to_string())
    }
}

// ---------------------------------------------------------------------------------------------- wire form (TLV)

const T_UNIT: u8 = 0;
const T_FALSE: u8 = 1;
const T_TRUE: u8 = 2;
const T_U: u8 = 3;
const T_I: u8 = 4;
const T_U128: u8 = 5;
const T_F: u8 = 6;
const T_BYTES: u8 = 7;
const T_STR: u8 = 8;
const T_SEQ: u8 = 9;
const T_MAP: u8 = 10;
const T_NONE: u8 = 11;
const T_SOME: u8 = 12;
const T_VARIANT: u8 = 13;

fn put_len(out: &mut Vec<u8>, mut n: u64) {
    loop {
        let b = (n & 0x7f) as u8;
        n >>= 7;
        if n == 0 {
            out.push(b);
            return;
        }
        out.push(b | 0x80);
    }
}
fn get_len(b: &[u8], pos: &mut usize) -> Result<u64, Error> {
    let mut n = 0u64;
    let mut shift = 0u32;
    loop {
        let x = *b.get(*pos).ok_or_else(|| Error("vtree: truncated length".into()))?;
        *pos += 1;
        if shift >= 63 && x > 1 {
            return Err(Error("vtree: length overflow".into()));
        }
        n |= ((x & 0x7f) as u64) << shift;
        if x & 0x80 == 0 {
            return Ok(n);
        }
        shift += 7;
        if shift > 63 {
            return Err(Error("vtree: length overflow".into()));
        }
    }
}

impl V {
    pub fn to_wire(&self) -> Vec<u8> {
        let mut out = vec![];
        self.put(&mut out);
        out
    }
    fn put(&self, out: &mut Vec<u8>) {
        match self {
            V::Unit => out.push(T_UNIT),
            V::Bool(false) => out.push(T_FALSE),
            V::Bool(true) => out.push(T_TRUE),
            V::U(x) => {
                out.push(T_U);
                put_len(out, *x);
            }
            V::I(x) => {
                out.push(T_I);
                out.extend_from_slice(&x.to_le_bytes());
            }
            V::U128(x) => {
                out.push(T_U128);
                out.extend_from_slice(&x.to_le_bytes());
            }
            V::F(x) => {
                out.push(T_F);
                out.extend_from_slice(&x.to_le_bytes());
            }
            V::Bytes(b) => {
                out.push(T_BYTES);
                put_len(out, b.len() as u64);
                out.extend_from_slice(b);
            }
            V::Str(s) => {
                out.push(T_STR);
                put_len(out, s.len() as u64);
                out.extend_from_slice(s.as_bytes());
            }
            V::Seq(v) => {
                out.push(T_SEQ);
                put_len(out, v.len() as u64);
                for x in v {
                    x.put(out);
                }
            }
            V::Map(v) => {
                out.push(T_MAP);
                put_len(out, v.len() as u64);
                for (k, x) in v {
                    k.put(out);
                    x.put(out);
                }
            }
            V::None => out.push(T_NONE),
            V::Some(x) => {
                out.push(T_SOME);
                x.put(out);
            }
            V::Variant(i, n, p) => {
                out.push(T_VARIANT);
                put_len(out, *i as u64);
                put_len(out, n.len() as u64);
                out.extend_from_slice(n.as_bytes());
                p.put(out);
            }
        }
    }
    /// Parse a document. Never panics; the whole input must be consumed.
    pub fn from_wire(b: &[u8]) -> Result<V, Error> {
        let mut pos = 0;
        let v = Self::get(b, &mut pos, 0)?;
        if pos != b.len() {
            return Err(Error("vtree: trailing bytes".into()));
        }
        Ok(v)
    }
    fn take<'a>(b: &'a [u8], pos: &mut usize, n: u64) -> Result<&'a [u8], Error> {
        let n = usize::try_from(n).map_err(|_| Error("vtree: length".into()))?;
        let end = pos.checked_add(n).ok_or_else(|| Error("vtree: length".into()))?;
        let s = b.get(*pos..end).ok_or_else(|| Error("vtree: truncated".into()))?;
        *pos = end;
        Ok(s)
    }
    fn get(b: &[u8], pos: &mut usize, depth: usize) -> Result<V, Error> {
        if depth > 64 {
            return Err(Error("vtree: too deep".into()));
        }
        let t = *b.get(*pos).ok_or_else(|| Error("vtree: truncated".into()))?;
        *pos += 1;
        Ok(match t {
            T_UNIT => V::Unit,
            T_FALSE => V::Bool(false),
            T_TRUE => V::Bool(true),
            T_U => V::U(get_len(b, pos)?),
            T_I => V::I(i64::from_le_bytes(Self::take(b, pos, 8)?.try_into().unwrap())),
            T_U128 => V::U128(u128::from_le_bytes(Self::take(b, pos, 16)?.try_into().unwrap())),
            T_F => V::F(u64::from_le_bytes(Self::take(b, pos, 8)?.try_into().unwrap())),
            T_BYTES => {
                let n = get_len(b, pos)?;
                V::Bytes(Self::take(b, pos, n)?.to_vec())
            }
            T_STR => {
                let n = get_len(b, pos)?;
                V::Str(String::from_utf8(Self::take(b, pos, n)?.to_vec()).map_err(|_| Error("vtree: utf-8".into()))?)
            }
            T_SEQ => {
                let n = get_len(b, pos)?;
                // every element takes at least one byte: a declared count beyond the input is refused before allocating
                if n > (b.len() - *pos) as u64 {
                    return Err(Error("vtree: truncated sequence".into()));
                }
                let mut v = Vec::with_capacity(n as usize);
                for _ in 0..n {
                    v.push(Self::get(b, pos, depth + 1)?);
                }
                V::Seq(v)
            }
            T_MAP => {
                let n = get_len(b, pos)?;
                if n > ((b.len() - *pos) / 2) as u64 {
                    return Err(Error("vtree: truncated map".into()));
                }
                let mut v = Vec::with_capacity(n as usize);
                for _ in 0..n {
                    let k = Self::get(b, pos, depth + 1)?;
                    let x = Self::get(b, pos, depth + 1)?;
                    v.push((k, x));
                }
                V::Map(v)
            }
            T_NONE => V::None,
            T_SOME => V::Some(Box::new(Self::get(b, pos, depth + 1)?)),
            T_VARIANT => {
                let i = get_len(b, pos)?;
                let n = get_len(b, pos)?;
                let name = String::from_utf8(Self::take(b, pos, n)?.to_vec()).map_err(|_| Error("vtree: utf-8".into()))?;
                V::Variant(u32::try_from(i).map_err(|_| Error("vtree: variant index".into()))?, name, Box::new(Self::get(b, pos, depth + 1)?))
            }
            _ => return Err(Error("vtree: unknown tag".into())),
        })
    }
    pub fn kind(&self) -> &'static str {
        match self {
            V::Unit => "unit",
            V::Bool(_) => "bool",
            V::U(_) => "uint",
            V::I(_) => "int",
            V::U128(_) => "u128",
            V::F(_) => "float",
            V::Bytes(_) => "bytes",
            V::Str(_) => "str",
            V::Seq(_) => "seq",
            V::Map(_) => "map",
            V::None => "none",
            V::Some(_) => "some",
            V::Variant(..) => "variant",
        }
    }
    /// number of nodes
    pub fn size(&self) -> usize {
        1 + match self {
            V::Seq(v) => v.iter().map(|x| x.size()).sum(),
            V::Map(v) => v.iter().map(|(k, x)| k.size() + x.size()).sum(),
            V::Some(x) | V::Variant(_, _, x) => x.size(),
            _ => 0,
        }
    }
}

// ---------------------------------------------------------------------------------------------- Serialize -> V

pub fn to_tree<T: Serialize + ?Sized>(value: &T, mode: Mode) -> Result<V, Error> {
    value.serialize(Ser { mode })
}
pub fn to_wire<T: Serialize + ?Sized>(value: &T, mode: Mode) -> Result<Vec<u8>, Error> {
    Ok(to_tree(value, mode)?.to_wire())
}

#[derive(Clone, Copy)]
struct Ser {
    mode: Mode,
}
struct SerSeq {
    mode: Mode,
    items: Vec<V>,
    variant: Option<(u32, &'static str)>,
}
struct SerMap {
    mode: Mode,
    items: Vec<(V, V)>,
    key: Option<V>,
    variant: Option<(u32, &'static str)>,
    as_map: bool,
}

impl ser::Serializer for Ser {
    type Ok = V;
    type Error = Error;
    type SerializeSeq = SerSeq;
    type SerializeTuple = SerSeq;
    type SerializeTupleStruct = SerSeq;
    type SerializeTupleVariant = SerSeq;
    type SerializeMap = SerMap;
    type SerializeStruct = SerMap;
    type SerializeStructVariant = SerMap;

    fn is_human_readable(&self) -> bool {
        self.mode.human_readable
    }
    fn serialize_bool(self, v: bool) -> Result<V, Error> {
        Ok(V::Bool(v))
    }
    fn serialize_i8(self, v: i8) -> Result<V, Error> {
        Ok(V::I(v as i64))
    }
    fn serialize_i16(self, v: i16) -> Result<V, Error> {
        Ok(V::I(v as i64))
    }
    fn serialize_i32(self, v: i32) -> Result<V, Error> {
        Ok(V::I(v as i64))
    }
    fn serialize_i64(self, v: i64) -> Result<V, Error> {
        Ok(V::I(v))
    }
    fn serialize_u8(self, v: u8) -> Result<V, Error> {
        Ok(V::U(v as u64))
    }
    fn serialize_u16(self, v: u16) -> Result<V, Error> {
        Ok(V::U(v as u64))
    }
    fn serialize_u32(self, v: u32) -> Result<V, Error> {
        Ok(V::U(v as u64))
    }
    fn serialize_u64(self, v: u64) -> Result<V, Error> {
        Ok(V::U(v))
    }
    fn serialize_u128(self, v: u128) -> Result<V, Error> {
        Ok(V::U128(v))
    }
    fn serialize_i128(self, v: i128) -> Result<V, Error> {
        Ok(V::U128(v as u128))
    }
    fn serialize_f32(self, v: f32) -> Result<V, Error> {
        Ok(V::F((v as f64).to_bits()))
    }
    fn serialize_f64(self, v: f64) -> Result<V, Error> {
        Ok(V::F(v.to_bits()))
    }
    fn serialize_char(self, v: char) -> Result<V, Error> {
        Ok(V::Str(v.to_string()))
    }
    fn serialize_str(self, v: &str) -> Result<V, Error> {
        Ok(V::Str(v.to_string()))
    }
    fn serialize_bytes(self, v: &[u8]) -> Result<V, Error> {
        Ok(V::Bytes(v.to_vec()))
    }
    fn serialize_none(self) -> Result<V, Error> {
        Ok(V::None)
    }
    fn serialize_some<T: ?Sized + Serialize>(self, value: &T) -> Result<V, Error> {
        Ok(V::Some(Box::new(value.serialize(self)?)))
    }
    fn serialize_unit(self) -> Result<V, Error> {
        Ok(V::Unit)
    }
    fn serialize_unit_struct(self, _: &'static str) -> Result<V, Error> {
        Ok(V::Unit)
    }
    fn serialize_unit_variant(self, _: &'static str, idx: u32, name: &'static str) -> Result<V, Error> {
        Ok(V::Variant(idx, name.to_string(), Box::new(V::Unit)))
    }
    fn serialize_newtype_struct<T: ?Sized + Serialize>(self, _: &'static str, value: &T) -> Result<V, Error> {
        value.serialize(self)
    }
    fn serialize_newtype_variant<T: ?Sized + Serialize>(self, _: &'static str, idx: u32, name: &'static str, value: &T) -> Result<V, Error> {
        Ok(V::Variant(idx, name.to_string(), Box::new(value.serialize(self)?)))
    }
    fn serialize_seq(self, len: Option<usize>) -> Result<SerSeq, Error> {
        Ok(SerSeq { mode: self.mode, items: Vec::with_capacity(len.unwrap_or(0).min(1 << 16)), variant: None })
    }
    fn serialize_tuple(self, len: usize) -> Result<SerSeq, Error> {
        self.serialize_seq(Some(len))
    }
    fn serialize_tuple_struct(self, _: &'static str, len: usize) -> Result<SerSeq, Error> {
        self.serialize_seq(Some(len))
    }
    fn serialize_tuple_variant(self, _: &'static str, idx: u32, name: &'static str, len: usize) -> Result<SerSeq, Error> {
        Ok(SerSeq { mode: self.mode, items: Vec::with_capacity(len), variant: Some((idx, name)) })
    }
    fn serialize_map(self, _: Option<usize>) -> Result<SerMap, Error> {
        Ok(SerMap { mode: self.mode, items: vec![], key: None, variant: None, as_map: true })
    }
    fn serialize_struct(self, _: &'static str, _: usize) -> Result<SerMap, Error> {
        Ok(SerMap { mode: self.mode, items: vec![], key: None, variant: None, as_map: self.mode.structs_as_maps })
    }
    fn serialize_struct_variant(self, _: &'static str, idx: u32, name: &'static str, _: usize) -> Result<SerMap, Error> {
        Ok(SerMap { mode: self.mode, items: vec![], key: None, variant: Some((idx, name)), as_map: self.mode.structs_as_maps })
    }
}
impl SerSeq {
    fn finish(self) -> V {
        // a sequence made only of bytes stays a sequence: whether a type writes `bytes` or a tuple of u8 is its own
        // choice and the reader must cope with what the writer chose
        let s = V::Seq(self.items);
        match self.variant {
            Some((i, n)) => V::Variant(i, n.to_string(), Box::new(s)),
            None => s,
        }
    }
}
impl ser::SerializeSeq for SerSeq {
    type Ok = V;
    type Error = Error;
    fn serialize_element<T: ?Sized + Serialize>(&mut self, value: &T) -> Result<(), Error> {
        self.items.push(value.serialize(Ser { mode: self.mode })?);
        Ok(())
    }
    fn end(self) -> Result<V, Error> {
        Ok(self.finish())
    }
}
impl ser::SerializeTuple for SerSeq {
    type Ok = V;
    type Error = Error;
    fn serialize_element<T: ?Sized + Serialize>(&mut self, value: &T) -> Result<(), Error> {
        ser::SerializeSeq::serialize_element(self, value)
    }
    fn end(self) -> Result<V, Error> {
        Ok(self.finish())
    }
}
impl ser::SerializeTupleStruct for SerSeq {
    type Ok = V;
    type Error = Error;
    fn serialize_field<T: ?Sized + Serialize>(&mut self, value: &T) -> Result<(), Error> {
        ser::SerializeSeq::serialize_element(self, value)
    }
    fn end(self) -> Result<V, Error> {
        Ok(self.finish())
    }
}
impl ser::SerializeTupleVariant for SerSeq {
    type Ok = V;
    type Error = Error;
    fn serialize_field<T: ?Sized + Serialize>(&mut self, value: &T) -> Result<(), Error> {
        ser::SerializeSeq::serialize_element(self, value)
    }
    fn end(self) -> Result<V, Error> {
        Ok(self.finish())
    }
}
impl SerMap {
    fn finish(self) -> V {
        let body = if self.as_map { V::Map(self.items) } else { V::Seq(self.items.into_iter().map(|(_, v)| v).collect()) };
        match self.variant {
            Some((i, n)) => V::Variant(i, n.to_string(), Box::new(body)),
            None => body,
        }
    }
}
impl ser::SerializeMap for SerMap {
    type Ok = V;
    type Error = Error;
    fn serialize_key<T: ?Sized + Serialize>(&mut self, key: &T) -> Result<(), Error> {
        self.key = Some(key.serialize(Ser { mode: self.mode })?);
        Ok(())
    }
    fn serialize_value<T: ?Sized + Serialize>(&mut self, value: &T) -> Result<(), Error> {
        let k = self.key.take().ok_or_else(|| Error("vtree: value without key".into()))?;
        self.items.push((k, value.serialize(Ser { mode: self.mode })?));
        Ok(())
    }
    fn end(self) -> Result<V, Error> {
        Ok(self.finish())
    }
}
impl ser::SerializeStruct for SerMap {
    type Ok = V;
    type Error = Error;
    fn serialize_field<T: ?Sized + Serialize>(&mut self, key: &'static str, value: &T) -> Result<(), Error> {
        let at = self.items.len();
        let k = match (self.mode.keys, at % 2) {
            (0, _) => V::Str(key.to_string()),
            (_, 0) => V::U(at as u64),
            _ => V::Bytes(key.as_bytes().to_vec()),
        };
        self.items.push((k, value.serialize(Ser { mode: self.mode })?));
        Ok(())
    }
    fn end(self) -> Result<V, Error> {
        Ok(self.finish())
    }
}
impl ser::SerializeStructVariant for SerMap {
    type Ok = V;
    type Error = Error;
    fn serialize_field<T: ?Sized + Serialize>(&mut self, key: &'static str, value: &T) -> Result<(), Error> {
        ser::SerializeStruct::serialize_field(self, key, value)
    }
    fn end(self) -> Result<V, Error> {
        Ok(self.finish())
    }
}

// ---------------------------------------------------------------------------------------------- V -> Deserialize

pub fn from_tree<T: de::DeserializeOwned>(v: &V, mode: Mode) -> Result<T, Error> {
    T::deserialize(De { v, mode })
}
pub fn from_wire<T: de::DeserializeOwned>(b: &[u8], mode: Mode) -> Result<T, Error> {
    let v = V::from_wire(b)?;
    from_tree(&v, mode)
}

#[derive(Clone, Copy)]
struct De<'a> {
    v: &'a V,
    mode: Mode,
}

impl<'a> De<'a> {
    fn bad<T>(&self, want: &str) -> Result<T, Error> {
        Err(Error(format!("vtree: invalid type: {}, expected {}", self.v.kind(), want)))
    }
    fn uint(&self) -> Option<u64> {
        match self.v {
            V::U(x) => Some(*x),
            V::I(x) if *x >= 0 => Some(*x as u64),
            _ => None,
        }
    }
    fn int(&self) -> Option<i64> {
        match self.v {
            V::I(x) => Some(*x),
            V::U(x) if *x <= i64::MAX as u64 => Some(*x as i64),
            _ => None,
        }
    }
    fn give_bytes<'de, Vis: Visitor<'de>>(&self, b: &[u8], visitor: Vis) -> Result<Vis::Value, Error> {
        if self.mode.lend {
            visitor.visit_bytes(b)
        } else {
            visitor.visit_byte_buf(b.to_vec())
        }
    }
    fn give_str<'de, Vis: Visitor<'de>>(&self, s: &str, visitor: Vis) -> Result<Vis::Value, Error> {
        if self.mode.lend {
            visitor.visit_str(s)
        } else {
            visitor.visit_string(s.to_string())
        }
    }
}

macro_rules! de_uint {
    ($name:ident, $visit:ident, $t:ty) => {
        fn $name<Vis: Visitor<'de>>(self, visitor: Vis) -> Result<Vis::Value, Error> {
            match self.uint().and_then(|x| <$t>::try_from(x).ok()) {
                Some(x) => visitor.$visit(x),
                None => self.bad(stringify!($t)),
            }
        }
    };
}
macro_rules! de_int {
    ($name:ident, $visit:ident, $t:ty) => {
        fn $name<Vis: Visitor<'de>>(self, visitor: Vis) -> Result<Vis::Value, Error> {
            match self.int().and_then(|x| <$t>::try_from(x).ok()) {
                Some(x) => visitor.$visit(x),
                None => self.bad(stringify!($t)),
            }
        }
    };
}

impl<'de, 'a> de::Deserializer<'de> for De<'a> {
    type Error = Error;

    fn is_human_readable(&self) -> bool {
        self.mode.human_readable
    }
    fn deserialize_any<Vis: Visitor<'de>>(self, visitor: Vis) -> Result<Vis::Value, Error> {
        match self.v {
            V::Unit => visitor.visit_unit(),
            V::Bool(b) => visitor.visit_bool(*b),
            V::U(x) => visitor.visit_u64(*x),
            V::I(x) => visitor.visit_i64(*x),
            V::U128(x) => visitor.visit_u128(*x),
            V::F(x) => visitor.visit_f64(f64::from_bits(*x)),
            V::Bytes(b) => self.give_bytes(b, visitor),
            V::Str(s) => self.give_str(s, visitor),
            V::Seq(v) => visitor.visit_seq(SeqDe { it: v.iter(), mode: self.mode, left: v.len() }),
            V::Map(v) => visitor.visit_map(MapDe { it: v.iter(), val: None, mode: self.mode, left: v.len() }),
            V::None => visitor.visit_none(),
            V::Some(x) => visitor.visit_some(De { v: x, mode: self.mode }),
            V::Variant(..) => visitor.visit_enum(EnumDe { v: self.v, mode: self.mode }),
        }
    }
    fn deserialize_bool<Vis: Visitor<'de>>(self, visitor: Vis) -> Result<Vis::Value, Error> {
        match self.v {
            V::Bool(b) => visitor.visit_bool(*b),
            _ => self.bad("bool"),
        }
    }
    de_uint!(deserialize_u8, visit_u8, u8);
    de_uint!(deserialize_u16, visit_u16, u16);
    de_uint!(deserialize_u32, visit_u32, u32);
    de_uint!(deserialize_u64, visit_u64, u64);
    de_int!(deserialize_i8, visit_i8, i8);
    de_int!(deserialize_i16, visit_i16, i16);
    de_int!(deserialize_i32, visit_i32, i32);
    de_int!(deserialize_i64, visit_i64, i64);
    fn deserialize_u128<Vis: Visitor<'de>>(self, visitor: Vis) -> Result<Vis::Value, Error> {
        match self.v {
            V::U128(x) => visitor.visit_u128(*x),
            V::U(x) => visitor.visit_u128(*x as u128),
            _ => self.bad("u128"),
        }
    }
    fn deserialize_i128<Vis: Visitor<'de>>(self, visitor: Vis) -> Result<Vis::Value, Error> {
        match self.v {
            V::U128(x) => visitor.visit_i128(*x as i128),
            V::I(x) => visitor.visit_i128(*x as i128),
            V::U(x) => visitor.visit_i128(*x as i128),
            _ => self.bad("i128"),
        }
    }
    fn deserialize_f32<Vis: Visitor<'de>>(self, visitor: Vis) -> Result<Vis::Value, Error> {
        match self.v {
            V::F(x) => visitor.visit_f32(f64::from_bits(*x) as f32),
            _ => self.bad("f32"),
        }
    }
    fn deserialize_f64<Vis: Visitor<'de>>(self, visitor: Vis) -> Result<Vis::Value, Error> {
        match self.v {
            V::F(x) => visitor.visit_f64(f64::from_bits(*x)),
            _ => self.bad("f64"),
        }
    }
    fn deserialize_char<Vis: Visitor<'de>>(self, visitor: Vis) -> Result<Vis::Value, Error> {
        match self.v {
            V::Str(s) if s.chars().count() == 1 => visitor.visit_char(s.chars().next().unwrap()),
            _ => self.bad("char"),
        }
    }
    fn deserialize_str<Vis: Visitor<'de>>(self, visitor: Vis) -> Result<Vis::Value, Error> {
        match self.v {
            V::Str(s) => self.give_str(s, visitor),
            V::Bytes(b) => match std::str::from_utf8(b) {
                Ok(s) => self.give_str(s, visitor),
                Err(_) => self.bad("str"),
            },
            _ => self.bad("str"),
        }
    }
    fn deserialize_string<Vis: Visitor<'de>>(self, visitor: Vis) -> Result<Vis::Value, Error> {
        self.deserialize_str(visitor)
    }
    fn deserialize_bytes<Vis: Visitor<'de>>(self, visitor: Vis) -> Result<Vis::Value, Error> {
        match self.v {
            V::Bytes(b) => self.give_bytes(b, visitor),
            V::Str(s) => self.give_bytes(s.as_bytes(), visitor),
            // a writer that spelled the bytes out as a sequence of small integers
            V::Seq(v) => visitor.visit_seq(SeqDe { it: v.iter(), mode: self.mode, left: v.len() }),
            _ => self.bad("bytes"),
        }
    }
    fn deserialize_byte_buf<Vis: Visitor<'de>>(self, visitor: Vis) -> Result<Vis::Value, Error> {
        self.deserialize_bytes(visitor)
    }
    fn deserialize_option<Vis: Visitor<'de>>(self, visitor: Vis) -> Result<Vis::Value, Error> {
        match self.v {
            V::None | V::Unit => visitor.visit_none(),
            V::Some(x) => visitor.visit_some(De { v: x, mode: self.mode }),
            _ => visitor.visit_some(self),
        }
    }
    fn deserialize_unit<Vis: Visitor<'de>>(self, visitor: Vis) -> Result<Vis::Value, Error> {
        match self.v {
            V::Unit => visitor.visit_unit(),
            _ => self.bad("unit"),
        }
    }
    fn deserialize_unit_struct<Vis: Visitor<'de>>(self, _: &'static str, visitor: Vis) -> Result<Vis::Value, Error> {
        self.deserialize_unit(visitor)
    }
    fn deserialize_newtype_struct<Vis: Visitor<'de>>(self, _: &'static str, visitor: Vis) -> Result<Vis::Value, Error> {
        visitor.visit_newtype_struct(self)
    }
    fn deserialize_seq<Vis: Visitor<'de>>(self, visitor: Vis) -> Result<Vis::Value, Error> {
        match self.v {
            V::Seq(v) => visitor.visit_seq(SeqDe { it: v.iter(), mode: self.mode, left: v.len() }),
            V::Bytes(b) => visitor.visit_seq(BytesSeqDe { it: b.iter(), left: b.len() }),
            _ => self.bad("sequence"),
        }
    }
    // the document decides how many elements there are; the visitor gets all of them offered
    fn deserialize_tuple<Vis: Visitor<'de>>(self, _len: usize, visitor: Vis) -> Result<Vis::Value, Error> {
        self.deserialize_seq(visitor)
    }
    fn deserialize_tuple_struct<Vis: Visitor<'de>>(self, _: &'static str, _len: usize, visitor: Vis) -> Result<Vis::Value, Error> {
        self.deserialize_seq(visitor)
    }
    fn deserialize_map<Vis: Visitor<'de>>(self, visitor: Vis) -> Result<Vis::Value, Error> {
        match self.v {
            V::Map(v) => visitor.visit_map(MapDe { it: v.iter(), val: None, mode: self.mode, left: v.len() }),
            _ => self.bad("map"),
        }
    }
    fn deserialize_struct<Vis: Visitor<'de>>(self, _: &'static str, _fields: &'static [&'static str], visitor: Vis) -> Result<Vis::Value, Error> {
        match self.v {
            V::Map(v) => visitor.visit_map(MapDe { it: v.iter(), val: None, mode: self.mode, left: v.len() }),
            V::Seq(v) => visitor.visit_seq(SeqDe { it: v.iter(), mode: self.mode, left: v.len() }),
            _ => self.bad("struct"),
        }
    }
    fn deserialize_enum<Vis: Visitor<'de>>(self, _: &'static str, _variants: &'static [&'static str], visitor: Vis) -> Result<Vis::Value, Error> {
        match self.v {
            V::Variant(..) | V::Str(_) | V::U(_) => visitor.visit_enum(EnumDe { v: self.v, mode: self.mode }),
            // externally tagged single-entry map, as human-readable formats write it
            V::Map(m) if m.len() == 1 => visitor.visit_enum(EnumDe { v: self.v, mode: self.mode }),
            _ => self.bad("enum"),
        }
    }
    fn deserialize_identifier<Vis: Visitor<'de>>(self, visitor: Vis) -> Result<Vis::Value, Error> {
        match self.v {
            V::Str(s) => self.give_str(s, visitor),
            V::U(x) => visitor.visit_u64(*x),
            V::Bytes(b) => self.give_bytes(b, visitor),
            _ => self.bad("identifier"),
        }
    }
    fn deserialize_ignored_any<Vis: Visitor<'de>>(self, visitor: Vis) -> Result<Vis::Value, Error> {
        visitor.visit_unit()
    }
}

struct SeqDe<'a> {
    it: std::slice::Iter<'a, V>,
    mode: Mode,
    left: usize,
}
impl<'de, 'a> SeqAccess<'de> for SeqDe<'a> {
    type Error = Error;
    fn next_element_seed<T: DeserializeSeed<'de>>(&mut self, seed: T) -> Result<Option<T::Value>, Error> {
        match self.it.next() {
            Some(v) => {
                self.left -= 1;
                seed.deserialize(De { v, mode: self.mode }).map(Some)
            }
            None => Ok(None),
        }
    }
    fn size_hint(&self) -> Option<usize> {
        Some(match self.mode.hint {
            1 => usize::MAX,
            2 => 1usize << 40,
            _ => self.left,
        })
    }
}
struct BytesSeqDe<'a> {
    it: std::slice::Iter<'a, u8>,
    left: usize,
}
impl<'de, 'a> SeqAccess<'de> for BytesSeqDe<'a> {
    type Error = Error;
    fn next_element_seed<T: DeserializeSeed<'de>>(&mut self, seed: T) -> Result<Option<T::Value>, Error> {
        match self.it.next() {
            Some(b) => {
                self.left -= 1;
                seed.deserialize((*b).into_deserializer()).map(Some)
            }
            None => Ok(None),
        }
    }
    fn size_hint(&self) -> Option<usize> {
        Some(self.left)
    }
}
struct MapDe<'a> {
    it: std::slice::Iter<'a, (V, V)>,
    val: Option<&'a V>,
    mode: Mode,
    left: usize,
}
impl<'de, 'a> MapAccess<'de> for MapDe<'a> {
    type Error = Error;
    fn next_key_seed<K: DeserializeSeed<'de>>(&mut self, seed: K) -> Result<Option<K::Value>, Error> {
        match self.it.next() {
            Some((k, v)) => {
                self.left -= 1;
                self.val = Some(v);
                seed.deserialize(De { v: k, mode: self.mode }).map(Some)
            }
            None => Ok(None),
        }
    }
    fn next_value_seed<T: DeserializeSeed<'de>>(&mut self, seed: T) -> Result<T::Value, Error> {
        match self.val.take() {
            Some(v) => seed.deserialize(De { v, mode: self.mode }),
            None => Err(Error("vtree: value requested before key".into())),
        }
    }
    fn size_hint(&self) -> Option<usize> {
        Some(self.left)
    }
}

struct EnumDe<'a> {
    v: &'a V,
    mode: Mode,
}
static UNIT: V = V::Unit;
impl<'de, 'a> EnumAccess<'de> for EnumDe<'a> {
    type Error = Error;
    type Variant = VariantDe<'a>;
    fn variant_seed<T: DeserializeSeed<'de>>(self, seed: T) -> Result<(T::Value, VariantDe<'a>), Error> {
        let (tag, payload): (V, &'a V) = match self.v {
            // binary formats identify the variant by index, human-readable ones by name
            V::Variant(i, n, p) => (if self.mode.human_readable { V::Str(n.clone()) } else { V::U(*i as u64) }, p),
            V::Str(s) => (V::Str(s.clone()), &UNIT),
            V::U(x) => (V::U(*x), &UNIT),
            V::Map(m) if m.len() == 1 => (m[0].0.clone(), &m[0].1),
            _ => return Err(Error("vtree: not an enum".into())),
        };
        let val = seed.deserialize(De { v: &tag, mode: self.mode })?;
        Ok((val, VariantDe { v: payload, mode: self.mode }))
    }
}
struct VariantDe<'a> {
    v: &'a V,
    mode: Mode,
}
impl<'de, 'a> VariantAccess<'de> for VariantDe<'a> {
    type Error = Error;
    fn unit_variant(self) -> Result<(), Error> {
        match self.v {
            V::Unit => Ok(()),
            _ => Err(Error("vtree: unit variant with payload".into())),
        }
    }
    fn newtype_variant_seed<T: DeserializeSeed<'de>>(self, seed: T) -> Result<T::Value, Error> {
        seed.deserialize(De { v: self.v, mode: self.mode })
    }
    fn tuple_variant<Vis: Visitor<'de>>(self, len: usize, visitor: Vis) -> Result<Vis::Value, Error> {
        de::Deserializer::deserialize_tuple(De { v: self.v, mode: self.mode }, len, visitor)
    }
    fn struct_variant<Vis: Visitor<'de>>(self, fields: &'static [&'static str], visitor: Vis) -> Result<Vis::Value, Error> {
        de::Deserializer::deserialize_struct(De { v: self.v, mode: self.mode }, "", fields, visitor)
    }
}

// ---------------------------------------------------------------------------------------------- Byzantine encoder

/// Structure-level corruptions of a document; every result is a well-formed document. `pick` selects which node
/// (pre-order index modulo the tree size) and which corruption; the caller draws both from the run's PRNG.
pub fn mutate(v: &V, node: usize, how: usize, filler: u8) -> (V, &'static str) {
    let mut out = v.clone();
    let n = out.size();
    let mut idx = node % n.max(1);
    let name = mutate_at(&mut out, &mut idx, how, filler).unwrap_or("unchanged");
    (out, name)
}
pub const MUTATIONS: usize = 14;
fn mutate_at(v: &mut V, idx: &mut usize, how: usize, filler: u8) -> Option<&'static str> {
    if *idx == 0 {
        return Some(apply(v, how, filler));
    }
    *idx -= 1;
    match v {
        V::Seq(items) => {
            for x in items.iter_mut() {
                let sz = x.size();
                if *idx < sz {
                    return mutate_at(x, idx, how, filler);
                }
                *idx -= sz;
            }
            None
        }
        V::Map(items) => {
            for (k, x) in items.iter_mut() {
                let sz = k.size();
                if *idx < sz {
                    return mutate_at(k, idx, how, filler);
                }
                *idx -= sz;
                let sz = x.size();
                if *idx < sz {
                    return mutate_at(x, idx, how, filler);
                }
                *idx -= sz;
            }
            None
        }
        V::Some(x) | V::Variant(_, _, x) => mutate_at(x, idx, how, filler),
        _ => None,
    }
}
fn apply(v: &mut V, how: usize, filler: u8) -> &'static str {
    let small = V::U(filler as u64);
    match (how % MUTATIONS, &mut *v) {
        (0, V::Seq(items)) => {
            let extra = items.last().cloned().unwrap_or(small);
            items.push(extra);
            "seq-one-more"
        }
        (1, V::Seq(items)) if !items.is_empty() => {
            items.pop();
            "seq-one-fewer"
        }
        (2, V::Seq(items)) => {
            items.clear();
            "seq-emptied"
        }
        (3, V::Seq(items)) if items.iter().all(|x| matches!(x, V::U(b) if *b < 256)) => {
            let b: Vec<u8> = items.iter().map(|x| if let V::U(b) = x { *b as u8 } else { 0 }).collect();
            *v = V::Bytes(b);
            "u8-seq-as-bytes"
        }
        (3, V::Bytes(b)) => {
            *v = V::Seq(b.iter().map(|x| V::U(*x as u64)).collect());
            "bytes-as-u8-seq"
        }
        (4, V::Seq(items)) => {
            let mut extra: Vec<V> = (0..300).map(|_| small.clone()).collect();
            items.append(&mut extra);
            "seq-300-more"
        }
        (5, V::Bytes(b)) => {
            b.push(filler);
            "bytes-one-more"
        }
        (6, V::Bytes(b)) if !b.is_empty() => {
            b.pop();
            "bytes-one-fewer"
        }
        (5, V::Str(s)) => {
            s.push(if filler % 2 == 0 { '0' } else { 'g' });
            "str-one-more"
        }
        (6, V::Str(s)) if !s.is_empty() => {
            s.pop();
            "str-one-fewer"
        }
        (7, V::Str(s)) => {
            *v = V::Bytes(s.as_bytes().to_vec());
            "str-as-bytes"
        }
        (7, V::Bytes(b)) => {
            *v = V::Str(b.iter().map(|x| format!("{:02x}", x)).collect());
            "bytes-as-hex-str"
        }
        (8, V::U(x)) => {
            *x = match filler % 4 {
                0 => u64::MAX,
                1 => 256,
                2 => x.wrapping_add(1),
                _ => 0,
            };
            "uint-changed"
        }
        (8, V::Variant(i, n, _)) => {
            *i = i.wrapping_add(1 + (filler as u32 % 3));
            n.push('X');
            "variant-tag-changed"
        }
        (9, V::Map(items)) => {
            items.push((V::Str("unknown_field".into()), small));
            "map-unknown-key"
        }
        (10, V::Map(items)) if !items.is_empty() => {
            let e = items[0].clone();
            items.push(e);
            "map-duplicate-key"
        }
        (11, V::Map(items)) if !items.is_empty() => {
            items.pop();
            "map-missing-key"
        }
        (12, V::Variant(_, _, p)) => {
            **p = V::Unit;
            "variant-payload-dropped"
        }
        (13, _) => {
            *v = V::Seq(vec![v.clone()]);
            "wrapped-in-seq"
        }
        (9, _) => {
            *v = V::I(-1);
            "negative-int"
        }
        (10, _) => {
            *v = V::None;
            "replaced-by-none"
        }
        (11, _) => {
            *v = V::Unit;
            "replaced-by-unit"
        }
        (12, _) => {
            *v = V::Map(vec![(V::Str("a".into()), v.clone())]);
            "wrapped-in-map"
        }
        _ => {
            *v = V::Bool(filler % 2 == 0);
            "replaced-by-bool"
        }
    }
}

/// Replace the first occurrence of the byte run `good` by `bad` (same length) wherever the document carries it: inside a
/// sequence of small integers, inside a byte string, or as lower-case hex inside a string. Returns false when absent.
pub fn substitute(v: &mut V, good: &[u8], bad: &[u8]) -> bool {
    if good.is_empty() || good.len() != bad.len() {
        return false;
    }
    match v {
        V::Seq(items) => {
            if items.len() >= good.len() {
                let as_u8: Vec<Option<u8>> = items.iter().map(|x| if let V::U(b) = x { u8::try_from(*b).ok() } else { None }).collect();
                for start in 0..=items.len() - good.len() {
                    if (0..good.len()).all(|i| as_u8[start + i] == Some(good[i])) {
                        for i in 0..good.len() {
                            items[start + i] = V::U(bad[i] as u64);
                        }
                        return true;
                    }
                }
            }
            items.iter_mut().any(|x| substitute(x, good, bad))
        }
        V::Bytes(b) => match b.windows(good.len()).position(|w| w == good) {
            Some(p) => {
                b[p..p + good.len()].copy_from_slice(bad);
                true
            }
            None => false,
        },
        V::Str(s) => {
            let hx = |b: &[u8]| b.iter().map(|x| format!("{:02x}", x)).collect::<String>();
            let (hg, hb) = (hx(good), hx(bad));
            if s.contains(&hg) {
                *s = s.replacen(&hg, &hb, 1);
                true
            } else {
                false
            }
        }
        V::Map(items) => items.iter_mut().any(|(_, x)| substitute(x, good, bad)),
        V::Some(x) | V::Variant(_, _, x) => substitute(x, good, bad),
        _ => false,
    }
}

/// Pre-order indices of the nodes that are sequences of small integers or byte strings of exactly `len` elements.
pub fn runs_of_len(v: &V, len: usize) -> Vec<usize> {
    fn walk(v: &V, len: usize, idx: &mut usize, out: &mut Vec<usize>) {
        let me = *idx;
        *idx += 1;
        match v {
            V::Seq(items) => {
                if items.len() == len && items.iter().all(|x| matches!(x, V::U(b) if *b < 256)) {
                    out.push(me);
                }
                for x in items {
                    walk(x, len, idx, out);
                }
            }
            V::Bytes(b) => {
                if b.len() == len {
                    out.push(me);
                }
            }
            V::Map(items) => {
                for (k, x) in items {
                    walk(k, len, idx, out);
                    walk(x, len, idx, out);
                }
            }
            V::Some(x) | V::Variant(_, _, x) => walk(x, len, idx, out),
            _ => {}
        }
    }
    let mut out = vec![];
    walk(v, len, &mut 0, &mut out);
    out
}

#[cfg(test)]
mod tests {
    use super::*;
    #[test]
    fn wire_round_trip() {
        let v = V::Seq(vec![V::U(7), V::Bytes(vec![1, 2, 3]), V::Variant(2, "ProofOfPossession".into(), Box::new(V::Seq(vec![V::U(1)]))), V::Map(vec![(V::Str("a".into()), V::None)]), V::Some(Box::new(V::I(-5)))]);
        assert_eq!(V::from_wire(&v.to_wire()).unwrap(), v);
        for cut in 0..v.to_wire().len() {
            assert!(V::from_wire(&v.to_wire()[..cut]).is_err());
        }
    }
    #[test]
    fn serde_round_trip() {
        #[derive(serde::Serialize, serde::Deserialize, PartialEq, Debug)]
        enum E {
            A([u8; 4]),
            B { x: u64, y: Vec<u8> },
            C,
        }
        for hr in [false, true] {
            for lend in [false, true] {
                for maps in [false, true] {
                    let m = Mode { human_readable: hr, lend, structs_as_maps: maps, hint: (hr as u8) + (lend as u8), keys: (maps && !hr) as u8 };
                    for e in [E::A([1, 2, 3, 4]), E::B { x: 9, y: vec![5, 6] }, E::C] {
                        let w = to_wire(&e, m).unwrap();
                        let back: E = from_wire(&w, m).unwrap();
                        assert_eq!(back, e);
                    }
                }
            }
        }
    }
}
