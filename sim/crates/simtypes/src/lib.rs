//! Types shared by the byte-level facade (one instance per library flavour) and the harness.
pub mod vtree;

/// Group assignment. `G1` = signatures in G1, public keys in G2 (`Bls12381G1Impl`).
#[derive(Clone, Copy, Debug, PartialEq, Eq, Hash, PartialOrd, Ord)]
pub enum Grp {
    G1,
    G2,
}
impl Grp {
    pub const ALL: [Grp; 2] = [Grp::G1, Grp::G2];
    pub fn sig_len(self) -> usize {
        match self {
            Grp::G1 => 48,
            Grp::G2 => 96,
        }
    }
    pub fn pk_len(self) -> usize {
        match self {
            Grp::G1 => 96,
            Grp::G2 => 48,
        }
    }
    pub fn name(self) -> &'static str {
        match self {
            Grp::G1 => "G1",
            Grp::G2 => "G2",
        }
    }
}

/// Encodings. `Bytes` = `Vec<u8>::from(&T)` / `T::try_from(&[u8])`.
#[derive(Clone, Copy, Debug, PartialEq, Eq, Hash, PartialOrd, Ord)]
#[repr(u8)]
pub enum Codec {
    Bytes = 0,
    BytesVec = 1,
    BytesRefVec = 2,
    BytesBox = 3,
    Bare = 4,
    Json = 5,
    Be = 6,
    Le = 7,
    /// the same JSON text read through `serde_json::from_reader` (hands the visitor OWNED strings, as a file or socket does)
    JsonReader = 8,
    /// the same JSON text parsed into a `serde_json::Value` first and decoded with `from_value` (a field of a larger document)
    JsonValue = 9,
    /// a third serde format owned by the harness (vtree.rs): self-describing binary, hands visitors OWNED buffers
    TreeBin = 10,
    /// the same, LENDING byte strings and strings to visitors (`visit_bytes` / `visit_str`), as zero-copy readers do
    TreeBinLend = 11,
    /// the same document model announcing itself human-readable, lending strings
    TreeHr = 12,
    /// binary, structs written as maps keyed by field name (CBOR / MessagePack-with-names style), lending
    TreeBinMap = 13,
    /// binary, owned buffers, and sequence accessors whose `size_hint` announces usize::MAX whatever the document holds
    TreeBinHint = 14,
    TreeBinPacked = 15,
}
impl Codec {
    pub const MAIN: [Codec; 3] = [Codec::Bytes, Codec::Bare, Codec::Json];
    pub const ALL: [Codec; 8] = [
        Codec::Bytes,
        Codec::BytesVec,
        Codec::BytesRefVec,
        Codec::BytesBox,
        Codec::Bare,
        Codec::Json,
        Codec::Be,
        Codec::Le,
    ];
    /// the two further front ends of the human-readable form (not in `ALL`: they share `Json`'s text)
    pub const JSON_FRONT_ENDS: [Codec; 2] = [Codec::JsonReader, Codec::JsonValue];
    /// the harness-owned third serde format in its four modes (not in `ALL`)
    pub const TREE_FORMATS: [Codec; 6] = [Codec::TreeBin, Codec::TreeBinLend, Codec::TreeHr, Codec::TreeBinMap, Codec::TreeBinHint, Codec::TreeBinPacked];
    pub fn tree_mode(self) -> Option<vtree::Mode> {
        match self {
            Codec::TreeBin => Some(vtree::Mode { human_readable: false, lend: false, structs_as_maps: false, hint: 0, keys: 0 }),
            Codec::TreeBinHint => Some(vtree::Mode { human_readable: false, lend: false, structs_as_maps: false, hint: 1, keys: 0 }),
            Codec::TreeBinLend => Some(vtree::Mode { human_readable: false, lend: true, structs_as_maps: false, hint: 0, keys: 0 }),
            Codec::TreeHr => Some(vtree::Mode { human_readable: true, lend: true, structs_as_maps: true, hint: 0, keys: 0 }),
            Codec::TreeBinPacked => Some(vtree::Mode { human_readable: false, lend: false, structs_as_maps: true, hint: 0, keys: 1 }),
            Codec::TreeBinMap => Some(vtree::Mode { human_readable: false, lend: true, structs_as_maps: true, hint: 2, keys: 0 }),
            _ => None,
        }
    }
    pub fn from_u8(b: u8) -> Option<Codec> {
        match b {
            8 => Some(Codec::JsonReader),
            9 => Some(Codec::JsonValue),
            10 => Some(Codec::TreeBin),
            11 => Some(Codec::TreeBinLend),
            12 => Some(Codec::TreeHr),
            13 => Some(Codec::TreeBinMap),
            14 => Some(Codec::TreeBinHint),
            15 => Some(Codec::TreeBinPacked),
            _ => Codec::ALL.get(b as usize).copied(),
        }
    }
    pub fn name(self) -> &'static str {
        match self {
            Codec::Bytes => "bytes",
            Codec::BytesVec => "bytes-vec",
            Codec::BytesRefVec => "bytes-refvec",
            Codec::BytesBox => "bytes-box",
            Codec::Bare => "bare",
            Codec::Json => "json",
            Codec::JsonReader => "json-from-reader",
            Codec::JsonValue => "json-from-value",
            Codec::TreeBin => "tree-binary-owned",
            Codec::TreeBinLend => "tree-binary-lending",
            Codec::TreeHr => "tree-human-readable",
            Codec::TreeBinMap => "tree-binary-structs-as-maps",
            Codec::TreeBinHint => "tree-binary-size-hint-max",
            Codec::TreeBinPacked => "tree-binary-packed-field-keys",
            Codec::Be => "be",
            Codec::Le => "le",
        }
    }
}

/// The 28 exported data types.
#[derive(Clone, Copy, Debug, PartialEq, Eq, Hash, PartialOrd, Ord)]
#[repr(u8)]
pub enum Ty {
    SecretKey = 0,
    SecretKeyShare,
    PublicKey,
    PublicKeyShare,
    Signature,
    SignatureShare,
    AggregateSignature,
    MultiSignature,
    MultiPublicKey,
    ProofOfPossession,
    ProofCommitment,
    ProofCommitmentSecret,
    ProofCommitmentChallenge,
    ProofOfKnowledge,
    ProofOfKnowledgeTimestamp,
    SignCryptCiphertext,
    SignCryptDecryptionKey,
    SignDecryptionShare,
    TimeCryptCiphertext,
    ElGamalCiphertext,
    ElGamalProof,
    ElGamalDecryptionShare,
    ElGamalDecryptionKey,
    SecretKeyEnum,
    InnerPointShareG1,
    InnerPointShareG2,
    SignatureSchemes,
    Bls12381,
}
impl Ty {
    pub const ALL: [Ty; 28] = [
        Ty::SecretKey,
        Ty::SecretKeyShare,
        Ty::PublicKey,
        Ty::PublicKeyShare,
        Ty::Signature,
        Ty::SignatureShare,
        Ty::AggregateSignature,
        Ty::MultiSignature,
        Ty::MultiPublicKey,
        Ty::ProofOfPossession,
        Ty::ProofCommitment,
        Ty::ProofCommitmentSecret,
        Ty::ProofCommitmentChallenge,
        Ty::ProofOfKnowledge,
        Ty::ProofOfKnowledgeTimestamp,
        Ty::SignCryptCiphertext,
        Ty::SignCryptDecryptionKey,
        Ty::SignDecryptionShare,
        Ty::TimeCryptCiphertext,
        Ty::ElGamalCiphertext,
        Ty::ElGamalProof,
        Ty::ElGamalDecryptionShare,
        Ty::ElGamalDecryptionKey,
        Ty::SecretKeyEnum,
        Ty::InnerPointShareG1,
        Ty::InnerPointShareG2,
        Ty::SignatureSchemes,
        Ty::Bls12381,
    ];
    pub fn from_u8(b: u8) -> Option<Ty> {
        Ty::ALL.get(b as usize).copied()
    }
    pub fn name(self) -> &'static str {
        match self {
            Ty::SecretKey => "SecretKey",
            Ty::SecretKeyShare => "SecretKeyShare",
            Ty::PublicKey => "PublicKey",
            Ty::PublicKeyShare => "PublicKeyShare",
            Ty::Signature => "Signature",
            Ty::SignatureShare => "SignatureShare",
            Ty::AggregateSignature => "AggregateSignature",
            Ty::MultiSignature => "MultiSignature",
            Ty::MultiPublicKey => "MultiPublicKey",
            Ty::ProofOfPossession => "ProofOfPossession",
            Ty::ProofCommitment => "ProofCommitment",
            Ty::ProofCommitmentSecret => "ProofCommitmentSecret",
            Ty::ProofCommitmentChallenge => "ProofCommitmentChallenge",
            Ty::ProofOfKnowledge => "ProofOfKnowledge",
            Ty::ProofOfKnowledgeTimestamp => "ProofOfKnowledgeTimestamp",
            Ty::SignCryptCiphertext => "SignCryptCiphertext",
            Ty::SignCryptDecryptionKey => "SignCryptDecryptionKey",
            Ty::SignDecryptionShare => "SignDecryptionShare",
            Ty::TimeCryptCiphertext => "TimeCryptCiphertext",
            Ty::ElGamalCiphertext => "ElGamalCiphertext",
            Ty::ElGamalProof => "ElGamalProof",
            Ty::ElGamalDecryptionShare => "ElGamalDecryptionShare",
            Ty::ElGamalDecryptionKey => "ElGamalDecryptionKey",
            Ty::SecretKeyEnum => "SecretKeyEnum",
            Ty::InnerPointShareG1 => "InnerPointShareG1",
            Ty::InnerPointShareG2 => "InnerPointShareG2",
            Ty::SignatureSchemes => "SignatureSchemes",
            Ty::Bls12381 => "Bls12381",
        }
    }
    /// true when the type is generic over the group assignment
    pub fn generic(self) -> bool {
        (self as u8) < (Ty::SecretKeyEnum as u8)
    }
}

/// Library operations reachable through the facade. Argument layout in the comments:
/// every argument is a byte string; values are in the `Bytes` codec; `scheme` is one
/// byte 0/1/2; integers are 8 bytes little-endian; an optional integer is empty for None.
#[derive(Clone, Copy, Debug, PartialEq, Eq, Hash, PartialOrd, Ord)]
pub enum Op {
    KeyFromHash,       // [seed] -> [sk]
    KeyRandomSeeded,   // [seed32] -> [sk]
    KeyNew,            // [] -> [sk]            (OS entropy)
    KeyNewViaBls,      // [] -> [sk]            BlsSignature::<C>::new_secret_key
    KeyFromHashViaBls, // [seed] -> [sk]
    KeyRandomViaBls,   // [seed32] -> [sk]
    PublicKey,         // [sk] -> [pk]
    PublicKeyFrom,     // [sk] -> [pk]          PublicKey::from(&sk)
    Sign,              // [sk, scheme, msg] -> [sig]
    Verify,            // [sig, pk, msg] -> []
    Pop,               // [sk] -> [pop]
    PopVerify,         // [pop, pk] -> []
    Aggregate,         // [sig..] -> [agg]
    AggVerify,         // [agg, (pk, msg)..] -> []
    MultiSig,          // [sig..] -> [msig]
    MultiPk,           // [pk..] -> [mpk]
    MultiVerify,       // [msig, mpk, msg] -> []
    Split,             // [sk, t, n, seed32] -> [share..]
    SplitEntropy,      // [sk, t, n] -> [share..]
    Combine,           // [share..] -> [sk]
    SharePk,           // [share] -> [pkshare]
    ShareSign,         // [share, scheme, msg] -> [sigshare]
    PkShareVerify,     // [pkshare, sigshare, msg] -> []
    SigShareVerify,    // [sigshare, pkshare, msg] -> []
    SigFromShares,     // [sigshare..] -> [sig]
    PkFromShares,      // [pkshare..] -> [pk]
    PokCommit,         // [msg, sig] -> [commitment, secret]
    ChallengeNew,      // [] -> [challenge]
    ChallengeNewViaBls, // [] -> [challenge]
    ChallengeFromHash, // [data] -> [challenge]
    ChallengeRandom,   // [seed32] -> [challenge]
    PokFinalize,       // [commitment, secret, challenge, sig] -> [pok]
    PokVerify,         // [pok, pk, msg, challenge] -> []
    PokTsGenerate,     // [msg, sig] -> [pokts]
    PokTsVerify,       // [pokts, pk, msg, timeout?] -> []
    SignCrypt,         // [pk, scheme, msg] -> [ct]
    ScValid,           // [ct] -> [flag]
    ScDecrypt,         // [ct, sk] -> [flag, msg?]
    ScDecKey,          // [sk, ct] -> [dk]
    DkDecrypt,         // [dk, ct] -> [flag, msg?]
    ScShare,           // [ct, skshare] -> [dshare]
    ScShareTrait,      // [ct, skshare] -> [id(1) || value bytes]   the trait-level BlsSignCrypt::create_decryption_share
    DShareVerify,      // [dshare, pkshare, ct] -> []
    ScDecryptShares,   // [ct, dshare..] -> [flag, msg?]
    DkFromShares,      // [dshare..] -> [dk]
    TimeLock,          // [pk, scheme, msg, id] -> [tct]
    TlDecrypt,         // [tct, sig] -> [flag, msg?]
    EgEncrypt,         // [pk, msk] -> [ect]
    EgEncryptProof,    // [pk, msk] -> [eproof]
    EgDecrypt,         // [ect, sk] -> [point]
    EgAdd,             // [ect, ect, mode(1)] -> [ect]
    EgProofVerify,     // [eproof, pk] -> []
    EgVerifyDecrypt,   // [eproof, sk] -> [point]
    EgShare,           // [skshare, ect] -> [eshare]
    EgDkFromShares,    // [eshare..] -> [edk]
    EgDkDecrypt,       // [edk, ect] -> [point]
    EgVerifyRaw,       // [pk, generator(empty = default), c1, c2, mp, bp, ch] -> []   trait-level BlsElGamal::verify_proof
    CoreSign,          // [sk, msg, dst] -> [sig point]      trait-level BlsSignatureCore::core_sign with a caller-supplied tag
    CoreVerify,        // [pk, sig point, msg, dst] -> []    trait-level BlsSignatureCore::core_verify
    AggVerifyTrait,    // [iterator kind(1): 0 vec / 1 filter / 2 from_fn / 3 chain / 4 flat_map / 5 not fused: first half, None, second half / 6 not fused: all, None, all again, aggsig, (pk, msg)...] -> []  the scheme traits' aggregate_verify with iterators whose size_hint differs
    VerifyUnchecked,   // [kind(1): 0 Signature / 1 MultiSignature vs MultiPublicKey / 2 ProofOfPossession, sig (tag+point, or bare point for 2), pk point, msg] -> []  values built through the PUBLIC enum / tuple constructors from on-curve points WITHOUT the subgroup check
    MsgGenerator,      // [] -> [point]
    Dsts,              // [] -> [basic, aug, pop_sig, pop_pop, elgamal_enc]
    Recode,            // [ty, codec_in, codec_out, bytes] -> [bytes]
    ValueEq,           // [ty, codec_a, a, codec_b, b] -> [flag]
    Exercise,          // [ty, codec, bytes] -> []  (decode, then every accessor)
    EnumNew,           // [] -> [enum-bytes, enum-json]    SecretKeyEnum::new(t) (OS entropy)
    EnumFromHash,      // [seed] -> [enum-bytes, enum-json]
    EnumRandom,        // [seed32] -> [enum-bytes, enum-json]
    EnumFromBe,        // [bytes] -> [flag, enum-json?]
    EnumFromLe,        // [bytes] -> [flag, enum-json?]
    SkFromBe,          // [bytes32] -> [flag, sk?]   CtOption
    SkFromLe,          // [bytes32] -> [flag, sk?]
    SchemeFrom,        // [u8 | str] -> [u8]   SignatureSchemes::from(u8)/from(&str)/FromStr
    MemLayout,         // [] -> [size_of Signature<C>, size_of PublicKey<C>, size_of (PublicKey point, Vec<u8>)]  8 bytes LE each: the in-memory sizes a caller can compute too
    AggVerifyReentrant, // [aggsig, pop-per-entry flag(1), (pk, msg, pop)...] -> [verdict of every nested PoP verification (1 byte each)]  the scheme trait's aggregate_verify fed by an iterator whose closure calls ProofOfPossession::verify for the entry it is about to yield
    EgEncryptProofBlinder, // [pk, msk, blinder] -> [eproof]   trait-level seal_scalar_with_proof with a caller-supplied blinder
    VerifyIn,          // [codec(1), sig in that codec, codec(1), pk in that codec, msg] -> []   decode each component in the codec it arrived in, then Signature::verify on the decoded values (no detour through the byte form)
    EgSealRaw,         // [pk, msk, generator (point of the key group)] -> [c1, c2, message_proof, blinder_proof, challenge]   trait-level BlsElGamal::seal_scalar_with_proof with a caller-supplied generator
    ScShareOverBase,   // [base point (on the curve, NOT subgroup-checked: what the public fields of a ciphertext can hold), skshare] -> [dshare]   SignCryptCiphertext { u: base, .. }.create_decryption_share(share)
    PairingRaw,        // [(sig point, pk point) pairs, unchecked] -> [is_identity(product)(1), product over the first half + product over the second half == product over all (1)]   trait-level Pairing::pairing
    EncodeInterrupted, // [ty, codec_in, bytes, fail_after(8), how(1, optional): 0 the sink returns an error / 1 the sink panics and the caller catches it] -> [flag(1) = the sink failed]   serialize the value as JSON into a writer that fails after that many bytes (a full disk, a closed socket), and into the harness's own serializer failing after that many calls; the value's honest encodings are then taken again by the caller
    PokCommitNestedAsRef, // [msg, sig] -> [outer commitment, outer secret, inner commitment, inner secret]   ProofCommitment::generate with a message value whose as_ref() runs another ProofCommitment::generate for the same inputs
    AggVerifyCallerPanics, // [aggsig, k(8), how(1): 0 iterator / 1 AsRef, (pk, msg)...] -> []  (always Rej)   the caller's own iterator (trait level) or message type (struct level) panics at entry k; the caller catches the unwind and goes on using the thread
    FromFickleList,    // [kind(1): 0 MultiSignature / 1 AggregateSignature, n1(8), sig...] -> [value]   from_signatures over a caller's container whose as_ref() returns the first n1 signatures on its 1st, 3rd, .. call and the remaining ones on its 2nd, 4th, .. call
    FickleMessage,     // [which(1): 0 PublicKey::sign_crypt / 1 PublicKey::encrypt_time_lock / 2 the scheme trait's sign / 3 trait-level BlsSignCrypt::seal, key, scheme, view1, view2, id (time-lock only)] -> [artefact]   the message is a caller's value whose as_ref() shows view1 on its 1st, 3rd.. call and view2 on its 2nd, 4th.. call (a window over a buffer another component appends to)
    DecodeInterrupted, // [ty, json text, k(8), how(1): 0 the reader returns an error / 1 the reader panics and the caller catches it] -> [flag(1) = a value came out]   serde_json::from_reader over a source that fails after k bytes
    SplitFaultyRng,    // [sk, t, n, seed32, k(8), fill(1), width(8, optional, default 1), panics(1, optional): 1 = the generator PANICS at request k and the caller catches the unwind] -> [share..]   split_with_rng with a caller's generator whose k-th .. (k+width-1)-th requests are answered with blocks of `fill` bytes (a transient fault of the entropy source), all others from the seeded stream
    MultiSigVerifyKeys, // [msig, msg, pk...] -> []   trait-level BlsSignaturePop::multi_sig_verify over the list of keys
}

/// Result of one facade call.
#[derive(Clone, Debug, PartialEq, Eq)]
pub enum Out {
    Ok(Vec<Vec<u8>>),
    Rej(String),
    Panic(String),
}
impl Out {
    pub fn is_ok(&self) -> bool {
        matches!(self, Out::Ok(_))
    }
    pub fn is_rej(&self) -> bool {
        matches!(self, Out::Rej(_))
    }
    pub fn is_panic(&self) -> bool {
        matches!(self, Out::Panic(_))
    }
    pub fn ok(self) -> Option<Vec<Vec<u8>>> {
        match self {
            Out::Ok(v) => Some(v),
            _ => None,
        }
    }
    pub fn first(&self) -> Option<&[u8]> {
        match self {
            Out::Ok(v) => v.first().map(|x| x.as_slice()),
            _ => None,
        }
    }
    /// for `[flag, value?]` results: Some(value) when flag == 1
    pub fn opt_value(&self) -> Option<Option<&[u8]>> {
        match self {
            Out::Ok(v) if !v.is_empty() && v[0] == [1u8] && v.len() > 1 => Some(Some(v[1].as_slice())),
            Out::Ok(v) if !v.is_empty() && v[0] == [0u8] => Some(None),
            _ => None,
        }
    }
    pub fn flag(&self) -> Option<bool> {
        match self {
            Out::Ok(v) if !v.is_empty() && v[0].len() == 1 => Some(v[0][0] == 1),
            _ => None,
        }
    }
    pub fn kind(&self) -> &'static str {
        match self {
            Out::Ok(_) => "ok",
            Out::Rej(_) => "rej",
            Out::Panic(_) => "panic",
        }
    }
}

/// One library flavour behind the byte-level facade.
pub trait Lib: Sync + Send {
    fn name(&self) -> &'static str;
    fn call(&self, g: Grp, op: Op, args: &[&[u8]]) -> Out;
    /// the same operation through an alternative public route (`route` >= 1) where the flavour offers one
    fn call_routed(&self, g: Grp, op: Op, args: &[&[u8]], _route: u8) -> Out {
        self.call(g, op, args)
    }
}

/// how often each operation was executed through an alternative public route (reach measurement only)
static ALT_COUNTS: [std::sync::atomic::AtomicU64; 128] = [const { std::sync::atomic::AtomicU64::new(0) }; 128];
static ALT_NAMES: std::sync::Mutex<std::collections::BTreeMap<usize, String>> = std::sync::Mutex::new(std::collections::BTreeMap::new());
/// lock-free on the hot path: a caller thread of a scheduled session must not be parked while holding a harness lock
pub fn note_alt_route(op: Op) {
    let i = (op as usize) % 128;
    if ALT_COUNTS[i].fetch_add(1, std::sync::atomic::Ordering::Relaxed) == 0 {
        if let Ok(mut m) = ALT_NAMES.lock() {
            m.insert(i, format!("{:?}", op));
        }
    }
}
pub fn alt_routes_taken() -> std::collections::BTreeMap<String, u64> {
    let names = ALT_NAMES.lock().map(|m| m.clone()).unwrap_or_default();
    names.into_iter().map(|(i, n)| (n, ALT_COUNTS[i].load(std::sync::atomic::Ordering::Relaxed))).collect()
}

thread_local! {
    static LAST_PANIC: std::cell::RefCell<Option<String>> = const { std::cell::RefCell::new(None) };
}
thread_local! {
    static IN_FACADE: std::cell::Cell<bool> = const { std::cell::Cell::new(false) };
}
/// set while a library call is in progress on this thread (panics there are data, not harness errors)
thread_local! {
    /// true while the facade is inside the library call proper (arguments already decoded): the span in which the
    /// simulator lets time flow with the work done (see kernel::seams::on_alloc)
    static WORKING: std::cell::Cell<bool> = const { std::cell::Cell::new(false) };
}
/// RAII marker for "inside the library call proper"
pub struct Working;
impl Working {
    pub fn begin() -> Working {
        let _ = WORKING.try_with(|w| w.set(true));
        Working
    }
}
impl Drop for Working {
    fn drop(&mut self) {
        let _ = WORKING.try_with(|w| w.set(false));
    }
}
pub fn working() -> bool {
    WORKING.try_with(|w| w.get()).unwrap_or(false)
}
pub fn set_in_facade(v: bool) {
    let _ = IN_FACADE.try_with(|c| c.set(v));
}
pub fn in_facade() -> bool {
    IN_FACADE.try_with(|c| c.get()).unwrap_or(false)
}
/// Called by the process-wide panic hook with "file:line".
pub fn note_panic(loc: String) {
    let _ = LAST_PANIC.try_with(|p| *p.borrow_mut() = Some(loc));
}
pub fn take_panic() -> Option<String> {
    LAST_PANIC.try_with(|p| p.borrow_mut().take()).ok().flatten()
}
