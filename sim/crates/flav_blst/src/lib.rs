//! Facade instance for flavour `blst` (package blsful). See ../facade_impl.rs.
include!("../../facade_impl.rs");
pub static LIB: Flavour = Flavour("blst");
