macro_rules! impl_from_derivatives_generic {
    ($name:ident) => {
        impl<C: BlsSignatureImpl> From<$name<C>> for Vec<u8> {
            fn from(value: $name<C>) -> Self {
                Vec::from(&value)
            }
        }

        impl<C: BlsSignatureImpl> TryFrom<Vec<u8>> for $name<C> {
            type Error = BlsError;

            fn try_from(value: Vec<u8>) -> Result<Self, Self::Error> {
                Self::try_from(&value)
            }
        }

        impl<C: BlsSignatureImpl> TryFrom<&Vec<u8>> for $name<C> {
            type Error = BlsError;

            fn try_from(value: &Vec<u8>) -> Result<Self, Self::Error> {
                Self::try_from(value.as_slice())
            }
        }

        impl<C: BlsSignatureImpl> TryFrom<Box<[u8]>> for $name<C> {
            type Error = BlsError;

            fn try_from(value: Box<[u8]>) -> Result<Self, Self::Error> {
                Self::try_from(value.as_ref())
            }
        }
    };
}

macro_rules! impl_from_derivatives {
    ($name:ident) => {
        impl From<$name> for Vec<u8> {
            fn from(value: $name) -> Self {
                Vec::from(&value)
            }
        }

        impl TryFrom<Vec<u8>> for $name {
            type Error = BlsError;

            fn try_from(value: Vec<u8>) -> Result<Self, Self::Error> {
                Self::try_from(&value)
            }
        }

        impl TryFrom<&Vec<u8>> for $name {
            type Error = BlsError;

            fn try_from(value: &Vec<u8>) -> Result<Self, Self::Error> {
                Self::try_from(value.as_slice())
            }
        }

        impl TryFrom<Box<[u8]>> for $name {
            type Error = BlsError;

            fn try_from(value: Box<[u8]>) -> Result<Self, Self::Error> {
                Self::try_from(value.as_ref())
            }
        }
    };
}
