use crate::*;
use serde::{Deserialize, Serialize};

/// A secret key share is field element 0 < `x` < `r`
/// where `r` is the curve order. See Section 4.3 in
/// <https://eprint.iacr.org/2016/663.pdf>
/// Must be combined with other secret key shares
/// to produce the completed key, or used for
/// creating partial signatures which can be
/// combined into a complete signature
#[derive(Debug, Eq, PartialEq, Serialize, Deserialize)]
pub struct SecretKeyShare<C: BlsSignatureImpl>(
    #[serde(serialize_with = "traits::secret_key_share::serialize::<C, _>")]
    #[serde(deserialize_with = "traits::secret_key_share::deserialize::<C, _>")]
    pub <C as Pairing>::SecretKeyShare,
);

impl<C: BlsSignatureImpl> Clone for SecretKeyShare<C> {
    fn clone(&self) -> Self {
        Self(self.0.clone())
    }
}

impl_from_derivatives_generic!(SecretKeyShare);

impl<C: BlsSignatureImpl> From<&SecretKeyShare<C>> for Vec<u8> {
    fn from(sk: &SecretKeyShare<C>) -> Self {
        serde_bare::to_vec(sk).unwrap()
    }
}

impl<C: BlsSignatureImpl> TryFrom<&[u8]> for SecretKeyShare<C> {
    type Error = BlsError;

    fn try_from(bytes: &[u8]) -> BlsResult<Self> {
        serde_bare::from_slice(bytes).map_err(|e| BlsError::InvalidInputs(e.to_string()))
    }
}

impl<C: BlsSignatureImpl> SecretKeyShare<C> {
    /// Compute the public key
    pub fn public_key(&self) -> BlsResult<PublicKeyShare<C>> {
        Ok(PublicKeyShare(<C as BlsSignatureCore>::public_key_share(
            &self.0,
        )?))
    }

    /// Sign a message with this secret key using the specified scheme
    pub fn sign<B: AsRef<[u8]>>(
        &self,
        scheme: SignatureSchemes,
        msg: B,
    ) -> BlsResult<SignatureShare<C>> {
        match scheme {
            SignatureSchemes::Basic => Ok(SignatureShare::Basic(
                <C as BlsSignatureBasic>::partial_sign(&self.0, msg)?,
            )),
            SignatureSchemes::MessageAugmentation => Err(BlsError::SigningError(
                "Message Augmentation not supported".to_string(),
            )),
            SignatureSchemes::ProofOfPossession => Ok(SignatureShare::ProofOfPossession(
                <C as BlsSignaturePop>::partial_sign(&self.0, msg)?,
            )),
        }
    }

    /// Extract the inner raw representation
    pub fn as_raw_value(&self) -> &<C as Pairing>::SecretKeyShare {
        &self.0
    }
}
