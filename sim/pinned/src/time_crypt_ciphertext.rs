use crate::*;
use subtle::CtOption;

/// The ciphertext output from time lock encryption
#[derive(Clone, Debug, Default, Eq, PartialEq, serde::Serialize, serde::Deserialize)]
pub struct TimeCryptCiphertext<C: BlsSignatureImpl> {
    /// The `u` component
    #[serde(serialize_with = "traits::public_key::serialize::<C, _>")]
    #[serde(deserialize_with = "traits::public_key::deserialize::<C, _>")]
    pub u: <C as Pairing>::PublicKey,
    /// The `v` component
    pub v: [u8; 32],
    /// The `w` component
    pub w: Vec<u8>,
    /// The signature scheme used to generate this ciphertext
    pub scheme: SignatureSchemes,
}

impl<C: BlsSignatureImpl> From<&TimeCryptCiphertext<C>> for Vec<u8> {
    fn from(value: &TimeCryptCiphertext<C>) -> Self {
        serde_bare::to_vec(value).expect("failed to serialize time crypt ciphertext")
    }
}

impl<C: BlsSignatureImpl> TryFrom<&[u8]> for TimeCryptCiphertext<C> {
    type Error = BlsError;

    fn try_from(value: &[u8]) -> Result<Self, Self::Error> {
        let output = serde_bare::from_slice(value)?;
        Ok(output)
    }
}

impl_from_derivatives_generic!(TimeCryptCiphertext);

impl<C: BlsSignatureImpl> TimeCryptCiphertext<C> {
    /// Decrypt the time lock ciphertext using a signature over an identifier
    pub fn decrypt(&self, sig: &Signature<C>) -> CtOption<Vec<u8>> {
        let (s, valid) = match (sig, self.scheme) {
            (Signature::Basic(s), SignatureSchemes::Basic) => (*s, 1u8.into()),
            (Signature::MessageAugmentation(s), SignatureSchemes::MessageAugmentation) => {
                (*s, 1u8.into())
            }
            (Signature::ProofOfPossession(s), SignatureSchemes::ProofOfPossession) => {
                (*s, 1u8.into())
            }
            (_, _) => (<C as Pairing>::Signature::default(), 0u8.into()),
        };
        <C as BlsTimeCrypt>::unseal(self.u, &self.v, &self.w, s, valid)
    }
}
