use crate::*;
use subtle::Choice;

/// A public key share is point on the curve. See Section 4.3 in
/// <https://eprint.iacr.org/2016/663.pdf>
/// Must be combined with other public key shares
/// to produce the completed key, or used for
/// creating partial signatures which can be
/// combined into a complete signature
#[derive(Debug, Eq, PartialEq, serde::Serialize, serde::Deserialize)]
pub struct PublicKeyShare<C: BlsSignatureImpl>(pub <C as Pairing>::PublicKeyShare);

impl<C: BlsSignatureImpl> Copy for PublicKeyShare<C> {}

impl<C: BlsSignatureImpl> Clone for PublicKeyShare<C> {
    fn clone(&self) -> Self {
        *self
    }
}

impl<C: BlsSignatureImpl> subtle::ConditionallySelectable for PublicKeyShare<C> {
    fn conditional_select(a: &Self, b: &Self, choice: Choice) -> Self {
        Self(<C as Pairing>::PublicKeyShare::conditional_select(
            &a.0, &b.0, choice,
        ))
    }
}

impl<C: BlsSignatureImpl> core::fmt::Display for PublicKeyShare<C> {
    fn fmt(&self, f: &mut core::fmt::Formatter<'_>) -> core::fmt::Result {
        write!(f, "{}", self.0)
    }
}

impl_from_derivatives_generic!(PublicKeyShare);

impl<C: BlsSignatureImpl> From<&PublicKeyShare<C>> for Vec<u8> {
    fn from(pk: &PublicKeyShare<C>) -> Vec<u8> {
        serde_bare::to_vec(&pk.0).unwrap()
    }
}

impl<C: BlsSignatureImpl> TryFrom<&[u8]> for PublicKeyShare<C> {
    type Error = BlsError;
    fn try_from(bytes: &[u8]) -> BlsResult<Self> {
        serde_bare::from_slice(bytes)
            .map(Self)
            .map_err(|e| BlsError::InvalidInputs(e.to_string()))
    }
}

impl<C: BlsSignatureImpl> PublicKeyShare<C> {
    /// Verify the signature share with the public key share
    pub fn verify<B: AsRef<[u8]>>(&self, sig: &SignatureShare<C>, msg: B) -> BlsResult<()> {
        let pk = self.0.as_group_element::<<C as Pairing>::PublicKey>()?;
        match sig {
            SignatureShare::Basic(sig) => {
                let sig = sig.as_group_element::<<C as Pairing>::Signature>()?;
                <C as BlsSignatureBasic>::verify(pk, sig, msg)
            }
            SignatureShare::MessageAugmentation(sig) => {
                let sig = sig.as_group_element::<<C as Pairing>::Signature>()?;
                <C as BlsSignatureMessageAugmentation>::verify(pk, sig, msg)
            }
            SignatureShare::ProofOfPossession(sig) => {
                let sig = sig.as_group_element::<<C as Pairing>::Signature>()?;
                <C as BlsSignaturePop>::verify(pk, sig, msg)
            }
        }
    }
}
