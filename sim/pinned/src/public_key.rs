use crate::impls::inner_types::*;
use crate::*;

/// A BLS public key
#[derive(Default, PartialEq, Eq, serde::Serialize, serde::Deserialize)]
pub struct PublicKey<C: BlsSignatureImpl>(
    /// The BLS public key raw value
    #[serde(serialize_with = "traits::public_key::serialize::<C, _>")]
    #[serde(deserialize_with = "traits::public_key::deserialize::<C, _>")]
    pub <C as Pairing>::PublicKey,
);

impl<C: BlsSignatureImpl> From<&SecretKey<C>> for PublicKey<C> {
    fn from(s: &SecretKey<C>) -> Self {
        Self(<C as Pairing>::PublicKey::generator() * s.0)
    }
}

impl<C: BlsSignatureImpl> core::fmt::Display for PublicKey<C> {
    fn fmt(&self, f: &mut core::fmt::Formatter) -> core::fmt::Result {
        write!(f, "{}", self.0)
    }
}

impl<C: BlsSignatureImpl> core::fmt::Debug for PublicKey<C> {
    fn fmt(&self, f: &mut core::fmt::Formatter) -> core::fmt::Result {
        write!(f, "{:?}", self.0)
    }
}

impl<C: BlsSignatureImpl> Copy for PublicKey<C> {}

impl<C: BlsSignatureImpl> Clone for PublicKey<C> {
    fn clone(&self) -> Self {
        *self
    }
}

impl<C: BlsSignatureImpl> subtle::ConditionallySelectable for PublicKey<C> {
    fn conditional_select(a: &Self, b: &Self, choice: Choice) -> Self {
        Self(<C as Pairing>::PublicKey::conditional_select(
            &a.0, &b.0, choice,
        ))
    }
}

impl_from_derivatives_generic!(PublicKey);

impl<C: BlsSignatureImpl> From<&PublicKey<C>> for Vec<u8> {
    fn from(value: &PublicKey<C>) -> Self {
        value.0.to_bytes().as_ref().to_vec()
    }
}

impl<C: BlsSignatureImpl> TryFrom<&[u8]> for PublicKey<C> {
    type Error = BlsError;

    fn try_from(value: &[u8]) -> Result<Self, Self::Error> {
        let mut repr = C::PublicKey::default().to_bytes();
        let len = repr.as_ref().len();

        if len != value.len() {
            return Err(BlsError::InvalidInputs(format!(
                "Invalid length, expected {}, got {}",
                len,
                value.len()
            )));
        }

        repr.as_mut().copy_from_slice(value);
        let key: Option<C::PublicKey> = C::PublicKey::from_bytes(&repr).into();
        key.map(Self)
            .ok_or_else(|| BlsError::InvalidInputs("Invalid byte sequence".to_string()))
    }
}

impl<C: BlsSignatureImpl> PublicKey<C> {
    /// Encrypt a message using signcryption
    pub fn sign_crypt<B: AsRef<[u8]>>(
        &self,
        scheme: SignatureSchemes,
        msg: B,
    ) -> SignCryptCiphertext<C> {
        let dst = match scheme {
            SignatureSchemes::Basic => <C as BlsSignatureBasic>::DST,
            SignatureSchemes::MessageAugmentation => <C as BlsSignatureMessageAugmentation>::DST,
            SignatureSchemes::ProofOfPossession => <C as BlsSignaturePop>::SIG_DST,
        };
        let (u, v, w) = <C as BlsSignCrypt>::seal(self.0, msg.as_ref(), dst);
        SignCryptCiphertext { u, v, w, scheme }
    }

    /// Encrypt a message using time lock encryption
    pub fn encrypt_time_lock<B: AsRef<[u8]>, D: AsRef<[u8]>>(
        &self,
        scheme: SignatureSchemes,
        msg: B,
        id: D,
    ) -> BlsResult<TimeCryptCiphertext<C>> {
        let dst = match scheme {
            SignatureSchemes::Basic => <C as BlsSignatureBasic>::DST,
            SignatureSchemes::MessageAugmentation => <C as BlsSignatureMessageAugmentation>::DST,
            SignatureSchemes::ProofOfPossession => <C as BlsSignaturePop>::SIG_DST,
        };
        let (u, v, w) = <C as BlsTimeCrypt>::seal(self.0, msg.as_ref(), id.as_ref(), dst)?;
        Ok(TimeCryptCiphertext { u, v, w, scheme })
    }

    /// Encrypt a message using ElGamal
    pub fn encrypt_key_el_gamal(&self, sk: &SecretKey<C>) -> BlsResult<ElGamalCiphertext<C>> {
        let (c1, c2) = <C as BlsElGamal>::seal_scalar(self.0, sk.0, None, None, get_crypto_rng())?;
        Ok(ElGamalCiphertext { c1, c2 })
    }

    /// Encrypt a message using ElGamal and generate a proof
    pub fn encrypt_key_el_gamal_with_proof(&self, sk: &SecretKey<C>) -> BlsResult<ElGamalProof<C>> {
        let (c1, c2, message_proof, blinder_proof, challenge) =
            <C as BlsElGamal>::seal_scalar_with_proof(self.0, sk.0, None, None, get_crypto_rng())?;
        Ok(ElGamalProof {
            ciphertext: ElGamalCiphertext { c1, c2 },
            message_proof,
            blinder_proof,
            challenge,
        })
    }

    /// Create a public key from secret shares
    pub fn from_shares(shares: &[PublicKeyShare<C>]) -> BlsResult<Self> {
        let points = shares
            .iter()
            .map(|s| s.0)
            .collect::<Vec<<C as Pairing>::PublicKeyShare>>();
        <C as BlsSignatureCore>::core_combine_public_key_shares(&points).map(Self)
    }
}
