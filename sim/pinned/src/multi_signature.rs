use crate::impls::inner_types::*;
use crate::*;

/// Represents a BLS signature for multiple signatures that signed different messages
#[derive(PartialEq, Eq, serde::Serialize, serde::Deserialize)]
pub enum MultiSignature<C: BlsSignatureImpl> {
    /// The basic signature scheme
    Basic(
        #[serde(serialize_with = "traits::signature::serialize::<C, _>")]
        #[serde(deserialize_with = "traits::signature::deserialize::<C, _>")]
        <C as Pairing>::Signature,
    ),
    /// The message augmentation signature scheme
    MessageAugmentation(
        #[serde(serialize_with = "traits::signature::serialize::<C, _>")]
        #[serde(deserialize_with = "traits::signature::deserialize::<C, _>")]
        <C as Pairing>::Signature,
    ),
    /// The proof of possession scheme
    ProofOfPossession(
        #[serde(serialize_with = "traits::signature::serialize::<C, _>")]
        #[serde(deserialize_with = "traits::signature::deserialize::<C, _>")]
        <C as Pairing>::Signature,
    ),
}

impl<C: BlsSignatureImpl> Default for MultiSignature<C> {
    fn default() -> Self {
        Self::ProofOfPossession(<C as Pairing>::Signature::default())
    }
}

impl<C: BlsSignatureImpl> core::fmt::Display for MultiSignature<C> {
    fn fmt(&self, f: &mut core::fmt::Formatter) -> core::fmt::Result {
        match self {
            Self::Basic(s) => write!(f, "Basic({})", s),
            Self::MessageAugmentation(s) => write!(f, "MessageAugmentation({})", s),
            Self::ProofOfPossession(s) => write!(f, "ProofOfPossession({})", s),
        }
    }
}

impl<C: BlsSignatureImpl> core::fmt::Debug for MultiSignature<C> {
    fn fmt(&self, f: &mut core::fmt::Formatter) -> core::fmt::Result {
        match self {
            Self::Basic(s) => write!(f, "Basic({:?})", s),
            Self::MessageAugmentation(s) => write!(f, "MessageAugmentation({:?})", s),
            Self::ProofOfPossession(s) => write!(f, "ProofOfPossession({:?})", s),
        }
    }
}

impl<C: BlsSignatureImpl> Copy for MultiSignature<C> {}

impl<C: BlsSignatureImpl> Clone for MultiSignature<C> {
    fn clone(&self) -> Self {
        *self
    }
}

impl<C: BlsSignatureImpl> subtle::ConditionallySelectable for MultiSignature<C> {
    fn conditional_select(a: &Self, b: &Self, choice: Choice) -> Self {
        match (a, b) {
            (Self::Basic(a), Self::Basic(b)) => {
                Self::Basic(<C as Pairing>::Signature::conditional_select(a, b, choice))
            }
            (Self::MessageAugmentation(a), Self::MessageAugmentation(b)) => {
                Self::MessageAugmentation(<C as Pairing>::Signature::conditional_select(
                    a, b, choice,
                ))
            }
            (Self::ProofOfPossession(a), Self::ProofOfPossession(b)) => {
                Self::ProofOfPossession(<C as Pairing>::Signature::conditional_select(a, b, choice))
            }
            _ => panic!("Signature::conditional_select: mismatched variants"),
        }
    }
}

impl<C: BlsSignatureImpl> TryFrom<&[Signature<C>]> for MultiSignature<C> {
    type Error = BlsError;

    fn try_from(sigs: &[Signature<C>]) -> Result<Self, Self::Error> {
        if sigs.len() < 2 {
            return Err(BlsError::InvalidSignature);
        }
        let mut g = <C as Pairing>::Signature::identity();
        for s in &sigs[1..] {
            if !s.same_scheme(&sigs[0]) {
                return Err(BlsError::InvalidSignatureScheme);
            }
            let ss = match s {
                Signature::Basic(sig) => sig,
                Signature::MessageAugmentation(_) => {
                    return Err(BlsError::InvalidSignatureScheme);
                }
                Signature::ProofOfPossession(sig) => sig,
            };
            g += ss;
        }
        match sigs[0] {
            Signature::Basic(s) => Ok(Self::Basic(g + s)),
            Signature::MessageAugmentation(s) => Ok(Self::MessageAugmentation(g + s)),
            Signature::ProofOfPossession(s) => Ok(Self::ProofOfPossession(g + s)),
        }
    }
}

impl_from_derivatives_generic!(MultiSignature);

impl<C: BlsSignatureImpl> From<&MultiSignature<C>> for Vec<u8> {
    fn from(value: &MultiSignature<C>) -> Self {
        serde_bare::to_vec(value).unwrap()
    }
}

impl<C: BlsSignatureImpl> TryFrom<&[u8]> for MultiSignature<C> {
    type Error = BlsError;

    fn try_from(value: &[u8]) -> Result<Self, Self::Error> {
        serde_bare::from_slice(value).map_err(|_| BlsError::InvalidSignature)
    }
}

impl<C: BlsSignatureImpl> MultiSignature<C> {
    /// Verify the multi-signature using the multi-public key
    pub fn verify<B: AsRef<[u8]>>(&self, pk: MultiPublicKey<C>, msg: B) -> BlsResult<()> {
        match self {
            Self::Basic(sig) => <C as BlsSignatureBasic>::verify(pk.0, *sig, msg),
            Self::MessageAugmentation(sig) => {
                <C as BlsSignatureMessageAugmentation>::verify(pk.0, *sig, msg)
            }
            Self::ProofOfPossession(sig) => <C as BlsSignaturePop>::verify(pk.0, *sig, msg),
        }
    }

    /// Extract the inner raw representation
    pub fn as_raw_value(&self) -> &<C as Pairing>::Signature {
        match self {
            Self::Basic(s) => s,
            Self::MessageAugmentation(s) => s,
            Self::ProofOfPossession(s) => s,
        }
    }

    /// Accumulate multiple signatures into a single signature
    pub fn from_signatures<B: AsRef<[Signature<C>]>>(signatures: B) -> BlsResult<Self> {
        Self::try_from(signatures.as_ref())
    }
}
