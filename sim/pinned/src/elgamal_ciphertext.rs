use crate::*;
use core::ops::{Add, AddAssign};

/// An ElGamal ciphertext
#[derive(Default, PartialEq, Eq, Serialize, Deserialize)]
pub struct ElGamalCiphertext<C: BlsSignatureImpl> {
    /// The first component of the ciphertext
    #[serde(serialize_with = "traits::public_key::serialize::<C, _>")]
    #[serde(deserialize_with = "traits::public_key::deserialize::<C, _>")]
    pub c1: <C as Pairing>::PublicKey,
    /// The second component of the ciphertext
    #[serde(serialize_with = "traits::public_key::serialize::<C, _>")]
    #[serde(deserialize_with = "traits::public_key::deserialize::<C, _>")]
    pub c2: <C as Pairing>::PublicKey,
}

impl<C: BlsSignatureImpl> core::fmt::Display for ElGamalCiphertext<C> {
    fn fmt(&self, f: &mut core::fmt::Formatter) -> core::fmt::Result {
        write!(f, "{{c1: {}, c2: {}}}", self.c1, self.c2)
    }
}

impl<C: BlsSignatureImpl> core::fmt::Debug for ElGamalCiphertext<C> {
    fn fmt(&self, f: &mut core::fmt::Formatter) -> core::fmt::Result {
        write!(
            f,
            "ElGamalCiphertext{{c1: {:?}, c2: {:?}}}",
            self.c1, self.c2
        )
    }
}

impl<C: BlsSignatureImpl> Copy for ElGamalCiphertext<C> {}

impl<C: BlsSignatureImpl> Clone for ElGamalCiphertext<C> {
    fn clone(&self) -> Self {
        *self
    }
}

impl<C: BlsSignatureImpl> subtle::ConditionallySelectable for ElGamalCiphertext<C> {
    fn conditional_select(a: &Self, b: &Self, choice: Choice) -> Self {
        Self {
            c1: <C as Pairing>::PublicKey::conditional_select(&a.c1, &b.c1, choice),
            c2: <C as Pairing>::PublicKey::conditional_select(&a.c2, &b.c2, choice),
        }
    }
}

impl<'a, 'b, C: BlsSignatureImpl> Add<&'b ElGamalCiphertext<C>> for &'a ElGamalCiphertext<C> {
    type Output = ElGamalCiphertext<C>;

    fn add(self, rhs: &'b ElGamalCiphertext<C>) -> Self::Output {
        *self + *rhs
    }
}

impl<'a, C: BlsSignatureImpl> Add<&'a ElGamalCiphertext<C>> for ElGamalCiphertext<C> {
    type Output = Self;

    fn add(self, rhs: &'a ElGamalCiphertext<C>) -> Self::Output {
        self + *rhs
    }
}

impl<'a, C: BlsSignatureImpl> Add<ElGamalCiphertext<C>> for &'a ElGamalCiphertext<C> {
    type Output = ElGamalCiphertext<C>;

    fn add(self, rhs: ElGamalCiphertext<C>) -> Self::Output {
        *self + rhs
    }
}

impl<C: BlsSignatureImpl> Add<ElGamalCiphertext<C>> for ElGamalCiphertext<C> {
    type Output = Self;

    fn add(self, rhs: Self) -> Self::Output {
        Self {
            c1: self.c1 + rhs.c1,
            c2: self.c2 + rhs.c2,
        }
    }
}

impl<C: BlsSignatureImpl> AddAssign<ElGamalCiphertext<C>> for ElGamalCiphertext<C> {
    fn add_assign(&mut self, rhs: ElGamalCiphertext<C>) {
        self.c1 += rhs.c1;
        self.c2 += rhs.c2;
    }
}

impl<'a, C: BlsSignatureImpl> AddAssign<&'a ElGamalCiphertext<C>> for ElGamalCiphertext<C> {
    fn add_assign(&mut self, rhs: &'a ElGamalCiphertext<C>) {
        self.c1 += rhs.c1;
        self.c2 += rhs.c2;
    }
}

impl<C: BlsSignatureImpl> From<&ElGamalCiphertext<C>> for Vec<u8> {
    fn from(value: &ElGamalCiphertext<C>) -> Self {
        serde_bare::to_vec(value).expect("failed to serialize ElGamalCiphertext")
    }
}

impl<C: BlsSignatureImpl> TryFrom<&[u8]> for ElGamalCiphertext<C> {
    type Error = BlsError;

    fn try_from(value: &[u8]) -> Result<Self, Self::Error> {
        let ciphertext = serde_bare::from_slice(value)?;
        Ok(ciphertext)
    }
}

impl_from_derivatives_generic!(ElGamalCiphertext);

impl<C: BlsSignatureImpl> ElGamalCiphertext<C> {
    /// Decrypt this ciphertext
    pub fn decrypt(&self, sk: &SecretKey<C>) -> <C as Pairing>::PublicKey {
        <C as BlsElGamal>::decrypt(sk.0, self.c1, self.c2)
    }
}
